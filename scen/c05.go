package scen

import (
	"syscall"
	"time"

	"github.com/talostrading/sonic"
	"github.com/talostrading/sonic/sonicerrors"

	"sonicverif/sim"
)

// C05 Post is thread-safe, exactly-once, ordered and wakes the loop.
//
// This file uses no maps or channels: it is linked uninstrumented into the
// race-detector build and its state is touched by every task in turn.

func init() {
	Register("C05", &Scenario{Name: "posters-random", Weight: 10, Run: func(c *Ctx, v int) { runC05(c, -1) }})
	Register("C05", &Scenario{Name: "post-directed", Directed: 5, Run: func(c *Ctx, v int) { runC05(c, v) }})
}

var (
	c05pWhileBlocked  = sim.RegStat("probe:c05-post-while-loop-blocked-in-epoll_wait")
	c05pNested        = sim.RegStat("probe:c05-post-from-posted-handler")
	c05pWoken         = sim.RegStat("probe:c05-blocking-wait-returned-after-post")
	c05pInexactWindow = sim.RegStat("probe:c05-pending-read-in-handler-with-a-post-in-progress")
	c05pConcurrent    = sim.RegStat("probe:c05-post-between-loop-lock-and-unlock")
	c05pBacklog       = sim.RegStat("probe:c05-backlog-of-more-than-1024-handlers-before-a-poll")
)

type c05Stream struct { // one per posting task (index = task id)
	committed int // Post calls started
	returned  int // Post calls returned
	ran       int // handlers executed
	lastSeq   int
	final     bool // the task has started its last Post
}

type c05 struct {
	c       *Ctx
	w       *sim.World
	ioc     *sonic.IO
	streams [8]c05Stream
	nTasks  int
	runs    []int // per handler id: execution count
	blocked bool  // the loop task is inside a blocking wait
	nestMax int
	// loop-side I/O that moves the shared counter
	fifo   *sim.Fifo
	file   sonic.File
	rdArm  bool
	timer  *sonic.Timer
	tArmed bool
	rbuf   [8]byte
}

func (d *c05) post(depth int) {
	w, c := d.w, d.c
	tid := w.CurTask().ID()
	st := &d.streams[tid]
	seq := st.committed
	st.committed++
	id := len(d.runs)
	d.runs = append(d.runs, 0)
	if d.blocked && tid != 0 {
		w.Stat(c05pWhileBlocked)
	}
	w.Tracef("c05 post task=%d seq=%d id=%d", tid, seq, id)
	err := d.ioc.Post(func() {
		w.Tracef("c05 run task=%d seq=%d id=%d", tid, seq, id)
		if !w.IsMainTask() {
			c.Failf("handler-on-wrong-goroutine", "handler %d (posted by task %d) ran on task %s, not on the goroutine that runs the loop", id, tid, w.CurTask().Name())
		}
		d.pendingInHandler(id)
		d.runs[id]++
		if d.runs[id] > 1 {
			c.Failf("handler-ran-twice", "handler %d (task %d, seq %d) executed %d times", id, tid, seq, d.runs[id])
		}
		if seq != st.lastSeq {
			c.Failf("post-order", "handlers posted by task %d ran out of order: seq %d ran when %d was next", tid, seq, st.lastSeq)
		}
		st.lastSeq++
		st.ran++
		if depth < d.nestMax && w.Chance(1, 2) {
			w.Stat(c05pNested)
			d.post(depth + 1)
		}
	})
	st.returned++
	if err != nil {
		c.Failf("post-error", "Post returned %v", err)
	}
}

// pendingInHandler: Pending() read on the loop goroutine from inside a posted
// handler. No other handler is running and the loop-side I/O of this scenario
// is only ever armed or disarmed between polls, so the exact value is known up
// to the Post calls other tasks are in the middle of (started, not returned)
// and to whether the handler that is running counts as "not yet run".
func (d *c05) pendingInHandler(id int) {
	committed, returned, ran := 0, 0, 0
	for i := 0; i < d.nTasks; i++ {
		committed += d.streams[i].committed
		returned += d.streams[i].returned
		ran += d.streams[i].ran
	}
	io := 0
	if d.rdArm {
		io++
	}
	if d.tArmed {
		io++
	}
	// ran counts the handlers that finished before this one
	lo, hi := returned-ran-1+io, committed-ran+io
	got := int(d.ioc.Pending())
	if got < lo || got > hi {
		d.c.Failf("pending-inexact-inside-handler", "Pending()=%d inside posted handler %d: %d Post calls started, %d returned, %d handlers finished, %d loop operations armed, so between %d and %d", got, id, committed, returned, ran, io, lo, hi)
	}
	if committed != returned {
		d.w.Stat(c05pInexactWindow)
	}
}

func (d *c05) outstanding() int {
	n := 0
	for i := 0; i < d.nTasks; i++ {
		n += d.streams[i].committed - d.streams[i].ran
	}
	return n
}

// mayBlock: some handler is guaranteed to be posted (or is posted and not
// run), so a blocking wait must return.
func (d *c05) mayBlock() bool {
	if d.outstanding() > 0 {
		return true
	}
	for i := 1; i < d.nTasks; i++ {
		if !d.streams[i].final {
			return true
		}
	}
	return d.tArmed
}

func (d *c05) allDone() bool {
	return d.w.LiveTasks() == 0 && d.outstanding() == 0
}

// loopActivity: arm / disarm I/O and timers so the poller's shared counter
// moves while posters run.
func (d *c05) loopActivity() {
	w := d.w
	switch w.Choose(5) {
	case 0:
		if !d.rdArm {
			d.rdArm = true
			d.file.AsyncRead(d.rbuf[:], func(err error, n int) { d.rdArm = false })
		}
	case 1:
		if d.rdArm {
			d.file.Cancel()
		}
	case 2:
		if !d.tArmed {
			d.tArmed = true
			if err := d.timer.ScheduleOnce(time.Duration(w.Pick(1_000_000, 1_000, 50_000_000)), func() { d.tArmed = false }); err != nil {
				d.tArmed = false
			}
		}
	case 3:
		if d.tArmed {
			if d.timer.Cancel() == nil {
				d.tArmed = false
			}
		}
	case 4:
		d.fifo.ActorWrite([]byte{1})
	}
}

func (d *c05) pollOnce() {
	w, c := d.w, d.c
	var err error
	switch v := w.Choose(4); {
	case v == 0:
		_, err = d.ioc.PollOne()
	case v == 1:
		err = d.ioc.RunOneFor(time.Duration(w.Pick(1, 5, 100)) * time.Millisecond)
	case d.mayBlock():
		before := d.outstanding()
		d.blocked = true
		err = d.ioc.RunOne()
		d.blocked = false
		if before == 0 && d.outstanding() == 0 {
			w.Stat(c05pWoken)
		}
	default:
		_, err = d.ioc.PollOne()
	}
	if err != nil && err != sonicerrors.ErrTimeout {
		c.Failf("poll-error", "poll returned %v", err)
	}
}

func runC05(c *Ctx, variant int) {
	w := c.W
	d := &c05{c: c, w: w}
	w.EnableFaults(sim.FEpollPermute, sim.FEintr)
	ioc, err := sonic.NewIO()
	if err != nil {
		sim.Bug("NewIO: %v", err)
	}
	d.ioc = ioc
	defer ioc.Close()
	d.fifo = w.K.MkFifo("/c05", 4096)
	d.fifo.ActorOpenWriter()
	d.file, err = sonic.Open(ioc, "/c05", syscall.O_RDONLY|syscall.O_NONBLOCK, 0)
	if err != nil {
		sim.Bug("Open: %v", err)
	}
	d.timer, err = sonic.NewTimer(ioc)
	if err != nil {
		sim.Bug("NewTimer: %v", err)
	}

	nPosters := w.Range(1, 4)
	d.nestMax = w.Pick(0, 1, 3)
	if c.Avoid["post-from-posted-handler"] {
		d.nestMax = 0
	}
	perPoster := [5]int{}
	switch variant {
	case 0: // a handler that posts (single task)
		nPosters, d.nestMax = 0, 2
	case 1: // one poster, loop blocked in RunOne
		nPosters, d.nestMax = 1, 0
	case 2: // nested posts with posters
		nPosters, d.nestMax = 2, 3
	case 3:
		nPosters, d.nestMax = 4, 1
	case 4: // a backlog far larger than anything one dispatch might want to take at once
		nPosters, d.nestMax = 1, 0
	}
	if variant >= 0 && variant != 0 && c.Avoid["post-from-posted-handler"] {
		d.nestMax = 0
	}
	d.nTasks = nPosters + 1
	for p := 1; p <= nPosters; p++ {
		perPoster[p] = w.Range(1, 20)
	}
	for p := 1; p <= nPosters; p++ {
		n := perPoster[p]
		pid := p
		w.Go("poster", func() {
			for i := 0; i < n; i++ {
				if i == n-1 {
					d.streams[pid].final = true
				}
				d.post(0)
				if w.Chance(1, 4) {
					w.Yield("poster-pause")
				}
			}
		})
	}
	if variant == 0 {
		d.post(0)
		d.post(0)
	}
	if variant == 4 || (variant < 0 && w.Chance(1, 30)) {
		// nothing bounds the number of handlers queued between two polls
		w.Stat(c05pBacklog)
		for i, n := 0, w.Pick(1500, 1025, 2049, 5000); i < n; i++ {
			d.post(0)
		}
	}
	// the loop
	for i := 0; ; i++ {
		if d.allDone() {
			break
		}
		if i > 20000 {
			sim.Bug("c05: loop did not drain (%d outstanding, %d live tasks)", d.outstanding(), w.LiveTasks())
		}
		if w.Chance(1, 3) {
			d.loopActivity()
		}
		if variant < 0 && w.Chance(1, 6) {
			d.post(0) // the loop goroutine posts too
		}
		d.pollOnce()
		if d.outstanding() == 0 && w.LiveTasks() > 0 {
			w.Yield("loop-idle")
		}
	}
	// quiescent point: exactly-once and the counters
	for id, n := range d.runs {
		if n != 1 {
			c.Failf("handler-not-run", "handler %d executed %d times by quiescence", id, n)
		}
	}
	for i := 0; i < d.nTasks; i++ {
		if d.streams[i].returned != d.streams[i].committed {
			c.Failf("post-never-returned", "task %d: %d Post calls started, %d returned", i, d.streams[i].committed, d.streams[i].returned)
		}
	}
	if d.ioc.Posted() != 0 {
		c.Failf("posted-not-zero", "Posted()=%d with every handler run", d.ioc.Posted())
	}
	want := 0
	if d.rdArm {
		want++
	}
	if d.tArmed {
		want++
	}
	if got := int(d.ioc.Pending()); got != want {
		c.Failf("pending-mismatch", "Pending()=%d at quiescence, operations in flight=%d", got, want)
	}
	d.file.Close()
	d.timer.Close()
}
