package scen

import (
	"bytes"
	"encoding/binary"
	"errors"
	"fmt"

	"github.com/talostrading/sonic"
	"github.com/talostrading/sonic/codec/frame"
	"github.com/talostrading/sonic/sonicerrors"
	"github.com/talostrading/sonic/sonicopts"

	"sonicverif/sim"
)

// C19 Codec connection framing is independent of transport segmentation.

func init() {
	Register("C19", &Scenario{Name: "framing-random", Weight: 10, Run: func(c *Ctx, v int) { runC19(c, -1) }})
	Register("C19", &Scenario{Name: "framing-every-offset", Directed: 8, Run: func(c *Ctx, v int) { runC19(c, v) }})
}

var (
	c19pChained   = sim.RegStat("probe:c19-next-read-started-from-inside-the-completion")
	c19pChainedW  = sim.RegStat("probe:c19-next-write-started-from-inside-the-completion")
	c19pBlockSync = sim.RegStat("probe:c19-would-block-inside-item-blocking-write")
	c19pCutPrefix = sim.RegStat("probe:c19-cut-inside-length-prefix")
	c19pBlockW    = sim.RegStat("probe:c19-would-block-inside-item-write")
	c19pHostile   = sim.RegStat("probe:c19-hostile-input")
	c19pEmpty     = sim.RegStat("probe:c19-empty-payload")
	c19pBig       = sim.RegStat("probe:c19-payload-1MiB")
	c19pEndToEnd  = sim.RegStat("probe:c19-sonic-to-sonic")
)

type c19 struct {
	c   *Ctx
	w   *sim.World
	ioc *sonic.IO
	// giveUp, if set, is consulted by the read loops: the oracle already has its answer
	giveUp func() bool
}

func (d *c19) payloads(n int, allowBig bool) [][]byte {
	w := d.w
	var out [][]byte
	for i := 0; i < n; i++ {
		size := w.Pick(10, 0, 1, 3, 4, 5, 255, 4096, 65536)
		if allowBig && w.Chance(1, 40) {
			size = 1 << 20
			w.Stat(c19pBig)
		}
		if size == 0 {
			w.Stat(c19pEmpty)
		}
		p := make([]byte, size)
		w.DataBytes(p)
		out = append(out, p)
	}
	return out
}

func c19Encode(items [][]byte) []byte {
	var b []byte
	for _, p := range items {
		b = binary.BigEndian.AppendUint32(b, uint32(len(p)))
		b = append(b, p...)
	}
	return b
}

// c19Parse: independent length-prefix parser.
func c19Parse(b []byte) (items [][]byte, rest []byte) {
	for len(b) >= 4 {
		n := int(binary.BigEndian.Uint32(b))
		if len(b)-4 < n {
			break
		}
		items = append(items, b[4:4+n])
		b = b[4+n:]
	}
	return items, b
}

func (d *c19) pump() {
	d.w.Advance(2_000_000)
	if t := d.w.NextEventAt(); t > d.w.Now && d.w.K.EpollReadyCount(d.w.K.FdBase) == 0 {
		d.w.Advance(t - d.w.Now)
	}
	if _, err := d.ioc.PollOne(); err != nil && err != sonicerrors.ErrTimeout {
		d.c.Failf("poll-error", "PollOne: %v", err)
	}
}

type c19Conn = sonic.CodecConn[[]byte, []byte]

func (d *c19) newCodecConn(s sonic.Stream) (*c19Conn, *sonic.ByteBuffer, *sonic.ByteBuffer) {
	src, dst := sonic.NewByteBuffer(), sonic.NewByteBuffer()
	cc, err := sonic.NewCodecConn[[]byte, []byte](s, frame.NewCodec(src), src, dst)
	if err != nil {
		sim.Bug("NewCodecConn: %v", err)
	}
	return cc, src, dst
}

// readItems reads n items with the chosen API; returns them (copied).
func (d *c19) readItems(cc *c19Conn, n int, async bool, bytesExpected int) ([][]byte, error) {
	var got [][]byte
	idle := 0
	limit := 4000 + 4*bytesExpected
	if async && n > 0 && d.w.Chance(1, 2) {
		// the usual receive loop: the completion handler starts the next read itself
		d.w.Stat(c19pChained)
		finished := false
		var rerr error
		var step func()
		step = func() {
			cc.AsyncReadNext(func(e error, it []byte) {
				if e != nil {
					rerr, finished = e, true
					return
				}
				got = append(got, append([]byte(nil), it...))
				if len(got) < n {
					step()
				} else {
					finished = true
				}
			})
		}
		step()
		for i := 0; !finished; i++ {
			if d.giveUp != nil && d.giveUp() {
				return got, errors.New("gave up")
			}
			before := d.w.KernelCalls
			d.pump()
			if d.w.KernelCalls-before <= 1 {
				idle++
			} else {
				idle = 0
			}
			if idle > 300 || i > limit*(n+1) {
				return got, errors.New("AsyncReadNext never completed")
			}
		}
		return got, rerr
	}
	for rounds := 0; len(got) < n; rounds++ {
		if d.giveUp != nil && d.giveUp() {
			return got, errors.New("gave up")
		}
		if rounds > limit {
			return got, errors.New("reader made no end (livelock)")
		}
		if async {
			done := false
			var item []byte
			var err error
			cc.AsyncReadNext(func(e error, it []byte) { err, item, done = e, append([]byte(nil), it...), true })
			for i := 0; !done; i++ {
				if d.giveUp != nil && d.giveUp() {
					return got, errors.New("gave up")
				}
				before := d.w.KernelCalls
				d.pump()
				if d.w.KernelCalls-before <= 1 {
					idle++
				} else {
					idle = 0
				}
				if idle > 300 || i > limit {
					return got, errors.New("AsyncReadNext never completed")
				}
			}
			if err != nil {
				return got, err
			}
			got = append(got, item)
			continue
		}
		kc := d.w.KernelCalls
		item, err := cc.ReadNext()
		if errors.Is(err, sonicerrors.ErrWouldBlock) {
			progressed := d.w.KernelCalls-kc > 1 // more than the read that reported would-block
			d.pump()
			if !progressed && d.w.PendingEvents() == 0 {
				idle++
				if idle > 300 {
					return got, errors.New("ReadNext keeps reporting would-block although every byte was delivered")
				}
			} else {
				idle = 0
			}
			continue
		}
		if err != nil {
			return got, err
		}
		got = append(got, append([]byte(nil), item...))
	}
	return got, nil
}

func (d *c19) compare(label string, want, got [][]byte, rerr error) {
	c := d.c
	for i, p := range want {
		if i >= len(got) {
			c.Failf("item-lost", "%s: item %d of %d (%d bytes) was never returned; the reader stopped with %v", label, i, len(want), len(p), rerr)
		}
		if len(got[i]) != len(p) {
			c.Failf("item-length-differs", "%s: item %d returned with %d bytes, written with %d", label, i, len(got[i]), len(p))
		}
		if !bytes.Equal(got[i], p) {
			c.Failf("item-content-differs", "%s: item %d (%d bytes) is not byte-identical to what was written", label, i, len(p))
		}
	}
	if len(got) > len(want) {
		c.Failf("item-invented", "%s: %d items returned, %d written", label, len(got), len(want))
	}
}

func sendPieces(w *sim.World, end *sim.TCPEnd, b []byte, cuts []int) {
	prev := 0
	at := int64(0)
	emit := func(p []byte) {
		if len(p) == 0 {
			return
		}
		cp := append([]byte(nil), p...)
		off := 0
		var push func()
		push = func() {
			off += end.ActorSend(cp[off:])
			if off < len(cp) {
				w.After(1_000_000, "actor-send-rest", push)
			}
		}
		w.After(at, "actor-send", push)
		at += 2_000_000
	}
	for _, cu := range cuts {
		if cu > prev && cu < len(b) {
			emit(b[prev:cu])
			prev = cu
		}
	}
	emit(b[prev:])
}

func runC19(c *Ctx, variant int) {
	w := c.W
	ioc, err := sonic.NewIO()
	if err != nil {
		sim.Bug("NewIO: %v", err)
	}
	defer ioc.Close()
	d := &c19{c: c, w: w, ioc: ioc}
	cfg := w.Choose(4)
	if variant >= 0 {
		cfg = variant % 2
	} else {
		w.EnableFaults(sim.FSegment, sim.FShortRead, sim.FShortWrite, sim.FDelay, sim.FEpollPermute)
	}
	async := w.Chance(1, 2)
	if variant >= 0 {
		async = variant&2 != 0
	}
	port := 9100
	switch cfg {
	case 0: // an independent encoder writes, sonic reads
		w.TCPRcvCap = w.Pick(1<<20, 1, 3, 64, 5000)
		al := w.K.ActorListen(loopIP, port, sim.ConnAccept)
		var end *sim.TCPEnd
		al.OnConn(func(e *sim.TCPEnd) { end = e })
		conn, err := sonic.Dial(ioc, "tcp", fmt.Sprintf("127.0.0.1:%d", port))
		if err != nil {
			sim.Bug("Dial: %v", err)
		}
		defer conn.Close()
		cc, _, _ := d.newCodecConn(conn)
		n := w.Range(1, 12)
		if variant >= 0 {
			n = 3
		}
		items := d.payloads(n, variant < 0 && w.TCPRcvCap >= 5000)
		if variant >= 0 {
			items = [][]byte{{}, {1, 2, 3}, bytes.Repeat([]byte{7}, 20)}
		}
		wire := c19Encode(items)
		var cuts []int
		if variant >= 0 {
			cuts = []int{1 + int(w.Seed%uint64(len(wire)-1))}
			if variant&4 != 0 {
				cuts = append(cuts, 1+int((w.Seed/104729)%uint64(len(wire)-1)))
				sortInts(cuts)
			}
		} else {
			for i, k := 0, w.Pick(0, 1, 3, 10); i < k && len(wire) > 1; i++ {
				cuts = append(cuts, w.Range(1, len(wire)-1))
			}
			sortInts(cuts)
		}
		off := 0
		for _, p := range items {
			for _, cu := range cuts {
				if cu > off && cu < off+4 {
					w.Stat(c19pCutPrefix)
				}
			}
			off += 4 + len(p)
		}
		sendPieces(w, end, wire, cuts)
		got, rerr := d.readItems(cc, len(items), async, len(wire))
		d.compare(fmt.Sprintf("actor->sonic async=%v cuts=%v", async, cuts), items, got, rerr)
	case 1: // sonic writes, an independent parser reads the wire
		w.TCPSndCap = w.Pick(1<<20, 7, 64, 4096)
		syncWouldBlock := !async && variant < 0 && w.Chance(1, 2)
		if !async && !syncWouldBlock {
			w.TCPSndCap = 1 << 22 // a blocking WriteNext cannot wait for writability
		}
		al := w.K.ActorListen(loopIP, port, sim.ConnAccept)
		var rx []byte
		al.OnConn(func(e *sim.TCPEnd) {
			e.OnData = func() { rx = append(rx, e.ActorRecv(1<<30)...) }
		})
		conn, err := sonic.Dial(ioc, "tcp", fmt.Sprintf("127.0.0.1:%d", port))
		if err != nil {
			sim.Bug("Dial: %v", err)
		}
		defer conn.Close()
		cc, _, dst := d.newCodecConn(conn)
		n := w.Range(1, 10)
		items := d.payloads(n, false)
		if async && w.Chance(1, 2) {
			// the usual send loop: the completion handler of one item starts the write of the next
			w.Stat(c19pChainedW)
			finished := false
			var step func(i int)
			step = func(i int) {
				p := items[i]
				cc.AsyncWriteNext(p, func(e error, _ int) {
					if e != nil {
						c.Failf("write-failed", "AsyncWriteNext of item %d (%d bytes) failed on a healthy connection: %v", i, len(p), e)
					}
					if dst.ReadLen() != 0 || dst.WriteLen() != 0 {
						c.Failf("item-left-behind-after-write", "after the write of item %d (%d bytes) completed successfully the destination buffer still holds %d readable and %d uncommitted bytes", i, len(p), dst.ReadLen(), dst.WriteLen())
					}
					if i+1 < len(items) {
						step(i + 1)
					} else {
						finished = true
					}
				})
			}
			step(0)
			total := 0
			for _, p := range items {
				total += len(p) + 8
			}
			for k := 0; !finished; k++ {
				if k > 4000*len(items)+4*total {
					c.Failf("write-never-completes", "a chain of %d AsyncWriteNext calls, each started from the previous completion, never finished although the peer keeps reading", len(items))
				}
				d.pump()
			}
			items, n = items, 0
		}
		for i, p := range items[:n] {
			if async {
				done := false
				var werr error
				cc.AsyncWriteNext(p, func(e error, _ int) { werr, done = e, true })
				for k := 0; !done; k++ {
					if k > 4000+4*len(p) {
						c.Failf("write-never-completes", "AsyncWriteNext of item %d (%d bytes) never completed although the peer keeps reading", i, len(p))
					}
					if k > 0 {
						w.Stat(c19pBlockW)
					}
					d.pump()
				}
				if werr != nil {
					c.Failf("write-failed", "AsyncWriteNext of item %d (%d bytes) failed on a healthy connection: %v", i, len(p), werr)
				}
			} else {
				_, werr := cc.WriteNext(p)
				if werr != nil && syncWouldBlock && errors.Is(werr, sonicerrors.ErrWouldBlock) {
					// the send buffer filled up, possibly in the middle of the item: what was not sent stays queued in
					// the destination buffer and goes out in front of the next item (the item is not submitted again)
					w.Stat(c19pBlockSync)
					for k := 0; k < 3; k++ {
						d.pump()
					}
					continue
				}
				if werr != nil {
					c.Failf("write-failed", "WriteNext of item %d (%d bytes) failed on a healthy connection: %v", i, len(p), werr)
				}
			}
			if dst.ReadLen() != 0 || dst.WriteLen() != 0 {
				c.Failf("item-left-behind-after-write", "after the write of item %d (%d bytes) completed successfully the destination buffer still holds %d readable and %d uncommitted bytes", i, len(p), dst.ReadLen(), dst.WriteLen())
			}
		}
		if syncWouldBlock {
			// flush what a would-block left queued
			for k := 0; dst.ReadLen() > 0; k++ {
				if k > 100000 {
					c.Failf("write-never-completes", "the bytes a would-block left queued (%d) cannot be flushed although the peer keeps reading", dst.ReadLen())
				}
				if _, ferr := dst.WriteTo(conn); ferr != nil && !errors.Is(ferr, sonicerrors.ErrWouldBlock) {
					c.Failf("write-failed", "flushing the destination buffer failed on a healthy connection: %v", ferr)
				}
				d.pump()
			}
		}
		for k := 0; k < 50 && (w.K.EndOf(conn.RawFd()).InFlight() || k < 3); k++ {
			w.Drain(3_000_000_000)
		}
		got, rest := c19Parse(rx)
		if len(rest) != 0 && len(got) >= len(items) {
			c.Failf("trailing-bytes-on-wire", "after %d items the wire holds %d more bytes", len(got), len(rest))
		}
		d.compare(fmt.Sprintf("sonic->actor async=%v", async), items, got, fmt.Errorf("%d unparsed bytes on the wire", len(rest)))
	case 2: // sonic to sonic
		w.Stat(c19pEndToEnd)
		w.TCPSndCap = w.Pick(1<<20, 64, 4096)
		w.TCPRcvCap = w.Pick(1<<20, 64, 4096)
		ln, err := sonic.Listen(ioc, "tcp", fmt.Sprintf("127.0.0.1:%d", port), sonicopts.Nonblocking(true))
		if err != nil {
			sim.Bug("Listen: %v", err)
		}
		defer ln.Close()
		cli, err := sonic.Dial(ioc, "tcp", fmt.Sprintf("127.0.0.1:%d", port))
		if err != nil {
			sim.Bug("Dial: %v", err)
		}
		defer cli.Close()
		w.Drain(3_000_000_000)
		srv, err := ln.Accept()
		if err != nil {
			sim.Bug("Accept: %v", err)
		}
		defer srv.Close()
		a, _, _ := d.newCodecConn(cli)
		b, _, _ := d.newCodecConn(srv)
		items := d.payloads(w.Range(1, 8), false)
		total := 0
		written := 0
		var got [][]byte
		for _, p := range items {
			total += 4 + len(p)
		}
		// writes and reads alternate so that neither side's buffer has to hold everything
		for written < len(items) || len(got) < len(items) {
			if written < len(items) {
				p := items[written]
				done := false
				var werr error
				a.AsyncWriteNext(p, func(e error, _ int) { werr, done = e, true })
				for k := 0; !done; k++ {
					if k > 4000+4*len(p) {
						c.Failf("write-never-completes", "AsyncWriteNext of item %d never completed although the other side reads", written)
					}
					d.pump()
					// the reader drains concurrently (a partial item stays in its buffer)
					if item, rerr := b.ReadNext(); rerr == nil {
						got = append(got, append([]byte(nil), item...))
					} else if !errors.Is(rerr, sonicerrors.ErrWouldBlock) {
						c.Failf("read-failed", "ReadNext failed on a healthy connection: %v", rerr)
					}
				}
				if werr != nil {
					c.Failf("write-failed", "AsyncWriteNext failed on a healthy connection: %v", werr)
				}
				written++
			}
			if len(got) < written {
				more, rerr := d.readItems(b, written-len(got), async, total)
				got = append(got, more...)
				if rerr != nil {
					d.compare("sonic->sonic", items[:written], got, rerr)
				}
			}
		}
		d.compare("sonic->sonic", items, got, nil)
	case 3: // hostile peer
		w.Stat(c19pHostile)
		al := w.K.ActorListen(loopIP, port, sim.ConnAccept)
		var end *sim.TCPEnd
		al.OnConn(func(e *sim.TCPEnd) { end = e })
		conn, err := sonic.Dial(ioc, "tcp", fmt.Sprintf("127.0.0.1:%d", port))
		if err != nil {
			sim.Bug("Dial: %v", err)
		}
		defer conn.Close()
		cc, src, _ := d.newCodecConn(conn)
		good := d.payloads(w.Range(0, 3), false)
		wire := c19Encode(good)
		// a declared length above the limit, with no body; or random bytes whose
		// prefix is above the limit (prefixes below it are ordinary items)
		var bad []byte
		over := uint32(frame.MaxPayloadLength) + uint32(w.Pick(1, 2, 1000, 1<<30, 1<<31))
		if w.Chance(1, 2) {
			over = 0x80000000 | uint32(w.DataU64())
		}
		bad = binary.BigEndian.AppendUint32(bad, over)
		junk := make([]byte, w.Pick(0, 1, 40))
		w.DataBytes(junk)
		bad = append(bad, junk...)
		capBefore := src.Cap()
		maxGood := 0
		for _, p := range good {
			if len(p) > maxGood {
				maxGood = len(p)
			}
		}
		grewTooFar := func() bool { return src.Cap() > 4*(capBefore+maxGood+4096) }
		d.giveUp = grewTooFar
		defer Exclusive("c19-hostile-length")()
		sendPieces(w, end, append(wire, bad...), []int{len(wire) + w.Range(0, 3)})
		got, rerr := d.readItems(cc, len(good)+1, async, len(wire)+len(bad))
		d.giveUp = nil
		if grewTooFar() {
			c.Failf("buffer-grew-towards-over-limit-length", "the source buffer grew from %d to %d bytes for a declared length of %d (limit %d): the length must be rejected before any buffering", capBefore, src.Cap(), over, frame.MaxPayloadLength)
		}
		d.compare("hostile (items before the bad prefix)", good, got[:min(len(got), len(good))], rerr)
		if len(got) > len(good) {
			c.Failf("over-limit-length-accepted", "a declared length of %d (limit %d) was returned as an item of %d bytes", over, frame.MaxPayloadLength, len(got[len(good)]))
		}
		if rerr == nil || errors.Is(rerr, sonicerrors.ErrNeedMore) || rerr.Error() == "AsyncReadNext never completed" || rerr.Error() == "ReadNext keeps reporting would-block although every byte was delivered" {
			c.Failf("over-limit-length-not-rejected", "a declared length of %d (limit %d) was not rejected with an error: %v", over, frame.MaxPayloadLength, rerr)
		}
		maxItem := 0
		for _, p := range good {
			if len(p) > maxItem {
				maxItem = len(p)
			}
		}
		if grown := src.Cap(); grown > 4*(capBefore+maxItem+4096) {
			c.Failf("buffer-grew-towards-over-limit-length", "the source buffer grew from %d to %d bytes for a declared length of %d", capBefore, grown, over)
		}
	}
}
