package scen

import (
	"fmt"

	"github.com/talostrading/sonic/codec/websocket"

	"sonicverif/sim"
)

// C15 WebSocket protocol violations are reported, never delivered as data.

func init() {
	Register("C15", &Scenario{Name: "single-violation-random", Weight: 10, Run: func(c *Ctx, v int) { runC15(c, -1) }})
	Register("C15", &Scenario{Name: "single-violation-directed", Directed: len(c15Names) * 8, Run: func(c *Ctx, v int) { runC15(c, v) }})
}

const (
	mvRSV = iota
	mvReservedDataOp
	mvReservedCtlOp
	mvMasked
	mvFinlessCtl
	mvBigCtl
	mvContNothing
	mvDataInsideFrag
	mvFrameTooBig
	mvMessageTooBig
	mvCount
)

var c15Names = [mvCount]string{"rsv-bit", "reserved-data-opcode", "reserved-control-opcode", "masked-from-server", "fragmented-control", "control-over-125", "continuation-without-message", "data-frame-inside-fragmented-message", "frame-over-max", "message-over-max"}

var c15pKind [mvCount]sim.StatID
var (
	c15pAfterMsgs = sim.RegStat("probe:c15-violation-after-delivered-messages")
	c15p1002      = sim.RegStat("probe:c15-close-1002-verified-on-wire")
	c15pClosing   = sim.RegStat("probe:c15-violation-arrives-after-the-client-sent-its-own-close")
)

func init() {
	for i := range c15Names {
		c15pKind[i] = sim.RegStat("probe:c15-mutation-" + c15Names[i])
	}
}

func c15IsFraming(mv int) bool { return mv <= mvBigCtl }

func runC15(c *Ctx, variant int) {
	w := c.W
	d := newWsSess(c)
	defer d.close()
	api := w.Choose(4)
	transport := w.Pick(0, 2)
	mv := w.Choose(mvCount)
	// closing: the application has started the closing handshake and keeps
	// reading for the peer's Close; the violation arrives in that stage
	closing := false
	if variant >= 0 {
		mv = variant % mvCount
		api = (variant / mvCount) % 4
		transport = 2 * (variant % 2)
		closing = variant >= mvCount*4
	} else {
		closing = w.Chance(1, 4)
		w.EnableFaults(sim.FSegment, sim.FDelay, sim.FShortRead)
	}
	msgAPI := api < 2
	if !msgAPI && (mv == mvContNothing || mv == mvDataInsideFrag || mv == mvMessageTooBig) {
		mv = w.Choose(mvFrameTooBig) // fragmentation rules are the message-level API's business
		if mv == mvContNothing || mv == mvDataInsideFrag {
			mv = mvRSV
		}
	}
	w.Stat(c15pKind[mv])
	maxSize := w.Pick(1024, 300, 4096, 100, 17)
	if mv == mvBigCtl && maxSize < 300 {
		// a control frame of 126+ bytes under a smaller maximum is two violations in one frame (the decoder stops at
		// the length): outside the single-violation quantifier
		maxSize = 300
	}
	d.ws.SetMaxMessageSize(maxSize)
	nMsgs := w.Range(1, c.Deep(5))
	if variant >= 0 {
		nMsgs = 1 + variant%3
	}
	g := wsGenSession(w, nMsgs, maxSize, mv != mvMessageTooBig && mv != mvContNothing)

	// --- apply exactly one mutation; k = index (in the mutated list) of the violating frame
	frames := append([]wsFrame(nil), g.frames...)
	insert := func(at int, f wsFrame) {
		frames = append(frames, wsFrame{})
		copy(frames[at+1:], frames[at:])
		frames[at] = f
	}
	k := w.Choose(len(frames))
	declared := int64(-1)
	isData := func(f wsFrame) bool { return f.Opcode < 8 }
	// positions at message boundaries (index of each message's first frame) and inside fragmented messages
	var firsts, insides []int
	open := false
	for i, f := range frames {
		if !isData(f) {
			if open {
				insides = append(insides, i)
			}
			continue
		}
		if !open {
			firsts = append(firsts, i)
		} else {
			insides = append(insides, i)
		}
		open = !f.Fin
	}
	switch mv {
	case mvRSV:
		frames[k].Rsv = byte(w.Pick(4, 2, 1, 7, 5))
	case mvReservedDataOp:
		for !isData(frames[k]) {
			k = (k + 1) % len(frames)
		}
		frames[k].Opcode = byte(w.Range(3, 7))
	case mvReservedCtlOp:
		insert(k, wsFrame{Fin: true, Opcode: byte(w.Range(11, 15)), Payload: []byte("x")})
	case mvMasked:
		frames[k].Masked = true
		frames[k].Key = [4]byte{1, 2, 3, 4}
	case mvFinlessCtl:
		insert(k, wsFrame{Fin: false, Opcode: byte(w.Pick(wsPing, wsPong, wsClose)), Payload: []byte("p")})
	case mvBigCtl:
		p := make([]byte, w.Pick(126, 127, 200))
		insert(k, wsFrame{Fin: true, Opcode: byte(w.Pick(wsPing, wsPong)), Payload: p})
	case mvContNothing:
		k = firsts[w.Choose(len(firsts))]
		insert(k, wsFrame{Fin: w.Chance(1, 2), Opcode: wsCont, Payload: []byte("orphan")})
	case mvDataInsideFrag:
		if len(insides) == 0 {
			// make the first message fragmented
			f0 := frames[firsts[0]]
			f0.Fin = false
			frames[firsts[0]] = f0
			insert(firsts[0]+1, wsFrame{Fin: true, Opcode: wsCont, Payload: []byte("tail")})
			insides = []int{firsts[0] + 1}
		}
		k = insides[w.Choose(len(insides))]
		insert(k, wsFrame{Fin: true, Opcode: byte(w.Pick(wsText, wsBinary)), Payload: []byte("intruder")})
	case mvFrameTooBig:
		k = firsts[w.Choose(len(firsts))]
		declared = int64(maxSize) + int64(w.Pick(1, 2, 100000))
		insert(k, wsFrame{Fin: true, Opcode: wsBinary, Payload: []byte("only-a-few-bytes-follow")})
	case mvMessageTooBig:
		k = firsts[w.Choose(len(firsts))]
		half := make([]byte, maxSize/2+1)
		insert(k, wsFrame{Fin: false, Opcode: wsBinary, Payload: half})
		insert(k+1, wsFrame{Fin: true, Opcode: wsCont, Payload: half})
		k = k + 1 // the fragment that takes the message over the limit
	}
	// messages completely before the violating frame
	before := 0
	{
		openMsg := false
		for i := 0; i < k; i++ {
			f := frames[i]
			if !isData(f) {
				continue
			}
			openMsg = !f.Fin
			if f.Fin {
				before++
			}
		}
		_ = openMsg
	}
	if mv == mvMessageTooBig {
		// the first fragment of the oversized message does not complete a message
	}
	if before > 0 {
		w.Stat(c15pAfterMsgs)
	}
	var wire []byte
	var violOff, violEnd int
	for i, f := range frames {
		if i == k {
			violOff = len(wire)
		}
		dl := int64(-1)
		if i == k && declared >= 0 {
			dl = declared
		}
		wire = append(wire, wsEncode(f, -1, dl)...)
		if i == k {
			violEnd = len(wire)
		}
	}
	_, _ = violOff, violEnd
	var cuts []int
	for i, n := 0, w.Pick(0, 1, 3); i < n && len(wire) > 1; i++ {
		cuts = append(cuts, w.Range(1, len(wire)-1))
	}
	sortInts(cuts)
	c.Notef("mutation=%s at frame %d/%d api=%s transport=%d msgs-before=%d closing=%v", c15Names[mv], k, len(frames), c06APINames[api], transport, before, closing)
	if transport == 0 {
		d.connect()
	} else {
		d.attach()
		d.mem.Partial = w.Chance(1, 2)
		d.mem.Defer = w.Chance(1, 3)
	}
	if closing {
		w.Stat(c15pClosing)
		if err := d.ws.Close(websocket.CloseNormal, "bye"); err != nil {
			c.Failf("close-failed", "Close on a healthy, active stream: %v", err)
		}
	}
	d.feed(wire, cuts)

	// --- read
	r := &c06Reader{d: d, c: c, api: api, max: maxSize, chain: w.Chance(1, 2)}
	func() {
		defer func() {
			if x := recover(); x != nil {
				if _, ok := x.(sim.BlockedForever); ok {
					r.endErr = nil
					c.Failf("violation-not-reported/"+c15Names[mv]+"/"+c06APINames[api], "the reader blocks forever: the %s at frame %d was neither reported nor delivered", c15Names[mv], k)
				}
				panic(x)
			}
		}()
		r.readAll(len(g.msgs) + 3)
	}()
	label := fmt.Sprintf("mutation=%s api=%s closing=%v", c15Names[mv], c06APINames[api], closing)
	if r.endErr == nil {
		c.Failf("violation-not-reported/"+c15Names[mv]+"/"+c06APINames[api], "%s: every read succeeded (%d messages delivered); the violating frame was not reported", label, len(r.gotM))
	}
	// messages before the mutation are delivered unchanged; nothing else is
	if len(r.gotM) > before {
		c.Failf("violating-data-delivered/"+c15Names[mv]+"/"+c06APINames[api], "%s: %d messages were delivered as data, only %d precede the violating frame", label, len(r.gotM), before)
	}
	r.compare(g, len(r.gotM), label)
	if len(r.gotM) < before {
		c.Failf("message-before-violation-lost/"+c06APINames[api], "%s: %d messages precede the violating frame, %d were delivered before the error %v", label, before, len(r.gotM), r.endErr)
	}
	if !c15IsFraming(mv) {
		return
	}
	// --- after a framing violation: Close(1002) is queued, application writes are refused
	werr := d.ws.Write([]byte("app data after violation"), websocket.TypeText)
	if werr == nil {
		c.Failf("write-accepted-after-framing-violation/"+c15Names[mv], "%s: Write succeeded after the framing violation", label)
	}
	called := false
	var aerr error
	d.ws.AsyncWrite([]byte("more"), websocket.TypeBinary, func(e error) { aerr, called = e, true })
	d.waitFor(&called)
	if !called || aerr == nil {
		c.Failf("write-accepted-after-framing-violation/"+c15Names[mv], "%s: AsyncWrite after the framing violation: called=%v err=%v", label, called, aerr)
	}
	fr := websocket.NewFrame()
	fr.SetFIN().SetText().SetPayload([]byte("frame"))
	if e := d.ws.WriteFrame(&fr); e == nil {
		c.Failf("write-accepted-after-framing-violation/"+c15Names[mv], "%s: WriteFrame succeeded after the framing violation", label)
	}
	flushed := false
	d.ws.AsyncFlush(func(error) { flushed = true })
	d.waitFor(&flushed)
	for i := 0; i < 6; i++ {
		d.pump()
	}
	if d.mem == nil {
		d.w.Drain(3_000_000_000)
	}
	out, rest, perr := wsParseAll(d.wire())
	if perr != nil || len(rest) != 0 {
		c.Failf("client-wire-malformed", "%s: what the client wrote does not parse into whole frames (%v, %d trailing bytes)", label, perr, len(rest))
	}
	closes := 0
	for _, f := range out {
		if f.Opcode == wsClose {
			closes++
			if closing {
				// the client's one Close frame went out before the violation
				continue
			}
			if len(f.Payload) < 2 || int(f.Payload[0])<<8|int(f.Payload[1]) != 1002 {
				c.Failf("close-status-not-1002/"+c15Names[mv], "%s: the Close frame queued after the framing violation carries payload %v", label, f.Payload)
			}
		}
		if f.Opcode == wsText || f.Opcode == wsBinary {
			c.Failf("data-frame-written-after-framing-violation", "%s: a data frame reached the wire after the framing violation", label)
		}
	}
	if closing && closes != 1 {
		c.Failf("close-frame-count-after-violation-while-closing", "%s: the client had sent its Close before the violation arrived; %d Close frames are on the wire", label, closes)
	}
	if closes == 0 {
		c.Failf("no-close-1002-after-framing-violation/"+c15Names[mv], "%s: after the next flush no Close frame is on the wire (%d frames written)", label, len(out))
	}
	w.Stat(c15p1002)
}
