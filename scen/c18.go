package scen

import (
	"encoding/base64"
	"fmt"
	"strings"
	"time"

	"github.com/talostrading/sonic/codec/websocket"
	"github.com/talostrading/sonic/sonicerrors"

	shimnet "sonicverif/shim/net"
	"sonicverif/sim"
)

// C18 WebSocket opening handshake: sound acceptance, robust parsing, no lost bytes.

func init() {
	Register("C18", &Scenario{Name: "handshake-random", Weight: 10, Run: func(c *Ctx, v int) { runC18(c, -1) }})
	Register("C18", &Scenario{Name: "handshake-split-points", Directed: 8, Run: func(c *Ctx, v int) { runC18(c, v) }})
}

var (
	c18pDataEOF    = sim.RegStat("probe:c18-transport-may-report-eof-together-with-the-last-bytes")
	c18pAccepted   = sim.RegStat("probe:c18-handshake-accepted")
	c18pRejected   = sim.RegStat("probe:c18-handshake-rejected")
	c18pSplit      = sim.RegStat("probe:c18-response-arrived-in-several-segments")
	c18pPiggy      = sim.RegStat("probe:c18-frames-piggybacked-after-blank-line")
	c18pSrvClosed  = sim.RegStat("probe:c18-server-closed-during-handshake")
	c18pRe         = sim.RegStat("probe:c18-re-handshake-on-same-stream")
	c18pAsync      = sim.RegStat("probe:c18-async-handshake")
	c18pStalePong  = sim.RegStat("probe:c18-previous-session-left-a-queued-control-frame")
	c18pOddHeaders = sim.RegStat("probe:c18-response-with-unusual-case-or-whitespace")
)

type c18 struct {
	*wsSess
	keys []string
}

func (d *c18) genResp() *hsResp {
	w := d.w
	r := &hsResp{Status: 101, Upgrade: "websocket", CloseAfter: -1}
	switch w.Choose(10) {
	case 6:
		r.Status = w.Pick(200, 400, 404, 426, 500, 301)
	case 7:
		r.AcceptMode = 1 + w.Choose(2)
	case 8:
		r.Upgrade = w.Pick2("", "h2c", "websocket2")
	case 9:
		r.Status = 101
		r.Reason = "Web Socket Protocol Handshake"
	}
	if r.Upgrade == "websocket" {
		r.Upgrade = w.Pick2("websocket", "WebSocket", "WEBSOCKET")
	}
	r.NameCase = w.Choose(3)
	r.Space = w.Choose(3)
	r.Order = w.Choose(5)
	r.Extra = w.Choose(3)
	if r.NameCase != 0 || r.Space != 0 || r.Upgrade != "websocket" {
		w.Stat(c18pOddHeaders)
	}
	return r
}

type c18Msg struct {
	typ     byte
	payload []byte
}

func (d *c18) genMsgs(n int) ([]c18Msg, []byte) {
	w := d.w
	var msgs []c18Msg
	var wire []byte
	for i := 0; i < n; i++ {
		size := w.Pick(5, 0, 1, 125, 126, 300)
		p := make([]byte, size)
		w.DataBytes(p)
		typ := byte(wsBinary)
		if w.Chance(1, 2) {
			typ = wsText
			for j := range p {
				p[j] = 'a' + p[j]%26
			}
		}
		msgs = append(msgs, c18Msg{typ, p})
		wire = append(wire, wsEncode(wsFrame{Fin: true, Opcode: typ, Payload: p}, -1, -1)...)
	}
	return msgs, wire
}

func (d *c18) checkRequest(srv *wsServer, extra []websocket.Header) {
	c := d.c
	if srv == nil || srv.req == nil {
		if srv != nil && srv.reqErr != nil {
			c.Failf("request-malformed", "the upgrade request does not parse as HTTP/1.1: %v\n%q", srv.reqErr, srv.reqBuf)
		}
		return // the server never saw a complete request (closed early)
	}
	r := srv.req
	if r.Method != "GET" || r.Proto != "HTTP/1.1" || r.Target != "/chat?x=1" {
		c.Failf("request-line", "request line is %q %q %q", r.Method, r.Target, r.Proto)
	}
	one := func(name string) string {
		v := r.get(name)
		if len(v) != 1 {
			c.Failf("request-header/"+name, "upgrade request has %d %s headers", len(v), name)
		}
		return v[0]
	}
	if h := one("Host"); h != fmt.Sprintf("127.0.0.1:%d", d.port) {
		c.Failf("request-header/Host", "Host is %q", h)
	}
	if !strings.EqualFold(one("Upgrade"), "websocket") {
		c.Failf("request-header/Upgrade", "Upgrade is %q", one("Upgrade"))
	}
	if !strings.EqualFold(one("Connection"), "upgrade") {
		c.Failf("request-header/Connection", "Connection is %q", one("Connection"))
	}
	if one("Sec-WebSocket-Version") != "13" {
		c.Failf("request-header/Sec-WebSocket-Version", "version is %q", one("Sec-WebSocket-Version"))
	}
	key := one("Sec-WebSocket-Key")
	raw, err := base64.StdEncoding.DecodeString(key)
	if err != nil || len(raw) != 16 {
		c.Failf("request-key-not-16-bytes", "Sec-WebSocket-Key %q is not base64 of 16 bytes", key)
	}
	for _, k := range d.keys {
		if k == key {
			c.Failf("request-key-reused", "Sec-WebSocket-Key %q was already used by an earlier handshake of this stream", key)
		}
	}
	d.keys = append(d.keys, key)
	for _, h := range extra {
		got := r.get(h.Key)
		if strings.Join(got, ",") != strings.Join(h.Values, ",") {
			c.Failf("request-extra-header", "caller header %s: sent %q, request carries %q", h.Key, h.Values, got)
		}
	}
}

func (d *c18) mustRefuse(what string, err error) {
	if err == nil {
		d.c.Failf("api-not-refused-after-failed-handshake/"+what, "%s succeeded on a stream whose handshake failed", what)
	}
}

// readMsg reads one message with the chosen API and compares it.
func (d *c18) readMsg(async bool, want c18Msg, label string) {
	c, ws := d.c, d.ws
	buf := make([]byte, 4096)
	var (
		mt  websocket.MessageType
		n   int
		err error
	)
	if async {
		done := false
		ws.AsyncNextMessage(buf, func(e error, nn int, t websocket.MessageType) { err, n, mt, done = e, nn, t, true })
		if !d.waitFor(&done) {
			c.Failf("message-never-delivered/"+label, "%s: the message the server sent was never delivered (async)", label)
		}
	} else {
		func() {
			defer func() {
				if r := recover(); r != nil {
					if _, ok := r.(sim.BlockedForever); ok {
						c.Failf("message-never-delivered/"+label, "%s: NextMessage blocks forever although the server sent the message", label)
					}
					panic(r)
				}
			}()
			mt, n, err = ws.NextMessage(buf)
		}()
	}
	if err != nil {
		c.Failf("message-read-error/"+label, "%s: reading the message the server sent failed: %v", label, err)
	}
	if byte(mt) != want.typ || n != len(want.payload) || string(buf[:n]) != string(want.payload) {
		c.Failf("message-mismatch/"+label, "%s: server sent type=%d len=%d %q, client delivered type=%d len=%d %q", label, want.typ, len(want.payload), trunc(want.payload), mt, n, trunc(buf[:n]))
	}
}

func trunc(b []byte) string {
	if len(b) > 24 {
		return string(b[:24]) + "..."
	}
	return string(b)
}

func runC18(c *Ctx, variant int) {
	w := c.W
	d := &c18{wsSess: newWsSess(c)}
	defer d.close()
	if variant < 0 {
		w.EnableFaults(sim.FSegment, sim.FDelay, sim.FShortRead)
		if w.Chance(1, 3) {
			// the transport may hand over the last bytes together with the end of the stream (tls.Conn does):
			// a server that answers and closes at once must still be understood
			w.Stat(c18pDataEOF)
			shimnet.EOFWithData = true
		}
	}
	nH := w.Range(1, c.Deep(3))
	if variant >= 0 {
		nH = 1 + variant%2
	}
	for h := 0; h < nH; h++ {
		if h > 0 {
			w.Stat(c18pRe)
		}
		resp := d.genResp()
		async := w.Chance(1, 2)
		if variant >= 0 {
			async = variant&2 != 0
			if variant&4 != 0 {
				resp = &hsResp{Status: 101, Upgrade: "websocket", CloseAfter: -1, Space: 2, NameCase: 1}
			}
		}
		var msgs []c18Msg
		if resp.shouldAccept() && (variant >= 0 || w.Chance(1, 2)) {
			var body []byte
			msgs, body = d.genMsgs(w.Range(1, 3))
			resp.Body = body
		} else if !resp.shouldAccept() && w.Chance(1, 3) {
			resp.Body = []byte("garbage after a refusal")
		}
		total := len(resp.head(strings.Repeat("A", 24))) + len(resp.Body)
		headLen := total - len(resp.Body)
		if variant >= 0 {
			// directed: one cut, walking through the response with the run index
			resp.Cuts = []int{1 + int(c.W.Seed%uint64(total-1))}
		} else {
			for i, n := 0, w.Pick(0, 1, 2, 3); i < n; i++ {
				resp.Cuts = append(resp.Cuts, w.Range(1, total-1))
			}
			sortInts(resp.Cuts)
			if w.Chance(1, 6) {
				resp.CloseAfter = w.Range(0, total)
				resp.Abort = w.Chance(1, 3)
			} else if w.Chance(1, 8) {
				// the server answers (and sends what it has to send) and closes at once
				resp.CloseAfter = total
			}
		}
		if len(resp.Cuts) > 0 {
			w.Stat(c18pSplit)
		}
		if len(msgs) > 0 {
			w.Stat(c18pPiggy)
		}
		if resp.CloseAfter >= 0 {
			w.Stat(c18pSrvClosed)
		}
		d.listen(resp)
		var extra []websocket.Header
		for i, n := 0, w.Choose(3); i < n; i++ {
			extra = append(extra, websocket.ExtraHeader(w.Chance(1, 2), fmt.Sprintf("X-Caller-%d", i), fmt.Sprintf("v%d", i)))
		}
		nSrv := len(d.srvs)
		// --- the handshake
		var err error
		if async {
			w.Stat(c18pAsync)
			done := false
			d.ws.AsyncHandshake(d.url(), func(e error) { err, done = e, true }, extra...)
			for i := 0; !done; i++ {
				if i > 2000 {
					c.Failf("async-handshake-never-completes", "the AsyncHandshake callback was never invoked")
				}
				if e := d.ioc.RunOneFor(5 * time.Millisecond); e != nil && e != sonicerrors.ErrTimeout {
					c.Failf("poll-error", "RunOneFor: %v", e)
				}
			}
			if !w.IsMainTask() {
				c.Failf("async-handshake-callback-off-loop", "the AsyncHandshake callback ran on another goroutine")
			}
		} else {
			err = d.ws.Handshake(d.url(), extra...)
		}
		var srv *wsServer
		if len(d.srvs) > nSrv {
			srv = d.srvs[len(d.srvs)-1]
		}
		d.checkRequest(srv, extra)
		expect := resp.shouldAccept() && (resp.CloseAfter < 0 || resp.CloseAfter >= headLen)
		if expect && resp.CloseAfter >= 0 && resp.Abort {
			// a reset discards what the client has not read yet: either outcome is legitimate
			expect = err == nil
		}
		w.Tracef("c18 handshake %d async=%v expect=%v err=%v", h, async, expect, err)
		if expect {
			w.Stat(c18pAccepted)
			if err != nil {
				c.Failf("conforming-response-rejected", "status 101, Upgrade: %s and the right accept key (name case %d, spacing %d, order %d, cuts %v, %d piggy-backed bytes) but the handshake failed: %v",
					resp.Upgrade, resp.NameCase, resp.Space, resp.Order, resp.Cuts, len(resp.Body), err)
			}
			if st := d.ws.State(); st != websocket.StateActive {
				c.Failf("state-after-success", "State()=%s after a successful handshake", st)
			}
		} else {
			w.Stat(c18pRejected)
			if err == nil {
				c.Failf("non-conforming-response-accepted", "status=%d upgrade=%q accept-mode=%d close-after=%d: the handshake succeeded", resp.Status, resp.Upgrade, resp.AcceptMode, resp.CloseAfter)
			}
			if st := d.ws.State(); st != websocket.StateTerminated {
				c.Failf("state-after-failure", "State()=%s after a failed handshake, want terminated", st)
			}
			// not half-open: the client's end of the connection is closed, whatever made the handshake fail
			if srv != nil && !srv.end.Peer().ClosedLocal() {
				c.Failf("failed-handshake-left-connection-open", "the handshake failed (%v; status=%d close-after=%d abort=%v) and the client's end of the TCP connection is still open: the server never sees the client go away", err, resp.Status, resp.CloseAfter, resp.Abort)
			}
			// every read and write API refuses, and nothing reaches the wire
			before := 0
			if srv != nil {
				before = len(srv.rx)
			}
			_, e1 := d.ws.NextFrame()
			d.mustRefuse("NextFrame", e1)
			_, _, e2 := d.ws.NextMessage(make([]byte, 16))
			d.mustRefuse("NextMessage", e2)
			d.mustRefuse("Write", d.ws.Write([]byte("x"), websocket.TypeText))
			fr := websocket.NewFrame()
			fr.SetFIN().SetText().SetPayload([]byte("y"))
			d.mustRefuse("WriteFrame", d.ws.WriteFrame(&fr))
			called := 0
			var ea error
			d.ws.AsyncWrite([]byte("z"), websocket.TypeBinary, func(e error) { ea = e; called++ })
			d.ws.AsyncNextFrame(func(e error, f websocket.Frame) {
				called++
				if e == nil {
					ea = nil
				}
			})
			for i := 0; i < 5; i++ {
				d.pump()
			}
			if called != 2 {
				c.Failf("async-api-callback-missing-after-failed-handshake", "%d of 2 async callbacks were invoked on a failed stream", called)
			}
			d.mustRefuse("AsyncWrite/AsyncNextFrame", ea)
			if srv != nil && len(srv.rx) != before {
				c.Failf("bytes-written-after-failed-handshake", "%d bytes reached the server after the handshake had failed", len(srv.rx)-before)
			}
			continue
		}
		// --- an accepted session behaves like a fresh one
		if fr, _, perr := srv.frames(); perr != nil || len(fr) > 0 || len(srv.rx) > 0 {
			c.Failf("stale-bytes-written-into-new-session", "before any write of this session the server received %d bytes (%d frames): state of an earlier session leaked into the re-handshaken stream", len(srv.rx), len(fr))
		}
		cut := len(msgs)
		if resp.CloseAfter >= 0 && resp.Abort {
			cut = 0
		} else if resp.CloseAfter >= 0 {
			// only whole frames that fit before the close can be demanded
			cut = 0
			off := headLen
			for _, m := range msgs {
				off += len(wsEncode(wsFrame{Fin: true, Opcode: m.typ, Payload: m.payload}, -1, -1))
				if off <= resp.CloseAfter {
					cut++
				}
			}
		}
		for i := 0; i < cut; i++ {
			d.readMsg(async, msgs[i], "piggy-backed")
		}
		if resp.CloseAfter >= 0 {
			continue // the server is gone; next handshake (if any) starts from a dead session
		}
		later, lw := d.genMsgs(1)
		srv.sendCuts(lw, nil)
		d.readMsg(async, later[0], "after-handshake")
		if len(srv.rx) > 0 {
			fr, _, _ := srv.frames()
			c.Failf("stale-bytes-written-into-new-session", "the client has written nothing in this session, yet the server received %d bytes (%d frames, first opcode %v): frames queued in an earlier session leaked into the re-handshaken stream", len(srv.rx), len(fr), firstOp(fr))
		}
		// leave the session in one of the ways the statement allows a re-handshake from
		switch w.Choose(3) {
		case 0: // the server pings, the client reads it (a Pong is queued), then the server vanishes
			srv.sendFrame(wsFrame{Fin: true, Opcode: wsPing, Payload: []byte("p")})
			f, e := d.ws.NextFrame()
			if e == nil && f.Opcode().IsPing() && d.ws.Pending() > 0 {
				w.Stat(c18pStalePong)
			}
			srv.end.ActorAbort()
			w.Advance(5_000_000)
			if w.Chance(1, 2) {
				_, _ = d.ws.NextFrame() // observes the reset (and tries to flush the Pong): terminated
			}
			// else: the application re-handshakes at once, with the Pong still queued
		case 1: // orderly close started by the client
			_ = d.ws.Close(websocket.CloseNormal, "bye")
			srv.sendFrame(wsFrame{Fin: true, Opcode: wsClose, Payload: wsClosePayload(1000, "")})
			srv.after(func() { srv.end.ActorClose() })
			for i := 0; i < 4; i++ {
				if _, e := d.ws.NextFrame(); e != nil {
					break
				}
			}
		case 2: // the server closes abruptly with unread data left in the client's buffer
			_, lw2 := d.genMsgs(2)
			srv.sendCuts(lw2, nil)
			srv.after(func() { srv.end.ActorClose() })
			w.Advance(20_000_000)
			_, _ = d.ws.NextFrame()
		}
		_ = d.ws.CloseNextLayer()
	}
}

func sortInts(a []int) {
	for i := 1; i < len(a); i++ {
		for j := i; j > 0 && a[j] < a[j-1]; j-- {
			a[j], a[j-1] = a[j-1], a[j]
		}
	}
}

func firstOp(fr []wsFrame) int {
	if len(fr) == 0 {
		return -1
	}
	return int(fr[0].Opcode)
}
