package scen

import (
	"sonicverif/sim"
)

// C02 Byte-stream fidelity and the ReadAll/WriteAll contract.

func init() {
	Register("C02", &Scenario{Name: "streams-random", Weight: 10, Run: func(c *Ctx, v int) { runC02(c, false) }})
	Register("C02", &Scenario{Name: "streams-1byte-segmentation", Weight: 1, Thorough: true, Run: func(c *Ctx, v int) { runC02(c, true) }})
}

var c02Kinds = []lKind{lkConnDial, lkConnAcc, lkAdapter}

var (
	c02pMulti   = sim.RegStat("probe:c02-*All-completed-after-several-transfers")
	c02pErrMid  = sim.RegStat("probe:c02-error-in-the-middle-of-*All")
	c02pBothDir = sim.RegStat("probe:c02-both-directions-in-flight")
	c02pCancel  = sim.RegStat("probe:c02-cancel-with-an-operation-in-flight")
)

type c02 struct {
	*loop
	chain int
}

func (d *c02) sizes() int {
	w := d.w
	minCap := 1 << 20
	for _, v := range []int{w.TCPRcvCap, w.TCPSndCap, w.ActorRcvCap} {
		if v > 0 && v < minCap {
			minCap = v
		}
	}
	switch {
	case minCap <= 16:
		return w.Pick(16, 1, 2, 3, 64, 257)
	case minCap <= 1024 || w.FaultEnabled(sim.FSegment) || w.FaultEnabled(sim.FShortRead) || w.FaultEnabled(sim.FShortWrite):
		return w.Pick(16, 1, 2, 255, 1024, 4096)
	}
	return w.Pick(16, 1, 2, 255, 4096, 65536, 200000)
}

func (d *c02) behave(s *loop, op *lOp) {
	w := d.w
	o := op.obj
	if (op.kind == opReadAll || op.kind == opWriteAll) && !op.inline && op.err == nil && op.n > 1 {
		w.Stat(c02pMulti)
	}
	if (op.kind == opReadAll || op.kind == opWriteAll) && op.err != nil && op.n > 0 {
		w.Stat(c02pErrMid)
	}
	if op.err != nil || d.chain <= 0 {
		return
	}
	d.chain--
	switch op.beh {
	case 1:
		if op.kind.isRead() && d.canRead(o) {
			d.startRead(o, w.Chance(1, 2), d.sizes(), 1)
		} else if !op.kind.isRead() && d.canWrite(o) {
			d.startWrite(o, w.Chance(1, 2), d.sizes(), 1)
		}
	case 2:
		if op.kind.isRead() && d.canWrite(o) {
			d.startWrite(o, w.Chance(1, 2), d.sizes(), 0)
		} else if d.canRead(o) {
			d.startRead(o, w.Chance(1, 2), d.sizes(), 0)
		}
	}
}

func runC02(c *Ctx, oneByte bool) {
	w := c.W
	w.EnableFaults(sim.FEpollPermute, sim.FSegment, sim.FDelay, sim.FShortRead, sim.FShortWrite, sim.FEintr)
	w.TCPSndCap = w.Pick(1<<20, 1, 7, 64, 1024, 65536)
	w.TCPRcvCap = w.Pick(1<<20, 1, 7, 64, 1024, 65536)
	w.ActorRcvCap = w.Pick(0, 1, 100, 5000)
	if oneByte {
		w.ForceFault(sim.FSegment, 1)
		w.ForceFault(sim.FShortRead, 2)
		w.ForceFault(sim.FShortWrite, 2)
	}
	d := &c02{loop: newLoop(c)}
	d.checkData = true
	d.behaviours = d.behave
	defer d.closeAll()
	n := w.Range(1, 3)
	for i := 0; i < n; i++ {
		d.addObj(c02Kinds[w.Choose(len(c02Kinds))])
	}
	d.chain = w.Pick(10, 0, 50)
	steps := w.Range(6, c.Deep(60))
	faultsAllowed := w.Chance(2, 3)
	for i := 0; i < steps; i++ {
		o := d.objs[w.Choose(len(d.objs))]
		switch w.Choose(13) {
		case 12:
			// Cancel ends a parked operation with what it has moved so far; the application resumes from that count
			if (o.rd != nil && o.rd.completions == 0) || (o.wr != nil && o.wr.completions == 0) {
				w.Stat(c02pCancel)
			}
			d.doCancel(o)
		case 0, 1:
			if d.canRead(o) {
				d.startRead(o, w.Chance(1, 2), d.sizes(), w.Choose(3))
			}
		case 2, 3:
			if d.canWrite(o) {
				d.startWrite(o, w.Chance(1, 2), d.sizes(), w.Choose(3))
			}
		case 4, 5:
			d.peerSend(o, d.sizes())
		case 6, 7:
			d.peerDrain(o, w.Pick(1<<20, 1, 100, 70000))
		case 8, 9:
			w.RunDue()
			d.poll(w.Choose(3))
		case 10:
			w.Advance(int64(w.Pick(1_000, 0, 1_000_000, 2_000_000_000)))
		case 11:
			if faultsAllowed && w.Chance(1, 3) {
				switch w.Choose(3) {
				case 0:
					d.peerHalfClose(o)
				case 1:
					d.peerClose(o)
				case 2:
					d.peerReset(o)
				}
			}
		}
		if o.rd != nil && o.wr != nil {
			w.Stat(c02pBothDir)
		}
	}
	d.settle()
	// the peers read whatever is still in flight and verify it; conservation
	for _, o := range d.objs {
		if o.myEnd == nil {
			continue
		}
		budget := int(o.outOff-o.peerGot)*3 + 200
		for i := 0; i < budget && (o.myEnd.InFlight() || o.end.RecvQueued() > 0); i++ {
			d.peerDrain(o, 1<<30)
			w.Drain(5_000_000_000)
		}
		d.peerDrain(o, 1<<30)
		if !o.outBroken && !o.peerClosed && !o.peerRst {
			if o.peerGot != o.outOff {
				c.Failf("bytes-lost-or-invented/"+o.kind.String(), "obj %d: completed writes cover %d bytes of the stream, the peer received %d", o.ix, o.outOff, o.peerGot)
			}
		}
	}
}
