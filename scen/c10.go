package scen

import (
	"fmt"
	"net"
	"time"
	"unsafe"

	"github.com/talostrading/sonic"
	"github.com/talostrading/sonic/sonicerrors"

	"sonicverif/sim"
)

// C10 BipBuffer is a FIFO of contiguous chunks whose claims never overlap queued data.
//
// System: the use docs/architecture.md describes. A packet receiver claims
// space, starts an asynchronous datagram read into the claim on a simulated
// UDP socket and commits the received length in the completion callback; a
// consumer driven by a timer on the same IO takes Head(), verifies and
// consumes at its own pace. Because completion is asynchronous,
// claim -> consumer runs (possibly emptying the buffer) -> commit is an
// ordinary schedule here.

func init() {
	Register("C10", &Scenario{Name: "packet-pipeline", Weight: 10, Run: func(c *Ctx, v int) { runC10(c) }})
}

var (
	c10pWrapped      = sim.RegStat("probe:c10-claim-wrapped-to-the-front")
	c10pClaimConsume = sim.RegStat("probe:c10-consumer-ran-between-claim-and-commit")
	c10pEmptied      = sim.RegStat("probe:c10-consumer-emptied-buffer-while-claim-outstanding")
	c10pShortCommit  = sim.RegStat("probe:c10-commit-shorter-than-claim")
	c10pNoSpace      = sim.RegStat("probe:c10-claim-refused-buffer-full")
	c10pAbandon      = sim.RegStat("probe:c10-claim-abandoned-commit-0")
	c10pReset        = sim.RegStat("probe:c10-reset")
	c10pHeadMulti    = sim.RegStat("probe:c10-head-spans-several-chunks")
	c10pPartial      = sim.RegStat("probe:c10-partial-consume-of-a-chunk")
)

type c10Chunk struct {
	seq  int
	data []byte  // what was committed
	ptr  uintptr // address of its first byte in the buffer
	off  int     // bytes of it already consumed
}

type c10 struct {
	c                  *Ctx
	w                  *sim.World
	ioc                *sonic.IO
	bb                 *sonic.BipBuffer
	pc                 sonic.PacketConn
	size               int
	maxDg              int
	queue              []*c10Chunk
	claim              []byte // outstanding claim (an asynchronous read is writing into it)
	reading            bool
	seqSent            int
	seqRecv            int
	consumedSinceClaim bool
	timer              *sonic.Timer
	stalled            bool
	done               bool
	bufBase            uintptr
}

func c10Byte(seq, i int) byte { return byte(seq*31 + i*7 + 3) }

func addr(b []byte) uintptr {
	if len(b) == 0 {
		return 0
	}
	return uintptr(unsafe.Pointer(&b[0]))
}

func (d *c10) committed() int {
	n := 0
	for _, ch := range d.queue {
		n += len(ch.data) - ch.off
	}
	return n
}

func (d *c10) checkQueue(where string) {
	c := d.c
	if got := d.bb.Committed(); got != d.committed() {
		c.Failf("committed-count", "%s: Committed()=%d, bytes committed and not consumed=%d", where, got, d.committed())
	}
	h := d.bb.Head()
	if d.committed() == 0 {
		if len(h) != 0 {
			c.Failf("head-of-empty-buffer", "%s: Head() returns %d bytes, nothing is queued", where, len(h))
		}
		return
	}
	if len(h) == 0 {
		c.Failf("head-missing", "%s: %d bytes are queued but Head() is empty", where, d.committed())
	}
	// Head() must be whole chunks from the front of the queue, in commit order, byte-identical
	pos := 0
	k := 0
	for k < len(d.queue) && pos < len(h) {
		ch := d.queue[k]
		rest := ch.data[ch.off:]
		if pos+len(rest) > len(h) {
			c.Failf("chunk-split-across-wrap", "%s: Head() (%d bytes) ends in the middle of chunk seq=%d (%d bytes left of it): a committed chunk is not readable as one contiguous slice", where, len(h), ch.seq, len(rest))
		}
		for i, x := range rest {
			if h[pos+i] != x {
				c.Failf("head-bytes-differ", "%s: byte %d of Head() is %#x; chunk seq=%d committed %#x there (bytes must appear in commit order, uncorrupted)", where, pos+i, h[pos+i], ch.seq, x)
			}
		}
		pos += len(rest)
		k++
	}
	if k > 1 {
		d.w.Stat(c10pHeadMulti)
	}
	// the remaining chunks (wrapped region) must be intact too: verified through their recorded addresses
	for _, ch := range d.queue[k:] {
		p := unsafe.Slice((*byte)(unsafe.Pointer(ch.ptr)), len(ch.data))
		for i := ch.off; i < len(ch.data); i++ {
			if p[i] != ch.data[i] {
				c.Failf("queued-bytes-corrupted", "%s: byte %d of queued chunk seq=%d changed from %#x to %#x", where, i, ch.seq, ch.data[i], p[i])
			}
		}
	}
}

// doClaim claims space and checks the claim against everything queued.
func (d *c10) doClaim(n int) []byte {
	c, w := d.c, d.w
	empty := d.bb.Empty()
	cl := d.bb.Claim(n)
	if len(cl) > n {
		c.Failf("claim-too-long", "Claim(%d) returned %d bytes", n, len(cl))
	}
	if empty && n > 0 {
		want := n
		if want > d.size {
			want = d.size
		}
		if len(cl) != want {
			c.Failf("empty-buffer-grants-less", "the buffer (size %d) is empty, Claim(%d) returned %d bytes", d.size, n, len(cl))
		}
	}
	if len(cl) == 0 {
		if n > 0 {
			w.Stat(c10pNoSpace)
		}
		return nil
	}
	lo, hi := addr(cl), addr(cl)+uintptr(len(cl))
	for _, ch := range d.queue {
		a, b := ch.ptr+uintptr(ch.off), ch.ptr+uintptr(len(ch.data))
		if lo < b && a < hi {
			c.Failf("claim-overlaps-queued-data", "Claim(%d) returned [%s,%s) of the buffer, which overlaps the unconsumed bytes [%s,%s) of chunk seq=%d", n, d.rel(lo), d.rel(hi), d.rel(a), d.rel(b), ch.seq)
		}
	}
	if len(d.queue) > 0 && lo < d.queue[0].ptr {
		w.Stat(c10pWrapped)
	}
	// poison the claim: queued data must survive writes into it
	for i := range cl {
		cl[i] = 0xAA
	}
	d.checkQueue("after Claim")
	return cl
}

func (d *c10) base() uintptr { return d.bufBase }

// rel renders an address as an offset into the buffer; an address outside it is not printed (it would differ from
// process to process and make a replay diverge).
func (d *c10) rel(p uintptr) string {
	if p < d.bufBase || p-d.bufBase > uintptr(d.bb.Size()) {
		return "outside-the-buffer"
	}
	return fmt.Sprint(p - d.bufBase)
}

var _ = fmt.Sprint

func (d *c10) arm() {
	if d.reading || d.done {
		return
	}
	if d.w.Chance(1, 15) {
		// a claim the receiver decides not to use
		if x := d.doClaim(1 + d.w.Choose(d.maxDg)); x != nil {
			d.w.Stat(c10pAbandon)
			d.bb.Commit(0)
			d.checkQueue("after Commit(0)")
		}
	}
	cl := d.doClaim(d.maxDg)
	if cl == nil {
		return // full: the consumer will re-arm
	}
	d.claim = cl
	d.reading = true
	d.consumedSinceClaim = false
	d.pc.AsyncReadFrom(cl, func(err error, n int, _ net.Addr) {
		d.reading = false
		claim := d.claim
		d.claim = nil
		if d.consumedSinceClaim {
			d.w.Stat(c10pClaimConsume)
		}
		if err != nil {
			// would-block surfaced, or another error: the claim is abandoned
			d.w.Stat(c10pAbandon)
			d.bb.Commit(0)
			d.checkQueue("after Commit(0)")
			if err != sonicerrors.ErrWouldBlock {
				d.c.Failf("read-failed", "datagram read failed: %v", err)
			}
			d.arm()
			return
		}
		if n < len(claim) {
			d.w.Stat(c10pShortCommit)
		}
		got := d.bb.Commit(n)
		if len(got) != n || (n > 0 && addr(got) != addr(claim)) {
			// offsets are relative to the buffer: an absolute address must never enter a message (it differs from
			// process to process and a replay would not reproduce the same trace)
			where := "an empty slice"
			if len(got) > 0 {
				where = fmt.Sprintf("%d bytes at offset %s", len(got), d.rel(addr(got)))
			}
			d.c.Failf("commit-result", "Commit(%d) after a %d-byte claim returned %s (claim at %s)", n, len(claim), where, d.rel(addr(claim)))
		}
		if n >= 2 {
			seq := int(claim[0])<<8 | int(claim[1])
			d.queue = append(d.queue, &c10Chunk{seq: seq, data: append([]byte(nil), claim[:n]...), ptr: addr(claim)})
		} else if n == 1 {
			d.queue = append(d.queue, &c10Chunk{seq: -1, data: append([]byte(nil), claim[:n]...), ptr: addr(claim)})
		}
		d.seqRecv++
		d.checkQueue("after Commit")
		if d.w.Chance(1, 40) && !d.stalled {
			// resynchronisation: everything queued is thrown away
			d.w.Stat(c10pReset)
			d.bb.Reset()
			d.queue = nil
			d.checkQueue("after Reset")
		}
		d.arm()
	})
}

func (d *c10) consume() {
	c, w := d.c, d.w
	if d.stalled && w.Chance(3, 4) {
		return
	}
	for rounds := 0; rounds < 4; rounds++ {
		h := d.bb.Head()
		if len(h) == 0 {
			break
		}
		d.checkQueue("before Consume")
		// consume whole chunks, part of a chunk, or more than the head holds
		var n int
		switch w.Choose(4) {
		case 0:
			n = len(d.queue[0].data) - d.queue[0].off
		case 1:
			n = len(h)
		case 2:
			n = 1 + w.Choose(len(h))
			w.Stat(c10pPartial)
		case 3:
			n = len(h) + w.Pick(1, 1000)
		}
		d.bb.Consume(n)
		if n > len(h) {
			n = len(h)
		}
		for n > 0 {
			ch := d.queue[0]
			rest := len(ch.data) - ch.off
			if n >= rest {
				n -= rest
				d.queue = d.queue[1:]
			} else {
				ch.off += n
				n = 0
			}
		}
		if d.reading {
			d.consumedSinceClaim = true
			if len(d.queue) == 0 {
				w.Stat(c10pEmptied)
			}
		}
		d.checkQueue("after Consume")
		if w.Chance(1, 2) {
			break
		}
	}
	_ = c
	if !d.reading {
		d.arm()
	}
}

func runC10(c *Ctx) {
	w := c.W
	ioc, err := sonic.NewIO()
	if err != nil {
		sim.Bug("NewIO: %v", err)
	}
	defer ioc.Close()
	d := &c10{c: c, w: w, ioc: ioc}
	w.EnableFaults(sim.FDgramLoss, sim.FDgramReorder, sim.FDelay, sim.FEpollPermute)
	w.UDPQueueCap = w.Pick(64, 2, 8)
	d.size = w.Pick(256, 1, 2, 3, 16, 100, 1024, 4096)
	d.maxDg = w.Range(1, d.size)
	if w.Chance(1, 3) {
		d.maxDg = d.size
	}
	d.bb = sonic.NewBipBuffer(d.size)
	if full := d.bb.Claim(d.size); len(full) == d.size {
		d.bufBase = addr(full)
		d.bb.Commit(0)
	} else {
		c.Failf("empty-buffer-grants-less", "a new buffer of size %d grants Claim(%d) of %d bytes", d.size, d.size, len(full))
	}
	d.pc, err = sonic.NewPacketConn(ioc, "udp", "127.0.0.1:6200")
	if err != nil {
		sim.Bug("NewPacketConn: %v", err)
	}
	defer d.pc.Close()
	d.timer, err = sonic.NewTimer(ioc)
	if err != nil {
		sim.Bug("NewTimer: %v", err)
	}
	defer d.timer.Close()
	d.stalled = w.Chance(1, 3)
	if err := d.timer.ScheduleRepeating(time.Duration(w.Pick(1_000_000, 200_000, 5_000_000)), d.consume); err != nil {
		sim.Bug("ScheduleRepeating: %v", err)
	}
	d.arm()
	total := w.Range(3, c.Deep(200))
	for round := 0; round < 3000; round++ {
		if d.seqSent < total {
			for k, n := 0, w.Pick(1, 0, 2, 5, 12); k < n && d.seqSent < total; k++ {
				sz := 1 + w.Choose(d.maxDg+w.Pick(0, 0, 3))
				p := make([]byte, sz)
				for i := range p {
					p[i] = c10Byte(d.seqSent, i)
				}
				if sz >= 2 {
					p[0], p[1] = byte(d.seqSent>>8), byte(d.seqSent)
				}
				w.K.ActorUDPSend(sim.Dgram{ID: d.seqSent + 1, Data: p, SrcIP: [4]byte{127, 0, 0, 1}, SrcPort: 4000, DstIP: [4]byte{127, 0, 0, 1}, DstPort: 6200}, "lo")
				d.seqSent++
			}
		}
		w.Advance(int64(w.Pick(300_000, 0, 50_000, 2_000_000)))
		for k := 0; k < 6; k++ {
			if _, err := ioc.PollOne(); err != nil {
				break
			}
		}
		if d.seqSent >= total && w.PendingEvents() <= 1 && w.K.UDPQueued(d.pc.RawFd()) == 0 && d.committed() == 0 {
			break
		}
		if round == 1500 {
			d.stalled = false
		}
	}
	d.done = true
	d.stalled = false
	for i := 0; i < 50 && d.committed() > 0; i++ {
		d.consume()
	}
	d.checkQueue("end")
	_ = d.timer.Cancel()
}
