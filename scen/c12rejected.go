package scen

import (
	"bytes"
	"net/netip"
	"syscall"

	"github.com/talostrading/sonic"
	"github.com/talostrading/sonic/sonicerrors"
	"sonicverif/sim"
)

var c12pRejected = sim.RegStat("probe:c12-rejected-datagram-replaced-from-its-error-callback")
var c12pRejectedDeferred = sim.RegStat("probe:c12-replacement-of-a-rejected-datagram-was-deferred")

// rejectedThenReplaced (sixth round of seeds): a chain of small writes, each issued from the completion of the one
// before, ends in a datagram the kernel rejects for good (larger than 65507 bytes: EMSGSIZE); its error callback sends a
// shortened replacement - which, depending on how deep the chain is, completes inline or is deferred to the poller.
// Every write that reported success emitted exactly one datagram with exactly the caller's bytes, in order; the
// rejected one emitted nothing.
func (d *c12) rejectedThenReplaced(s *c12Sock) {
	w, c := d.w, d.c
	if s.closed || !s.isPeer {
		return
	}
	depth := w.Pick(0, 5, sonic.MaxCallbackDispatch-2, sonic.MaxCallbackDispatch-1, sonic.MaxCallbackDispatch, sonic.MaxCallbackDispatch+1)
	dst := netip.AddrPortFrom(netip.AddrFrom4([4]byte{10, 0, 0, 99}), 7000)
	before := len(w.K.UDPSent(s.fd))
	var expect [][]byte
	finished, transient := false, false
	var replaceErr error
	var step func(i int)
	step = func(i int) {
		if i < depth {
			p := make([]byte, 1+w.Choose(40))
			w.DataBytes(p)
			s.peer.AsyncWrite(p, dst, func(e error, n int) {
				if e != nil {
					// only the transient kernel conditions can make a small write fail; the chain ends there
					transient = e == sonicerrors.ErrWouldBlock || e == sonicerrors.ErrNoBufferSpaceAvailable || e == syscall.ENOBUFS
					if !transient {
						c.Failf("write-failed", "socket %d: datagram write of %d bytes failed: %v", s.ix, len(p), e)
					}
					finished = true
					return
				}
				if n != len(p) {
					c.Failf("write-count", "peer.AsyncWrite of %d bytes reported n=%d", len(p), n)
				}
				expect = append(expect, p)
				step(i + 1)
			})
			return
		}
		huge := make([]byte, 65508+w.Choose(100))
		s.peer.AsyncWrite(huge, dst, func(e error, n int) {
			if e == nil {
				c.Failf("oversize-write-reported-success", "socket %d: a %d-byte datagram cannot be sent, the write reported success (n=%d)", s.ix, len(huge), n)
			}
			if e == sonicerrors.ErrWouldBlock || e == sonicerrors.ErrNoBufferSpaceAvailable || e == syscall.ENOBUFS {
				transient, finished = true, true
				return
			}
			w.Stat(c12pRejected)
			p := make([]byte, 1+w.Choose(1400))
			w.DataBytes(p)
			returned := false
			s.peer.AsyncWrite(p, dst, func(e error, n int) {
				if returned {
					w.Stat(c12pRejectedDeferred)
				}
				replaceErr = e
				if e == nil {
					if n != len(p) {
						c.Failf("write-count", "peer.AsyncWrite of %d bytes (the replacement of a rejected datagram) reported n=%d", len(p), n)
					}
					expect = append(expect, p)
				}
				finished = true
			})
			returned = true
		})
	}
	step(0)
	for i := 0; !finished; i++ {
		if i > 500 {
			c.Failf("write-never-completes", "socket %d: asynchronous datagram write never completed", s.ix)
		}
		w.Advance(2_000_000)
		d.poll()
	}
	if replaceErr != nil && !(replaceErr == sonicerrors.ErrWouldBlock || replaceErr == sonicerrors.ErrNoBufferSpaceAvailable || replaceErr == syscall.ENOBUFS) {
		c.Failf("write-failed", "socket %d: the replacement of a rejected datagram failed: %v", s.ix, replaceErr)
	}
	sent := w.K.UDPSent(s.fd)[before:]
	if len(sent) != len(expect) {
		c.Failf("write-emitted-wrong-number-of-datagrams", "socket %d: %d chained writes reported success (one oversize write in the chain was rejected), %d datagrams were emitted", s.ix, len(expect), len(sent))
	}
	for i, g := range sent {
		if !bytes.Equal(g.Data, expect[i]) {
			c.Failf("write-bytes-differ", "socket %d: datagram %d of a chain carries %d bytes that differ from the caller's %d", s.ix, i, len(g.Data), len(expect[i]))
		}
		if g.DstIP != [4]byte{10, 0, 0, 99} || g.DstPort != 7000 {
			c.Failf("write-destination-differs", "socket %d: datagram emitted to %s:%d, the caller gave 10.0.0.99:7000", s.ix, ipStr(g.DstIP), g.DstPort)
		}
	}
	_ = transient
	d.settle()
}
