package scen

import (
	"bytes"
	"errors"
	"fmt"
	"io"
	"math"

	"github.com/talostrading/sonic"
	"github.com/talostrading/sonic/sonicerrors"

	"sonicverif/sim"
)

// C09 ByteBuffer behaves as three adjacent FIFO regions.
//
// Apart from the I/O methods this is sequential conformance to a reference
// model; the simulator contributes the readers/writers (short and zero-byte
// reads, errors, short writes, deferred completions).

func init() {
	Register("C09", &Scenario{Name: "bytebuffer-histories", Weight: 10, Run: func(c *Ctx, v int) { runC09(c) }})
}

var (
	c09pRealloc  = sim.RegStat("probe:c09-grew-across-reallocation")
	c09pShortIO  = sim.RegStat("probe:c09-short-read-or-write-by-transport")
	c09pIOErr    = sim.RegStat("probe:c09-transport-error")
	c09pDeferred = sim.RegStat("probe:c09-deferred-io-completion")
	c09pBoundary = sim.RegStat("probe:c09-boundary-argument")
	c09pDiscard  = sim.RegStat("probe:c09-discard-in-the-middle-of-saved-area")
	c09pNeedMore = sim.RegStat("probe:c09-PrepareRead-need-more")
)

type c09Slot struct {
	off, n int // current offset in the saved area
	data   []byte
}

type c09 struct {
	c     *Ctx
	w     *sim.World
	b     *sonic.ByteBuffer
	saved []byte
	read  []byte
	write []byte
	slots []*c09Slot
	seq   byte
	step  int
}

func (d *c09) gen(n int) []byte {
	p := make([]byte, n)
	for i := range p {
		d.seq++
		p[i] = d.seq ^ byte(i>>8) ^ 0x5a
	}
	return p
}

// arg draws an integer argument from the boundary classes relative to avail.
func (d *c09) arg(avail int) int {
	w := d.w
	switch w.Choose(10) {
	case 0:
		d.w.Stat(c09pBoundary)
		return -1
	case 1:
		d.w.Stat(c09pBoundary)
		return w.Pick(math.MinInt, -1000000)
	case 2:
		return 0
	case 3:
		return 1
	case 4:
		return avail - 1
	case 5:
		return avail
	case 6:
		d.w.Stat(c09pBoundary)
		return avail + 1
	case 7:
		d.w.Stat(c09pBoundary)
		return math.MaxInt
	case 8:
		d.w.Stat(c09pBoundary)
		return avail + 100000
	}
	if avail > 1 {
		return w.Range(1, avail)
	}
	return w.Range(0, 3)
}

func (d *c09) check(op string) {
	c, b := d.c, d.b
	fail := func(what, format string, a ...any) {
		c.Failf("model-mismatch/"+what, "step %d after %s: "+format, append([]any{d.step, op}, a...)...)
	}
	if got := b.Data(); !bytes.Equal(got, d.read) {
		fail("readable-region", "Data() has %d bytes, the model's readable region %d (first difference at %d)", len(got), len(d.read), firstDiff(got, d.read))
	}
	if got := b.Saved(); !bytes.Equal(got, d.saved) {
		fail("saved-region", "Saved() has %d bytes, the model's saved region %d (first difference at %d)", len(got), len(d.saved), firstDiff(got, d.saved))
	}
	if b.SaveLen() != len(d.saved) || b.ReadLen() != len(d.read) || b.WriteLen() != len(d.write) {
		fail("region-lengths", "SaveLen/ReadLen/WriteLen = %d/%d/%d, model %d/%d/%d", b.SaveLen(), b.ReadLen(), b.WriteLen(), len(d.saved), len(d.read), len(d.write))
	}
	if b.Len() != len(d.saved)+len(d.read)+len(d.write) {
		fail("total-length", "Len()=%d, regions add up to %d", b.Len(), len(d.saved)+len(d.read)+len(d.write))
	}
	if b.Cap() < b.Len() || b.Reserved() != b.Cap()-b.Len() {
		fail("capacity", "Cap()=%d Len()=%d Reserved()=%d", b.Cap(), b.Len(), b.Reserved())
	}
	for i, s := range d.slots {
		got := b.SavedSlot(sonic.Slot{Index: s.off, Length: s.n})
		if !bytes.Equal(got, s.data) {
			fail("saved-slot", "saved slot %d (offset %d, %d bytes) no longer addresses the bytes that were saved under it", i, s.off, s.n)
		}
	}
}

func firstDiff(a, b []byte) int {
	for i := 0; i < len(a) && i < len(b); i++ {
		if a[i] != b[i] {
			return i
		}
	}
	if len(a) < len(b) {
		return len(a)
	}
	return len(b)
}

// --- simulated transports

type c09Reader struct {
	d    *c09
	data []byte
	mode int // 0 all, 1 short, 2 zero-byte, 3 error, 4 n>0 with error
	gave []byte
	err  error
}

func (r *c09Reader) Read(p []byte) (int, error) {
	n := len(p)
	if n > len(r.data) {
		n = len(r.data)
	}
	switch r.mode {
	case 1:
		if n > 1 {
			n = 1 + r.d.w.Choose(n-1)
			r.d.w.Stat(c09pShortIO)
		}
	case 2:
		n = 0
	case 3:
		r.d.w.Stat(c09pIOErr)
		r.err = errors.New("transport error")
		return 0, r.err
	case 4:
		r.d.w.Stat(c09pIOErr)
		r.err = io.ErrUnexpectedEOF
		copy(p, r.data[:n])
		r.gave = append(r.gave, r.data[:n]...)
		return n, r.err
	}
	copy(p, r.data[:n])
	r.gave = append(r.gave, r.data[:n]...)
	r.data = r.data[n:]
	return n, nil
}

type c09Writer struct {
	d        *c09
	mode     int // 0 all, 1 short, 2 error after some
	got      []byte
	failAt   int
	returned error
}

func (w *c09Writer) Write(p []byte) (int, error) {
	n := len(p)
	switch w.mode {
	case 1:
		if n > 1 {
			n = 1 + w.d.w.Choose(n-1)
			w.d.w.Stat(c09pShortIO)
		}
	case 2:
		if len(w.got)+n > w.failAt {
			n = w.failAt - len(w.got)
			if n < 0 {
				n = 0
			}
			w.got = append(w.got, p[:n]...)
			w.d.w.Stat(c09pIOErr)
			w.returned = errors.New("transport write error")
			return n, w.returned
		}
	}
	w.got = append(w.got, p[:n]...)
	return n, nil
}

// asynchronous transport: completes when fired
type c09Async struct {
	fire func()
}

func (a *c09Async) AsyncRead(b []byte, cb sonic.AsyncCallback)     { panic("set per call") }
func (a *c09Async) AsyncReadAll(b []byte, cb sonic.AsyncCallback)  { panic("set per call") }
func (a *c09Async) AsyncWrite(b []byte, cb sonic.AsyncCallback)    { panic("set per call") }
func (a *c09Async) AsyncWriteAll(b []byte, cb sonic.AsyncCallback) { panic("set per call") }

type c09AsyncReader struct {
	c09Async
	d    *c09
	data []byte
	err  error
	// withData: the error comes together with bytes (an AsyncReadAll that made progress, a reader like tls.Conn)
	withData bool
}

func (a *c09AsyncReader) AsyncRead(b []byte, cb sonic.AsyncCallback) {
	n := len(b)
	if n > len(a.data) {
		n = len(a.data)
	}
	if n > 1 && a.d.w.Chance(1, 2) {
		n = 1 + a.d.w.Choose(n-1)
	}
	do := func() {
		if a.err != nil && !a.withData {
			cb(a.err, 0)
			return
		}
		copy(b, a.data[:n])
		a.data = a.data[:n]
		cb(a.err, n) // with an error: the bytes that arrived together with it
	}
	if a.d.w.Chance(1, 2) {
		a.d.w.Stat(c09pDeferred)
		a.fire = do
		return
	}
	do()
}

type c09AsyncWriter struct {
	c09Async
	d   *c09
	got []byte
	err error
}

func (a *c09AsyncWriter) AsyncWriteAll(b []byte, cb sonic.AsyncCallback) {
	do := func() {
		if a.err != nil {
			n := 0
			if len(b) > 0 {
				n = a.d.w.Choose(len(b))
			}
			a.got = append(a.got, b[:n]...)
			cb(a.err, n)
			return
		}
		a.got = append(a.got, b...)
		cb(nil, len(b))
	}
	if a.d.w.Chance(1, 2) {
		a.d.w.Stat(c09pDeferred)
		a.fire = do
		return
	}
	do()
}

// AsyncWrite may accept a prefix, which is what distinguishes it from
// AsyncWriteAll; an implementation of AsyncWriteTo built on it is judged by the
// same oracle (what it reports is what the writer received and what leaves
// the read area).
func (a *c09AsyncWriter) AsyncWrite(b []byte, cb sonic.AsyncCallback) {
	if len(b) > 1 && a.d.w.Chance(1, 2) {
		b = b[:1+a.d.w.Choose(len(b)-1)]
	}
	a.AsyncWriteAll(b, cb)
}

func runC09(c *Ctx) {
	w := c.W
	d := &c09{c: c, w: w, b: sonic.NewByteBuffer()}
	d.check("NewByteBuffer")
	steps := w.Range(5, c.Deep(60))
	for d.step = 0; d.step < steps; d.step++ {
		b := d.b
		op := ""
		capBefore := b.Cap()
		switch w.Choose(22) {
		case 0, 1:
			p := d.gen(w.Pick(5, 0, 1, 100, 600, 5000))
			n, err := b.Write(p)
			op = fmt.Sprintf("Write(%d bytes)", len(p))
			if n != len(p) || err != nil {
				c.Failf("write-result", "Write(%d bytes) returned (%d, %v)", len(p), n, err)
			}
			d.write = append(d.write, p...)
		case 2:
			p := d.gen(1)
			_ = b.WriteByte(p[0])
			op = "WriteByte"
			d.write = append(d.write, p...)
		case 3:
			p := d.gen(w.Pick(3, 0, 700))
			n, _ := b.WriteString(string(p))
			op = fmt.Sprintf("WriteString(%d)", len(p))
			if n != len(p) {
				c.Failf("write-result", "WriteString(%d bytes) returned %d", len(p), n)
			}
			d.write = append(d.write, p...)
		case 4, 5:
			n := d.arg(len(d.write))
			op = fmt.Sprintf("Commit(%d)", n)
			b.Commit(n)
			if n > 0 {
				if n > len(d.write) {
					n = len(d.write)
				}
				d.read = append(d.read, d.write[:n]...)
				d.write = d.write[n:]
			}
		case 6, 7:
			n := d.arg(len(d.read))
			op = fmt.Sprintf("Consume(%d)", n)
			b.Consume(n)
			if n > 0 {
				if n > len(d.read) {
					n = len(d.read)
				}
				d.read = d.read[n:]
			}
		case 8, 9:
			n := d.arg(len(d.read))
			op = fmt.Sprintf("Save(%d)", n)
			slot := b.Save(n)
			if n > len(d.read) {
				n = len(d.read)
			}
			if n <= 0 {
				if slot.Length != 0 {
					c.Failf("save-result", "%s returned a slot of %d bytes", op, slot.Length)
				}
				break
			}
			if slot.Index != len(d.saved) || slot.Length != n {
				c.Failf("save-result", "%s returned slot {%d,%d}; the save area had %d bytes and %d were saved", op, slot.Index, slot.Length, len(d.saved), n)
			}
			d.slots = append(d.slots, &c09Slot{off: len(d.saved), n: n, data: append([]byte(nil), d.read[:n]...)})
			d.saved = append(d.saved, d.read[:n]...)
			d.read = d.read[n:]
		case 10:
			if len(d.slots) == 0 {
				break
			}
			i := w.Choose(len(d.slots))
			s := d.slots[i]
			if i < len(d.slots)-1 {
				w.Stat(c09pDiscard)
			}
			op = fmt.Sprintf("Discard(slot %d: off %d len %d)", i, s.off, s.n)
			if got := b.Discard(sonic.Slot{Index: s.off, Length: s.n}); got != s.n {
				c.Failf("discard-result", "%s returned %d", op, got)
			}
			d.saved = append(append([]byte(nil), d.saved[:s.off]...), d.saved[s.off+s.n:]...)
			d.slots = append(d.slots[:i], d.slots[i+1:]...)
			for _, o := range d.slots {
				if o.off > s.off {
					o.off -= s.n
				}
			}
		case 11:
			if w.Chance(1, 3) {
				op = "DiscardAll"
				b.DiscardAll()
				d.saved, d.slots = nil, nil
			}
		case 12:
			n := d.arg(1000)
			if n > 1<<20 {
				n = 1 << 20 // Reserve is an allocation request: there is nothing to clamp it to
			}
			op = fmt.Sprintf("Reserve(%d)", n)
			b.Reserve(n)
			if n > 0 && b.Reserved() < n {
				c.Failf("reserve-result", "after %s only %d bytes are reserved", op, b.Reserved())
			}
		case 13:
			n := d.arg(len(d.read) + len(d.write))
			op = fmt.Sprintf("PrepareRead(%d)", n)
			err := b.PrepareRead(n)
			need := n - len(d.read)
			switch {
			case need <= 0:
				if err != nil {
					c.Failf("prepareread-result", "%s with %d readable bytes returned %v", op, len(d.read), err)
				}
			case len(d.write) >= need:
				if err != nil {
					c.Failf("prepareread-result", "%s with %d readable and %d written bytes returned %v", op, len(d.read), len(d.write), err)
				}
				d.read = append(d.read, d.write[:need]...)
				d.write = d.write[need:]
			default:
				w.Stat(c09pNeedMore)
				if !errors.Is(err, sonicerrors.ErrNeedMore) {
					c.Failf("prepareread-result", "%s with %d readable and %d written bytes returned %v, want ErrNeedMore", op, len(d.read), len(d.write), err)
				}
			}
		case 14:
			// Claim: write k bytes into the offered slice
			var p []byte
			ret := 0
			mode := w.Choose(4)
			b.Claim(func(into []byte) int {
				k := len(into)
				if k > 300 {
					k = 300
				}
				if k > 0 {
					k = w.Choose(k + 1)
				}
				p = d.gen(k)
				copy(into, p)
				switch mode {
				case 1:
					ret = -1 // ignored
				case 2:
					ret = len(into) + 1 // ignored
				default:
					ret = k
				}
				return ret
			})
			op = fmt.Sprintf("Claim(wrote %d, returned %d)", len(p), ret)
			if mode != 1 && mode != 2 {
				d.write = append(d.write, p...)
			}
		case 15:
			n := d.arg(b.Reserved())
			op = fmt.Sprintf("ClaimFixed(%d)", n)
			avail := b.Reserved()
			got := b.ClaimFixed(n)
			if n >= 0 && n <= avail {
				if len(got) != n {
					c.Failf("claimfixed-result", "%s with %d bytes reserved returned %d bytes", op, avail, len(got))
				}
				p := d.gen(n)
				copy(got, p)
				d.write = append(d.write, p...)
			} else if got != nil {
				c.Failf("claimfixed-result", "%s with %d bytes reserved returned a %d-byte slice", op, avail, len(got))
			}
		case 16:
			n := d.arg(len(d.write))
			op = fmt.Sprintf("ShrinkBy(%d)", n)
			got := b.ShrinkBy(n)
			want := 0
			if n > 0 {
				want = n
				if want > len(d.write) {
					want = len(d.write)
				}
			}
			if got != want {
				c.Failf("shrink-result", "%s with %d written bytes returned %d, want %d", op, len(d.write), got, want)
			}
			d.write = d.write[:len(d.write)-want]
		case 17:
			n := d.arg(len(d.write))
			op = fmt.Sprintf("ShrinkTo(%d)", n)
			b.ShrinkTo(n)
			keep := n
			if keep < 0 {
				// a negative argument may be clamped (nothing kept) or ignored (nothing removed)
				if b.WriteLen() == len(d.write) {
					keep = len(d.write)
				} else {
					keep = 0
				}
			}
			if keep < len(d.write) {
				d.write = d.write[:keep]
			}
		case 18:
			n := w.Pick(4, 0, 1, 1000)
			dst := make([]byte, n)
			op = fmt.Sprintf("Read(%d)", n)
			got, err := b.Read(dst)
			want := n
			if want > len(d.read) {
				want = len(d.read)
			}
			if got != want || !bytes.Equal(dst[:got], d.read[:want]) {
				c.Failf("read-result", "%s with %d readable bytes returned %d bytes (err=%v) that are not the first %d readable bytes", op, len(d.read), got, err, want)
			}
			if want > 0 && err != nil {
				c.Failf("read-result", "%s returned %v together with %d bytes", op, err, got)
			}
			d.read = d.read[want:]
		case 19:
			op = "ReadByte"
			x, err := b.ReadByte()
			if len(d.read) > 0 {
				if err != nil || x != d.read[0] {
					c.Failf("read-result", "ReadByte returned (%#x, %v), the first readable byte is %#x", x, err, d.read[0])
				}
				d.read = d.read[1:]
			} else if err == nil {
				c.Failf("read-result", "ReadByte on an empty readable region returned no error")
			}
		case 20:
			// ReadFrom / AsyncReadFrom through a simulated transport
			avail := b.Reserved()
			src := d.gen(w.Pick(50, 0, 1, 2000))
			if w.Chance(1, 2) {
				r := &c09Reader{d: d, data: src, mode: w.Choose(5)}
				op = fmt.Sprintf("ReadFrom(mode %d, %d reserved)", r.mode, avail)
				n, err := b.ReadFrom(r)
				if err != r.err {
					c.Failf("readfrom-result", "%s returned err=%v, the reader returned %v", op, err, r.err)
				}
				// what the reader delivered was read, with or without an error behind it (io.Reader: callers
				// process the n > 0 bytes before considering the error)
				if int(n) != len(r.gave) {
					c.Failf("readfrom-result", "%s returned n=%d, the reader delivered %d bytes", op, n, len(r.gave))
				}
				d.write = append(d.write, r.gave...)
			} else {
				ar := &c09AsyncReader{d: d, data: src}
				if w.Chance(1, 5) {
					ar.err = errors.New("async read error")
					ar.withData = w.Chance(1, 2)
				}
				op = "AsyncReadFrom"
				calls := 0
				var gotN int
				var gotErr error
				b.AsyncReadFrom(ar, func(err error, n int) { calls++; gotErr, gotN = err, n })
				if ar.fire != nil {
					d.check(op + " (in flight)")
					ar.fire()
				}
				if calls != 1 {
					c.Failf("async-callback-count", "AsyncReadFrom invoked its callback %d times", calls)
				}
				if gotErr == nil || ar.withData {
					d.write = append(d.write, ar.data[:gotN]...)
				}
			}
		case 21:
			if w.Chance(1, 2) {
				wr := &c09Writer{d: d, mode: w.Choose(3), failAt: w.Choose(len(d.read) + 1)}
				op = fmt.Sprintf("WriteTo(mode %d)", wr.mode)
				n, err := b.WriteTo(wr)
				if err != wr.returned {
					c.Failf("writeto-result", "%s returned err=%v, the writer returned %v", op, err, wr.returned)
				}
				if int(n) != len(wr.got) || !bytes.Equal(wr.got, d.read[:len(wr.got)]) {
					c.Failf("writeto-result", "%s returned n=%d; the writer received %d bytes which must be the first readable bytes", op, n, len(wr.got))
				}
				d.read = d.read[len(wr.got):]
			} else {
				aw := &c09AsyncWriter{d: d}
				if w.Chance(1, 5) {
					aw.err = errors.New("async write error")
				}
				op = "AsyncWriteTo"
				calls := 0
				var gotErr error
				var gotN int
				b.AsyncWriteTo(aw, func(err error, n int) { calls++; gotErr, gotN = err, n })
				for i := 0; aw.fire != nil && i < 1000; i++ {
					d.check(op + " (in flight)")
					f := aw.fire
					aw.fire = nil
					f()
				}
				if calls != 1 {
					c.Failf("async-callback-count", "AsyncWriteTo invoked its callback %d times", calls)
				}
				if gotErr == nil {
					if gotN != len(aw.got) || !bytes.Equal(aw.got, d.read[:gotN]) {
						c.Failf("writeto-result", "AsyncWriteTo reported %d bytes; the writer received %d bytes which must be the readable region", gotN, len(aw.got))
					}
					d.read = d.read[gotN:]
				}
			}
		}
		if op == "" {
			if w.Chance(1, 30) {
				op = "Reset"
				d.b.Reset()
				d.saved, d.read, d.write, d.slots = nil, nil, nil, nil
			} else {
				continue
			}
		}
		if b.Cap() != capBefore {
			w.Stat(c09pRealloc)
		}
		w.Tracef("c09 %s", op)
		d.check(op)
	}
}
