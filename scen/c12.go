package scen

import (
	"bytes"
	"fmt"
	"net"
	"net/netip"
	"syscall"

	"github.com/talostrading/sonic"
	"github.com/talostrading/sonic/multicast"
	"github.com/talostrading/sonic/sonicerrors"

	"sonicverif/sim"
)

// C12 UDP datagram boundaries, addressing and multicast membership.

func init() {
	Register("C12", &Scenario{Name: "udp-random", Weight: 10, Run: func(c *Ctx, v int) { runC12(c, -1) }})
	Register("C12", &Scenario{Name: "udp-directed", Directed: 9, Run: func(c *Ctx, v int) { runC12(c, v) }})
}

var (
	c12pTrunc      = sim.RegStat("probe:c12-datagram-longer-than-buffer")
	c12pMcastDel   = sim.RegStat("probe:c12-multicast-datagram-delivered-to-member")
	c12pMcastNo    = sim.RegStat("probe:c12-multicast-datagram-withheld-from-non-member")
	c12pBlocked    = sim.RegStat("probe:c12-datagram-from-blocked-source-withheld")
	c12pSrcSpec    = sim.RegStat("probe:c12-source-specific-membership-filtered")
	c12pLeft       = sim.RegStat("probe:c12-datagram-after-leave-withheld")
	c12pRebuf      = sim.RegStat("probe:c12-read-buffer-redesignated-while-pending")
	c12pMoreSrc    = sim.RegStat("probe:c12-further-source-added-to-a-source-specific-membership")
	c12pAddrReused = sim.RegStat("probe:c12-one-address-object-re-pointed-between-writes")
	c12pSpurious   = sim.RegStat("probe:c12-readable-announced-with-nothing-to-read-while-a-read-is-pending")
	c12pNested     = sim.RegStat("probe:c12-read-started-from-inside-a-read-completion")
	c12pWrite      = sim.RegStat("probe:c12-write-observed-in-kernel")
	c12pOpFail     = sim.RegStat("probe:c12-membership-call-failed-by-injection")
	c12pBig        = sim.RegStat("probe:c12-datagram-65507")
)

type c12Join struct {
	group   [4]byte
	ifix    int
	source  [4]byte   // zero: any source
	more    [][4]byte // further sources of a source-specific membership
	blocked [][4]byte
}

type c12Recv struct {
	n        int
	data     []byte
	ip       [4]byte
	port     int
	intoBuf2 bool
}

type c12Sock struct {
	ix      int
	isPeer  bool
	pc      sonic.PacketConn
	to      *net.UDPAddr // the application's one address object, re-pointed in place between writes
	peer    *multicast.UDPPeer
	fd, gen int
	bindIP  [4]byte
	port    int
	joins   []c12Join
	all     bool
	ttl     int
	loop    bool
	outIP   [4]byte
	reading bool
	buf     []byte
	buf2    []byte
	useBuf2 bool
	readGen int
	nested  int
	got     []c12Recv
	expect  []int // datagram ids the model says this socket receives, in send order (dups twice)
	closed  bool
}

type c12Dgram struct {
	id      int
	data    []byte
	srcIP   [4]byte
	srcPort int
}

type c12 struct {
	c     *Ctx
	w     *sim.World
	ioc   *sonic.IO
	socks []*c12Sock
	dg    []c12Dgram
}

var c12Groups = [][4]byte{{224, 0, 1, 10}, {224, 0, 1, 11}, {239, 1, 2, 3}}
var c12Senders = []struct {
	ip    [4]byte
	iface string
	ifix  int
}{{[4]byte{10, 0, 0, 7}, "eth0", 2}, {[4]byte{10, 0, 1, 7}, "eth1", 3}, {[4]byte{10, 0, 0, 8}, "eth0", 2}}

func ipStr(ip [4]byte) string { return fmt.Sprintf("%d.%d.%d.%d", ip[0], ip[1], ip[2], ip[3]) }

func (d *c12) ifaceName(ix int) string {
	for _, it := range d.w.K.Ifaces() {
		if it.Index == ix {
			return it.Name
		}
	}
	return ""
}

func (d *c12) addPeer(bindIP [4]byte, port int) *c12Sock {
	host := ""
	if bindIP != ([4]byte{}) {
		host = ipStr(bindIP)
	}
	p, err := multicast.NewUDPPeer(d.ioc, "udp", fmt.Sprintf("%s:%d", host, port))
	if err != nil {
		sim.Bug("NewUDPPeer(%s:%d): %v", host, port, err)
	}
	s := &c12Sock{ix: len(d.socks), isPeer: true, peer: p, fd: p.NextLayer().RawFd(), bindIP: bindIP, ttl: 1, loop: true}
	s.gen = d.w.K.GenOf(s.fd)
	_, s.port, _ = d.w.K.Getsockname(s.fd)
	if port != 0 && s.port != port {
		sim.Bug("peer bound to port %d, asked for %d", s.port, port)
	}
	d.socks = append(d.socks, s)
	d.checkGetters(s, "after NewUDPPeer")
	return s
}

func (d *c12) addPacket(bindIP [4]byte, port int) *c12Sock {
	pc, err := sonic.NewPacketConn(d.ioc, "udp", fmt.Sprintf("%s:%d", ipStr(bindIP), port))
	if err != nil {
		sim.Bug("NewPacketConn: %v", err)
	}
	s := &c12Sock{ix: len(d.socks), pc: pc, fd: pc.RawFd(), bindIP: bindIP, port: port}
	s.gen = d.w.K.GenOf(s.fd)
	d.socks = append(d.socks, s)
	return s
}

// checkGetters: every reported setting equals the socket's kernel state.
func (d *c12) checkGetters(s *c12Sock, where string) {
	if !s.isPeer || s.closed {
		return
	}
	c, k := d.c, d.w.K
	ip, port, _ := k.Getsockname(s.fd)
	la := s.peer.LocalAddr()
	var lip [4]byte
	copy(lip[:], la.IP.To4())
	if la.Port != port || lip != ip {
		c.Failf("getter-vs-kernel/LocalAddr", "%s: LocalAddr() reports %v, the socket is bound to %s:%d", where, la, ipStr(ip), port)
	}
	if v, _ := k.SockOptInt(s.fd, syscall.IPPROTO_IP, syscall.IP_MULTICAST_TTL); int(s.peer.TTL()) != v {
		c.Failf("getter-vs-kernel/TTL", "%s: TTL() reports %d, the kernel has IP_MULTICAST_TTL=%d", where, s.peer.TTL(), v)
	}
	if v, _ := k.SockOptInt(s.fd, syscall.IPPROTO_IP, syscall.IP_MULTICAST_LOOP); s.peer.Loop() != (v != 0) && len(c.KnownHit) == 0 {
		c.FailOrTolerate("getter-vs-kernel/Loop", "%s: Loop() reports %v, the kernel has IP_MULTICAST_LOOP=%d", where, s.peer.Loop(), v)
	}
	if v, _ := k.SockOptInt(s.fd, syscall.IPPROTO_IP, 49); s.peer.All() != (v != 0) {
		c.Failf("getter-vs-kernel/All", "%s: All() reports %v, the kernel has IP_MULTICAST_ALL=%d", where, s.peer.All(), v)
	}
	mif, _ := k.GetMulticastIf(s.fd)
	_, oip := s.peer.Outbound()
	if oip.IsValid() && oip.As4() != mif {
		c.Failf("getter-vs-kernel/Outbound", "%s: Outbound() reports %v, the kernel has IP_MULTICAST_IF=%s", where, oip, ipStr(mif))
	}
}

// --- the abstract membership model

// admits: does a source-specific membership list src?
func (j *c12Join) admits(src [4]byte) bool {
	if j.source == src {
		return true
	}
	for _, m := range j.more {
		if m == src {
			return true
		}
	}
	return false
}

func (s *c12Sock) findJoin(g [4]byte) int {
	for i := range s.joins {
		if s.joins[i].group == g {
			return i
		}
	}
	return -1
}

// hostJoined: the device accepts the frame iff some socket's membership of the
// group on it admits the source (ip_check_mc: the device's aggregated filter).
func (d *c12) hostJoined(g, src [4]byte, ifix int) bool {
	for _, s := range d.socks {
		if s.closed {
			continue
		}
		for _, j := range s.joins {
			if j.group != g || j.ifix != ifix {
				continue
			}
			if j.source != ([4]byte{}) {
				if j.admits(src) {
					return true
				}
				continue
			}
			blocked := false
			for _, b := range j.blocked {
				if b == src {
					blocked = true
				}
			}
			if !blocked {
				return true
			}
		}
	}
	return false
}

// receives: does the model say socket s gets a datagram src->dst:port arriving on ifix?
func (d *c12) receives(s *c12Sock, src, dst [4]byte, port, ifix int) (bool, sim.StatID) {
	none := sim.StatID(-1)
	if s.closed || s.port != port {
		return false, none
	}
	mc := dst[0] >= 224 && dst[0] <= 239
	if !mc {
		return s.bindIP == ([4]byte{}) || s.bindIP == dst, none
	}
	if s.bindIP != ([4]byte{}) && s.bindIP != dst {
		return false, none
	}
	if !s.isPeer {
		return false, none
	}
	if !d.hostJoined(dst, src, ifix) {
		return false, c12pMcastNo
	}
	for _, j := range s.joins {
		if j.group != dst || j.ifix != ifix {
			continue
		}
		if j.source != ([4]byte{}) {
			if j.admits(src) {
				return true, c12pMcastDel
			}
			return false, c12pSrcSpec
		}
		for _, b := range j.blocked {
			if b == src {
				return false, c12pBlocked
			}
		}
		return true, c12pMcastDel
	}
	if s.all {
		return true, c12pMcastDel
	}
	return false, c12pMcastNo
}

// send: a remote sender emits one datagram.
func (d *c12) send(sender int, dst [4]byte, port int, size int) {
	w := d.w
	sd := c12Senders[sender]
	id := len(d.dg) + 1
	data := make([]byte, size)
	w.DataBytes(data)
	if size >= 4 {
		data[0], data[1], data[2], data[3] = byte(id>>24), byte(id>>16), byte(id>>8), byte(id)
	}
	sport := 30000 + sender
	d.dg = append(d.dg, c12Dgram{id: id, data: data, srcIP: sd.ip, srcPort: sport})
	if size == 65507 {
		w.Stat(c12pBig)
	}
	before := len(w.K.UDPLog)
	w.K.ActorUDPSend(sim.Dgram{ID: id, Data: data, SrcIP: sd.ip, SrcPort: sport, DstIP: dst, DstPort: port}, sd.iface)
	lost := false
	for _, e := range w.K.UDPLog[before:] {
		if e.ID == id && e.Action == "lost" {
			lost = true
		}
	}
	// membership does not change while datagrams are in flight, so the state
	// now is the state at arrival
	if !lost {
		for _, s := range d.socks {
			if ok, st := d.receives(s, sd.ip, dst, port, sd.ifix); ok {
				s.expect = append(s.expect, id)
				if st >= 0 {
					w.Stat(st)
				}
			} else if st >= 0 {
				w.Stat(st)
			}
		}
	}
}

func (d *c12) settle() {
	d.w.Drain(1_000_000_000)
}

// --- reads

func (d *c12) startRead(s *c12Sock) {
	if s.reading || s.closed {
		return
	}
	w := d.w
	s.reading = true
	s.readGen++
	gen := s.readGen
	size := w.Pick(2048, 1, 3, 64, 70000)
	// every read has its own buffer and its own callback: a completion must use the ones of the read it completes
	buf := make([]byte, size)
	s.buf = buf
	s.buf2 = nil
	s.useBuf2 = false
	for i := range buf {
		buf[i] = 0xEE
	}
	record := func(err error, n int, ip [4]byte, port int) {
		if gen != s.readGen {
			d.c.Failf("completion-went-to-stale-callback", "socket %d: a datagram completed the callback of read #%d, which had already completed; the pending read is #%d with its own buffer and callback", s.ix, gen, s.readGen)
		}
		s.reading = false
		if err != nil {
			if err == sonicerrors.ErrWouldBlock {
				return // spurious readiness surfaced as would-block is tolerated
			}
			d.c.Failf("read-failed", "socket %d: datagram read failed: %v", s.ix, err)
		}
		b := buf
		if s.useBuf2 {
			b = s.buf2
		}
		if n < 0 || n > len(b) {
			d.c.Failf("read-count-out-of-range", "socket %d: read reported n=%d with a %d-byte buffer", s.ix, n, len(b))
		}
		s.got = append(s.got, c12Recv{n: n, data: append([]byte(nil), b[:n]...), ip: ip, port: port, intoBuf2: s.useBuf2})
		if s.useBuf2 {
			for _, x := range buf {
				if x != 0xEE {
					d.c.Failf("read-landed-in-stale-buffer", "socket %d: SetAsyncReadBuffer designated a new buffer for the pending read, yet the datagram was written into the old one", s.ix)
				}
			}
		}
		// the usual receive loop: the handler starts the next read itself, with another buffer; that read
		// may complete at once (another datagram is queued) or stay pending
		if w.Chance(1, 2) && s.nested < 64 {
			w.Stat(c12pNested)
			s.nested++
			d.startRead(s)
			s.nested--
		}
	}
	if s.isPeer {
		s.peer.AsyncRead(buf, func(err error, n int, from netip.AddrPort) {
			var ip [4]byte
			if from.IsValid() && from.Addr().Is4() {
				ip = from.Addr().As4()
			}
			record(err, n, ip, int(from.Port()))
		})
	} else {
		s.pc.AsyncReadFrom(buf, func(err error, n int, from net.Addr) {
			var ip [4]byte
			port := 0
			switch a := from.(type) {
			case *net.TCPAddr:
				if a != nil {
					copy(ip[:], a.IP.To4())
					port = a.Port
				}
			case *net.UDPAddr:
				if a != nil {
					copy(ip[:], a.IP.To4())
					port = a.Port
				}
			}
			record(err, n, ip, port)
		})
	}
}

func (d *c12) redesignate(s *c12Sock) {
	if !s.isPeer || !s.reading || s.useBuf2 {
		return
	}
	d.w.Stat(c12pRebuf)
	s.buf2 = make([]byte, len(s.buf))
	s.useBuf2 = true
	s.peer.SetAsyncReadBuffer(s.buf2)
}

func (d *c12) poll() {
	d.w.RunDue()
	if _, err := d.ioc.PollOne(); err != nil && err != sonicerrors.ErrTimeout {
		d.c.Failf("poll-error", "PollOne: %v", err)
	}
}

// --- membership operations, generated valid with respect to the model

func (d *c12) membershipOp(s *c12Sock) {
	w, c := d.w, d.c
	if !s.isPeer || s.closed {
		return
	}
	d.settle() // nothing in flight while membership changes
	g := c12Groups[w.Choose(len(c12Groups))]
	src := c12Senders[w.Choose(len(c12Senders))].ip
	inject := w.Chance(1, 12)
	if inject {
		w.FailNth(sim.CkSetsockopt, 1, syscall.ENOBUFS)
		w.Stat(c12pOpFail)
	}
	defer w.FailNth(sim.CkSetsockopt, 0, 0)
	ji := s.findJoin(g)
	var err error
	what := ""
	apply := func() {}
	switch w.Choose(7) {
	case 0, 1: // join (any source)
		if ji >= 0 {
			break
		}
		if w.Chance(1, 2) {
			what = fmt.Sprintf("Join(%s)", ipStr(g))
			err = s.peer.Join(multicast.IP(ipStr(g)))
			apply = func() { s.joins = append(s.joins, c12Join{group: g, ifix: 2}) }
		} else {
			ifix := w.Pick(2, 3)
			what = fmt.Sprintf("JoinOn(%s,%s)", ipStr(g), d.ifaceName(ifix))
			err = s.peer.JoinOn(multicast.IP(ipStr(g)), multicast.InterfaceName(d.ifaceName(ifix)))
			apply = func() { s.joins = append(s.joins, c12Join{group: g, ifix: ifix}) }
		}
	case 2: // source-specific join
		if ji >= 0 {
			// a further source for a source-specific membership, on the interface that membership is on
			j := &s.joins[ji]
			if j.source == ([4]byte{}) || j.admits(src) {
				break
			}
			w.Stat(c12pMoreSrc)
			if j.ifix == 2 && w.Chance(1, 2) {
				what = fmt.Sprintf("JoinSource(%s,%s) [further source]", ipStr(g), ipStr(src))
				err = s.peer.JoinSource(multicast.IP(ipStr(g)), multicast.SourceIP(ipStr(src)))
			} else {
				what = fmt.Sprintf("JoinSourceOn(%s,%s,%s) [further source]", ipStr(g), ipStr(src), d.ifaceName(j.ifix))
				err = s.peer.JoinSourceOn(multicast.IP(ipStr(g)), multicast.SourceIP(ipStr(src)), multicast.InterfaceName(d.ifaceName(j.ifix)))
			}
			apply = func() { s.joins[ji].more = append(s.joins[ji].more, src) }
			break
		}
		if w.Chance(1, 2) {
			what = fmt.Sprintf("JoinSource(%s,%s)", ipStr(g), ipStr(src))
			err = s.peer.JoinSource(multicast.IP(ipStr(g)), multicast.SourceIP(ipStr(src)))
			apply = func() { s.joins = append(s.joins, c12Join{group: g, ifix: 2, source: src}) }
		} else {
			ifix := w.Pick(3, 2)
			what = fmt.Sprintf("JoinSourceOn(%s,%s,%s)", ipStr(g), ipStr(src), d.ifaceName(ifix))
			err = s.peer.JoinSourceOn(multicast.IP(ipStr(g)), multicast.SourceIP(ipStr(src)), multicast.InterfaceName(d.ifaceName(ifix)))
			apply = func() { s.joins = append(s.joins, c12Join{group: g, ifix: ifix, source: src}) }
		}
	case 3: // leave
		if ji < 0 {
			break
		}
		j := s.joins[ji]
		if j.source != ([4]byte{}) && len(j.more) > 0 && w.Chance(2, 3) {
			// one of several sources is left: the membership stays, with the others
			k := w.Choose(len(j.more) + 1)
			gone := j.source
			if k > 0 {
				gone = j.more[k-1]
			}
			what = fmt.Sprintf("LeaveSource(%s,%s) [others remain]", ipStr(g), ipStr(gone))
			err = s.peer.LeaveSource(multicast.IP(ipStr(g)), multicast.SourceIP(ipStr(gone)))
			apply = func() {
				jj := &s.joins[ji]
				var rest [][4]byte
				for _, x := range append([][4]byte{jj.source}, jj.more...) {
					if x != gone {
						rest = append(rest, x)
					}
				}
				jj.source, jj.more = rest[0], append([][4]byte(nil), rest[1:]...)
			}
			break
		}
		if j.source != ([4]byte{}) && len(j.more) == 0 {
			what = fmt.Sprintf("LeaveSource(%s,%s)", ipStr(g), ipStr(j.source))
			err = s.peer.LeaveSource(multicast.IP(ipStr(g)), multicast.SourceIP(ipStr(j.source)))
		} else {
			what = fmt.Sprintf("Leave(%s)", ipStr(g))
			err = s.peer.Leave(multicast.IP(ipStr(g)))
		}
		apply = func() {
			s.joins = append(s.joins[:ji], s.joins[ji+1:]...)
			w.Stat(c12pLeft)
		}
	case 4: // block a source (needs an any-source membership; on whichever device it was joined)
		if ji < 0 || s.joins[ji].source != ([4]byte{}) {
			break
		}
		for _, b := range s.joins[ji].blocked {
			if b == src {
				return
			}
		}
		what = fmt.Sprintf("BlockSource(%s,%s)", ipStr(g), ipStr(src))
		err = s.peer.BlockSource(multicast.IP(ipStr(g)), multicast.SourceIP(ipStr(src)))
		apply = func() { s.joins[ji].blocked = append(s.joins[ji].blocked, src) }
	case 5: // unblock
		if ji < 0 || len(s.joins[ji].blocked) == 0 {
			break
		}
		b := s.joins[ji].blocked[0]
		what = fmt.Sprintf("UnblockSource(%s,%s)", ipStr(g), ipStr(b))
		err = s.peer.UnblockSource(multicast.IP(ipStr(g)), multicast.SourceIP(ipStr(b)))
		apply = func() { s.joins[ji].blocked = s.joins[ji].blocked[1:] }
	case 6: // calls that must be refused and change nothing
		switch w.Choose(3) {
		case 0:
			if ji < 0 {
				what = fmt.Sprintf("Leave(%s) without membership", ipStr(g))
				if e := s.peer.Leave(multicast.IP(ipStr(g))); e == nil && !inject {
					c.Failf("leave-without-membership-accepted", "Leave(%s) on a peer that never joined it returned nil", ipStr(g))
				}
			}
		case 1:
			if e := s.peer.Join(multicast.IP("10.1.2.3")); e == nil {
				c.Failf("join-non-multicast-accepted", "Join(10.1.2.3) returned nil")
			}
		case 2:
			if ji >= 0 && s.joins[ji].source == ([4]byte{}) {
				what = "Join twice"
				if e := s.peer.JoinOn(multicast.IP(ipStr(g)), multicast.InterfaceName(d.ifaceName(s.joins[ji].ifix))); e == nil && !inject {
					c.Failf("duplicate-join-accepted", "joining %s twice on the same interface returned nil", ipStr(g))
				}
			}
		}
		w.FailNth(sim.CkSetsockopt, 0, 0)
		d.checkGetters(s, "after a refused call")
		return
	}
	w.FailNth(sim.CkSetsockopt, 0, 0)
	if what == "" {
		return
	}
	w.Tracef("c12 sock %d %s -> %v", s.ix, what, err)
	if inject {
		if err == nil {
			c.Failf("membership-error-swallowed", "socket %d: %s returned nil although the kernel refused the option (injected ENOBUFS)", s.ix, what)
		}
	} else {
		if err != nil {
			c.Failf("membership-call-failed", "socket %d: %s failed: %v", s.ix, what, err)
		}
		apply()
	}
	d.checkGetters(s, "after "+what)
}

func (d *c12) setterOp(s *c12Sock) {
	w, c := d.w, d.c
	if !s.isPeer || s.closed {
		return
	}
	d.settle()
	inject := w.Chance(1, 10)
	if inject {
		w.FailNth(sim.CkSetsockopt, 1, syscall.EINVAL)
	}
	what := ""
	var err error
	switch w.Choose(4) {
	case 0:
		v := uint8(w.Pick(1, 0, 2, 64, 255))
		what = fmt.Sprintf("SetTTL(%d)", v)
		err = s.peer.SetTTL(v)
	case 1:
		v := w.Chance(1, 2)
		what = fmt.Sprintf("SetLoop(%v)", v)
		err = s.peer.SetLoop(v)
	case 2:
		v := w.Chance(1, 2)
		what = fmt.Sprintf("SetAll(%v)", v)
		err = s.peer.SetAll(v)
		if err == nil {
			s.all = v
		}
	case 3:
		name := w.Pick2("eth0", "eth1", "lo")
		what = fmt.Sprintf("SetOutboundIPv4(%s)", name)
		err = s.peer.SetOutboundIPv4(name)
	}
	w.FailNth(sim.CkSetsockopt, 0, 0)
	w.Tracef("c12 sock %d %s -> %v", s.ix, what, err)
	if !inject && err != nil {
		c.Failf("setter-failed", "socket %d: %s failed: %v", s.ix, what, err)
	}
	d.checkGetters(s, "after "+what)
}

func (d *c12) writeOp(s *c12Sock) {
	w, c := d.w, d.c
	if s.closed {
		return
	}
	size := w.Pick(10, 1, 2, 1400, 9000, 65507)
	p := make([]byte, size)
	w.DataBytes(p)
	var dst [4]byte
	switch w.Choose(3) {
	case 0:
		dst = c12Groups[w.Choose(len(c12Groups))]
	case 1:
		dst = [4]byte{10, 0, 0, 99}
	case 2:
		dst = [4]byte{10, 0, 1, 99}
	}
	port := 7000 + w.Choose(3)
	before := len(w.K.UDPSent(s.fd))
	var err error
	completed := true
	async := w.Chance(1, 2)
	switch {
	case s.isPeer && !async:
		var n int
		n, err = s.peer.Write(p, netip.AddrPortFrom(netip.AddrFrom4(dst), uint16(port)))
		if err == nil && n != len(p) {
			c.Failf("write-count", "peer.Write of %d bytes reported n=%d", len(p), n)
		}
	case s.isPeer:
		completed = false
		s.peer.AsyncWrite(p, netip.AddrPortFrom(netip.AddrFrom4(dst), uint16(port)), func(e error, n int) {
			err, completed = e, true
			if e == nil && n != len(p) {
				c.Failf("write-count", "peer.AsyncWrite of %d bytes reported n=%d", len(p), n)
			}
		})
	case !async:
		err = s.pc.WriteTo(p, s.dstAddr(w, dst, port))
	default:
		completed = false
		s.pc.AsyncWriteTo(p, s.dstAddr(w, dst, port), func(e error) { err, completed = e, true })
	}
	for i := 0; !completed; i++ {
		if i > 500 {
			c.Failf("write-never-completes", "socket %d: asynchronous datagram write never completed", s.ix)
		}
		d.w.Advance(2_000_000)
		d.poll()
	}
	if err == sonicerrors.ErrWouldBlock || err == sonicerrors.ErrNoBufferSpaceAvailable || err == syscall.ENOBUFS {
		// a transient kernel condition reported to the caller; nothing must have been emitted
		if n := len(w.K.UDPSent(s.fd)); n != before {
			c.Failf("failed-write-emitted-datagram", "socket %d: the write reported %v yet %d datagrams were emitted", s.ix, err, n-before)
		}
		return
	}
	if err != nil {
		c.Failf("write-failed", "socket %d: datagram write of %d bytes failed: %v", s.ix, len(p), err)
	}
	sent := w.K.UDPSent(s.fd)
	if len(sent) != before+1 {
		c.Failf("write-emitted-wrong-number-of-datagrams", "socket %d: one write of %d bytes emitted %d datagrams", s.ix, len(p), len(sent)-before)
	}
	got := sent[len(sent)-1]
	if !bytes.Equal(got.Data, p) {
		c.Failf("write-bytes-differ", "socket %d: the emitted datagram carries %d bytes that differ from the caller's %d", s.ix, len(got.Data), len(p))
	}
	if got.DstIP != dst || got.DstPort != port {
		c.Failf("write-destination-differs", "socket %d: datagram emitted to %s:%d, the caller gave %s:%d", s.ix, ipStr(got.DstIP), got.DstPort, ipStr(dst), port)
	}
	w.Stat(c12pWrite)
	d.settle()
}

func (d *c12) verify() {
	c, w := d.c, d.w
	// drain every socket: reads until the kernel has nothing more for it
	for round := 0; round < 4000; round++ {
		busy := false
		for _, s := range d.socks {
			if s.closed {
				continue
			}
			if !s.reading && w.K.UDPQueued(s.fd) > 0 {
				d.startRead(s)
			}
			if s.reading && w.K.UDPQueued(s.fd) > 0 {
				busy = true
			}
		}
		w.Drain(500_000_000)
		d.poll()
		for _, s := range d.socks {
			if !s.closed && w.K.UDPQueued(s.fd) > 0 {
				busy = true
			}
		}
		if !busy && w.PendingEvents() == 0 {
			break
		}
	}
	byID := func(id int) *c12Dgram { return &d.dg[id-1] }
	for _, s := range d.socks {
		// what the kernel queued for this socket (its own record), in order
		var queued []int
		for _, e := range w.K.UDPLog {
			if e.Gen == s.gen && e.Action == "queued" {
				queued = append(queued, e.ID)
			}
		}
		// membership clause: kernel deliveries == the abstract model's prediction (as multisets;
		// reordering in transit is a property of the network)
		overflow := map[int]int{}
		for _, e := range w.K.UDPLog {
			if e.Gen == s.gen && e.Action == "overflow" {
				overflow[e.ID]++
			}
		}
		cnt := map[int]int{}
		for _, id := range s.expect {
			cnt[id]++
		}
		dupExtra := map[int]int{}
		for _, id := range queued {
			if id == 0 {
				continue // datagrams sonic itself looped back
			}
			if cnt[id] > 0 {
				cnt[id]--
			} else {
				dupExtra[id]++
			}
		}
		for _, id := range queued { // ordered iteration: the first offender in arrival order
			n := dupExtra[id]
			if n == 0 {
				continue
			}
			// a duplicate in transit is legitimate only for datagrams the model delivers here
			found := false
			for _, e := range s.expect {
				if e == id {
					found = true
				}
			}
			if !found {
				dg := byID(id)
				c.Failf("datagram-delivered-to-socket-that-must-not-get-it", "socket %d (bound %s:%d, %d memberships) received datagram %d from %s x%d, which the membership/addressing rules withhold from it", s.ix, ipStr(s.bindIP), s.port, len(s.joins), id, ipStr(dg.srcIP), n)
			}
		}
		for _, id := range s.expect {
			if n := cnt[id]; n > 0 && overflow[id] == 0 {
				dg := byID(id)
				c.Failf("datagram-withheld-from-member", "socket %d (bound %s:%d, %d memberships) never received datagram %d from %s, which its memberships admit", s.ix, ipStr(s.bindIP), s.port, len(s.joins), id, ipStr(dg.srcIP))
			}
		}
		// sonic: one completion per queued datagram, in order, exact bytes, length and sender
		var own []int
		for _, id := range queued {
			own = append(own, id)
		}
		if s.closed {
			continue
		}
		if len(s.got) != len(own) {
			c.Failf("completions-vs-datagrams", "socket %d: the kernel queued %d datagrams, %d read completions were delivered", s.ix, len(own), len(s.got))
		}
		for i, id := range own {
			if id == 0 {
				continue
			}
			dg := byID(id)
			r := s.got[i]
			if r.n > len(dg.data) {
				c.Failf("read-length-differs", "socket %d: datagram %d has %d bytes, the read reported n=%d", s.ix, id, len(dg.data), r.n)
			}
			if r.n < len(dg.data) {
				w.Stat(c12pTrunc)
			}
			if !bytes.Equal(r.data, dg.data[:r.n]) {
				c.Failf("read-bytes-differ", "socket %d: completion %d does not carry the bytes of datagram %d", s.ix, i, id)
			}
			if r.ip != dg.srcIP || r.port != dg.srcPort {
				c.Failf("sender-address-differs", "socket %d: datagram %d came from %s:%d, the completion reports %s:%d", s.ix, id, ipStr(dg.srcIP), dg.srcPort, ipStr(r.ip), r.port)
			}
		}
	}
}

func runC12(c *Ctx, variant int) {
	w := c.W
	ioc, err := sonic.NewIO()
	if err != nil {
		sim.Bug("NewIO: %v", err)
	}
	d := &c12{c: c, w: w, ioc: ioc}
	defer func() {
		for _, s := range d.socks {
			if s.isPeer {
				s.peer.Close()
			} else {
				s.pc.Close()
			}
		}
		ioc.Close()
	}()
	if variant < 0 {
		w.EnableFaults(sim.FDgramLoss, sim.FDgramDup, sim.FDgramReorder, sim.FDelay, sim.FEpollPermute, sim.FSendEagain)
		w.UDPQueueCap = w.Pick(1024, 2, 8)
	}
	basePort := 7000
	if variant >= 0 {
		d.directed(variant)
		d.verify()
		return
	}
	n := w.Range(1, 3)
	for i := 0; i < n; i++ {
		port := basePort + w.Choose(2)
		switch w.Choose(5) {
		case 0:
			d.addPacket([4]byte{127, 0, 0, 1}, basePort+10+i)
		case 1:
			d.addPeer([4]byte{}, port)
		case 2:
			d.addPeer(c12Groups[w.Choose(len(c12Groups))], port)
		case 3:
			d.addPeer([4]byte{10, 0, 0, 2}, basePort+20+i)
		case 4:
			d.addPeer([4]byte{}, 0) // ephemeral port
		}
	}
	steps := w.Range(5, c.Deep(60))
	for i := 0; i < steps; i++ {
		s := d.socks[w.Choose(len(d.socks))]
		switch w.Choose(13) {
		case 12:
			// the socket is announced readable and then has nothing (a datagram failing its checksum, select(2)
			// BUGS; another handler of the same batch draining it): the pending read must stay intact
			if s.reading && !s.closed {
				w.Stat(c12pSpurious)
				w.K.UDPSpurious(s.fd)
				d.poll()
			}
		case 0, 1, 2:
			d.membershipOp(s)
		case 3:
			d.setterOp(s)
		case 4, 5, 6, 7:
			// traffic: to a group, or unicast to the socket's address
			size := w.Pick(64, 1, 2, 3, 4, 1400, 9000)
			if w.Chance(1, 60) {
				size = 65507
			}
			sender := w.Choose(len(c12Senders))
			shared := false
			for _, t := range d.socks {
				if t != s && t.port == s.port {
					shared = true // unicast to a port several sockets share: the kernel picks one of them
				}
			}
			if s.isPeer && (shared || w.Chance(3, 4)) {
				g := c12Groups[w.Choose(len(c12Groups))]
				d.send(sender, g, s.port, size)
			} else if !shared {
				dst := s.bindIP
				if dst == ([4]byte{}) {
					dst = [4]byte{10, 0, 0, 2}
				}
				// a unicast datagram reaches the host on the interface that owns the address
				if dst[0] == 127 {
					id := len(d.dg) + 1
					data := make([]byte, size)
					w.DataBytes(data)
					d.dg = append(d.dg, c12Dgram{id: id, data: data, srcIP: [4]byte{127, 0, 0, 1}, srcPort: 5555})
					before := len(w.K.UDPLog)
					w.K.ActorUDPSend(sim.Dgram{ID: id, Data: data, SrcIP: [4]byte{127, 0, 0, 1}, SrcPort: 5555, DstIP: dst, DstPort: s.port}, "lo")
					lost := false
					for _, e := range w.K.UDPLog[before:] {
						if e.ID == id && e.Action == "lost" {
							lost = true
						}
					}
					if !lost {
						for _, t := range d.socks {
							if ok, _ := d.receives(t, [4]byte{127, 0, 0, 1}, dst, s.port, 1); ok {
								t.expect = append(t.expect, id)
							}
						}
					}
				} else {
					d.send(0, dst, s.port, size)
				}
			}
		case 8, 9:
			d.startRead(s)
			if w.Chance(1, 3) {
				d.redesignate(s)
			}
		case 10:
			d.w.Advance(int64(w.Pick(1_000_000, 0, 60_000_000)))
			d.poll()
		case 11:
			if w.Chance(1, 4) {
				d.rejectedThenReplaced(s)
			} else {
				d.writeOp(s)
			}
		}
	}
	d.verify()
}

func (d *c12) directed(v int) {
	switch v {
	case 0: // fresh peer getters (the Loop default)
		d.addPeer([4]byte{}, 7000)
	case 1: // join, receive, leave, must not receive
		s := d.addPeer([4]byte{}, 7000)
		g := c12Groups[0]
		if err := s.peer.Join(multicast.IP(ipStr(g))); err != nil {
			d.c.Failf("membership-call-failed", "Join: %v", err)
		}
		s.joins = append(s.joins, c12Join{group: g, ifix: 2})
		d.startRead(s)
		d.send(0, g, 7000, 100)
		d.settle()
		d.poll()
		if err := s.peer.Leave(multicast.IP(ipStr(g))); err != nil {
			d.c.Failf("membership-call-failed", "Leave: %v", err)
		}
		s.joins = nil
		d.send(0, g, 7000, 100)
		d.settle()
	case 2: // block / unblock
		s := d.addPeer([4]byte{}, 7000)
		g := c12Groups[1]
		_ = s.peer.Join(multicast.IP(ipStr(g)))
		s.joins = append(s.joins, c12Join{group: g, ifix: 2})
		src := c12Senders[0].ip
		if err := s.peer.BlockSource(multicast.IP(ipStr(g)), multicast.SourceIP(ipStr(src))); err != nil {
			d.c.Failf("membership-call-failed", "BlockSource: %v", err)
		}
		s.joins[0].blocked = [][4]byte{src}
		d.send(0, g, 7000, 50)
		d.send(2, g, 7000, 50)
		d.settle()
		if err := s.peer.UnblockSource(multicast.IP(ipStr(g)), multicast.SourceIP(ipStr(src))); err != nil {
			d.c.Failf("membership-call-failed", "UnblockSource: %v", err)
		}
		s.joins[0].blocked = nil
		d.send(0, g, 7000, 50)
		d.settle()
	case 3: // two peers on one port, one joins
		a := d.addPeer([4]byte{}, 7000)
		d.addPeer([4]byte{}, 7000)
		g := c12Groups[2]
		_ = a.peer.JoinOn(multicast.IP(ipStr(g)), "eth1")
		a.joins = append(a.joins, c12Join{group: g, ifix: 3})
		d.send(1, g, 7000, 10)
		d.send(0, g, 7000, 10) // arrives on eth0: nobody joined there
		d.settle()
	case 4: // source specific
		s := d.addPeer(c12Groups[0], 7001)
		src := c12Senders[1].ip
		_ = s.peer.JoinSource(multicast.IP(ipStr(c12Groups[0])), multicast.SourceIP(ipStr(src)))
		s.joins = append(s.joins, c12Join{group: c12Groups[0], ifix: 2, source: src})
		d.send(0, c12Groups[0], 7001, 20)
		d.send(2, c12Groups[0], 7001, 20)
		d.settle()
	case 5: // buffer redesignation and truncation
		s := d.addPeer([4]byte{}, 7000)
		_ = s.peer.Join(multicast.IP(ipStr(c12Groups[0])))
		s.joins = append(s.joins, c12Join{group: c12Groups[0], ifix: 2})
		d.startRead(s)
		d.redesignate(s)
		d.send(0, c12Groups[0], 7000, 3000)
		d.settle()
		d.poll()
		d.writeOp(s)
	case 6: // leave, block and unblock after joining on an interface that is not the routing default
		s := d.addPeer([4]byte{}, 7000)
		g, src := c12Groups[0], c12Senders[1].ip
		must := func(what string, err error) {
			if err != nil {
				d.c.Failf("membership-call-failed", "socket %d: %s failed: %v", s.ix, what, err)
			}
		}
		must("JoinOn(eth1)", s.peer.JoinOn(multicast.IP(ipStr(g)), "eth1"))
		s.joins = append(s.joins, c12Join{group: g, ifix: 3})
		must("BlockSource after JoinOn(eth1)", s.peer.BlockSource(multicast.IP(ipStr(g)), multicast.SourceIP(ipStr(src))))
		s.joins[0].blocked = [][4]byte{src}
		d.send(1, g, 7000, 40)
		d.settle()
		must("UnblockSource after JoinOn(eth1)", s.peer.UnblockSource(multicast.IP(ipStr(g)), multicast.SourceIP(ipStr(src))))
		s.joins[0].blocked = nil
		d.startRead(s)
		d.send(1, g, 7000, 40)
		d.settle()
		d.poll()
		must("Leave after JoinOn(eth1)", s.peer.Leave(multicast.IP(ipStr(g))))
		s.joins = nil
		d.send(1, g, 7000, 40)
		d.settle()
	case 7: // a source-specific membership lapses with its last source; the group is then joined elsewhere
		s := d.addPeer([4]byte{}, 7000)
		g, src := c12Groups[1], c12Senders[1].ip
		must := func(what string, err error) {
			if err != nil {
				d.c.Failf("membership-call-failed", "socket %d: %s failed: %v", s.ix, what, err)
			}
		}
		must("JoinSource (default interface)", s.peer.JoinSource(multicast.IP(ipStr(g)), multicast.SourceIP(ipStr(src))))
		must("LeaveSource", s.peer.LeaveSource(multicast.IP(ipStr(g)), multicast.SourceIP(ipStr(src))))
		must("JoinSourceOn(eth1)", s.peer.JoinSourceOn(multicast.IP(ipStr(g)), multicast.SourceIP(ipStr(src)), "eth1"))
		must("LeaveSource", s.peer.LeaveSource(multicast.IP(ipStr(g)), multicast.SourceIP(ipStr(src))))
		must("Join (default interface)", s.peer.Join(multicast.IP(ipStr(g))))
		s.joins = append(s.joins, c12Join{group: g, ifix: 2})
		must("BlockSource on the default interface's membership", s.peer.BlockSource(multicast.IP(ipStr(g)), multicast.SourceIP(ipStr(c12Senders[0].ip))))
		s.joins[0].blocked = [][4]byte{c12Senders[0].ip}
		d.startRead(s)
		d.send(0, g, 7000, 30)
		d.send(2, g, 7000, 30)
		d.settle()
		d.poll()
		must("Leave", s.peer.Leave(multicast.IP(ipStr(g))))
		s.joins = nil
		d.send(2, g, 7000, 30)
		d.settle()
	case 8: // the same group on two interfaces, left one after the other
		s := d.addPeer([4]byte{}, 7000)
		g := c12Groups[2]
		must := func(what string, err error) {
			if err != nil {
				d.c.Failf("membership-call-failed", "socket %d: %s failed: %v", s.ix, what, err)
			}
		}
		must("JoinOn(eth0)", s.peer.JoinOn(multicast.IP(ipStr(g)), "eth0"))
		must("JoinOn(eth1)", s.peer.JoinOn(multicast.IP(ipStr(g)), "eth1"))
		s.joins = append(s.joins, c12Join{group: g, ifix: 2}, c12Join{group: g, ifix: 3})
		d.startRead(s)
		d.send(1, g, 7000, 20)
		d.settle()
		d.poll()
		must("Leave (the most recent join: eth1)", s.peer.Leave(multicast.IP(ipStr(g))))
		s.joins = s.joins[:1]
		d.send(1, g, 7000, 20) // arrives on eth1: no longer a member there
		d.startRead(s)
		d.send(0, g, 7000, 20) // arrives on eth0: still a member
		d.settle()
		d.poll()
		must("Leave (eth0)", s.peer.Leave(multicast.IP(ipStr(g))))
		s.joins = nil
		d.send(0, g, 7000, 20)
		d.settle()
	}
}

// dstAddr: a net.Addr names a destination by its value at the time of the call. Half of the sockets allocate an
// address per write; the others keep one *net.UDPAddr and change its fields in place, as an application that fans
// out over ports without allocating does.
func (s *c12Sock) dstAddr(w *sim.World, dst [4]byte, port int) *net.UDPAddr {
	if s.ix%2 == 0 {
		return &net.UDPAddr{IP: net.IPv4(dst[0], dst[1], dst[2], dst[3]), Port: port}
	}
	if s.to == nil {
		s.to = &net.UDPAddr{}
	} else {
		w.Stat(c12pAddrReused)
	}
	s.to.IP, s.to.Port = net.IPv4(dst[0], dst[1], dst[2], dst[3]), port
	return s.to
}
