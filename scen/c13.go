package scen

import (
	"errors"
	"fmt"
	"os"
	"regexp"
	"runtime"
	"strings"
	"syscall"
	"time"
	"weak"

	"github.com/talostrading/sonic"
	sbytes "github.com/talostrading/sonic/bytes"
	"github.com/talostrading/sonic/codec/websocket"
	"github.com/talostrading/sonic/multicast"
	"github.com/talostrading/sonic/sonicerrors"
	"github.com/talostrading/sonic/sonicopts"

	shimnet "sonicverif/shim/net"
	shimos "sonicverif/shim/os"
	"sonicverif/sim"
)

// C13 No descriptor leaks, no foreign close, owners of in-flight operations stay alive.

func init() {
	Register("C13", &Scenario{Name: "constructor-fault-enumeration", Directed: len(c13Cases), Run: func(c *Ctx, v int) { runC13Enum(c, v) }})
	Register("C13", &Scenario{Name: "repeated-close", Weight: 6, Directed: len(c13CloseKinds), Run: func(c *Ctx, v int) { runC13Close(c, v) }})
	Register("C13", &Scenario{Name: "gc-while-in-flight", Weight: 4, Directed: 8, Run: func(c *Ctx, v int) { runC13GC(c, v) }})
	Register("C13", &Scenario{Name: "close-in-flight-deregistration-fails", Weight: 1, Directed: 12, Run: func(c *Ctx, v int) { runC13CloseInFlight(c, v) }})
	Register("C13", &Scenario{Name: "gc-after-reconnect-from-handler", Weight: 2, Directed: 2, Run: func(c *Ctx, v int) { runC13Reconnect(c, v) }})
}

var (
	c13pFailed    = sim.RegStat("probe:c13-constructor-failed-by-injection")
	c13pTolerated = sim.RegStat("probe:c13-constructor-succeeded-despite-injection")
	c13pEMFILE    = sim.RegStat("probe:c13-emfile-at-kth-allocation")
	c13pBehaviour = sim.RegStat("probe:c13-peer-made-constructor-fail")
	c13pReused    = sim.RegStat("probe:c13-handshake-fails-on-a-stream-that-had-a-session")
	c13pReuse     = sim.RegStat("probe:c13-descriptor-number-reused-before-second-close")
	c13pFdReused  = sim.RegStat("probe:c13-new-connection-dialed-from-a-handler-after-close")
	c13pGC        = sim.RegStat("probe:c13-gc-with-operation-in-flight")
	c13pGCBoth    = sim.RegStat("probe:c13-gc-between-read-and-write-completion")
	c13pFinalizer = sim.RegStat("probe:c13-conn-finalizer-ran")
)

var c13TempName = regexp.MustCompile(`sonic-mirrored-buffer-[0-9]+`)

var c13Errno = map[sim.CallKind]syscall.Errno{
	sim.CkFdAlloc: syscall.EMFILE, sim.CkSocket: syscall.ENFILE, sim.CkBind: syscall.EADDRINUSE, sim.CkListen: syscall.EADDRINUSE,
	sim.CkConnect: syscall.ENETUNREACH, sim.CkSetsockopt: syscall.ENOPROTOOPT, sim.CkGetsockopt: syscall.EINVAL, sim.CkGetsockname: syscall.ENOBUFS,
	sim.CkEpollCreate: syscall.EMFILE, sim.CkEpollCtl: syscall.ENOMEM, sim.CkEventfd: syscall.EMFILE, sim.CkTimerfdCreate: syscall.EMFILE,
	sim.CkSetNonblock: syscall.EINVAL, sim.CkOpen: syscall.EACCES, sim.CkAccept: syscall.ECONNABORTED, sim.CkSelect: syscall.ENOMEM,
	sim.CkDial: syscall.ENETUNREACH, sim.CkRead: syscall.ECONNRESET, sim.CkWrite: syscall.ECONNRESET,
	sim.CkMmap: syscall.ENOMEM, sim.CkFtruncate: syscall.ENOSPC, sim.CkCreateTemp: syscall.EMFILE,
}

var c13Kinds = []sim.CallKind{sim.CkFdAlloc, sim.CkSocket, sim.CkBind, sim.CkListen, sim.CkConnect, sim.CkSetsockopt, sim.CkGetsockopt, sim.CkGetsockname,
	sim.CkEpollCreate, sim.CkEpollCtl, sim.CkEventfd, sim.CkTimerfdCreate, sim.CkSetNonblock, sim.CkOpen, sim.CkAccept, sim.CkSelect, sim.CkDial, sim.CkRead, sim.CkWrite,
	sim.CkMmap, sim.CkFtruncate, sim.CkCreateTemp}

type c13Env struct {
	c    *Ctx
	w    *sim.World
	ioc  *sonic.IO
	port int
	srv  *wsServer
	// the window in which the constructor proper runs: faults are armed at
	// begin, kernel calls are counted between begin and end
	arm      func()
	snap     [64]int
	counts   [64]int
	manual   bool
	base     [3]int
	haveBase bool
	// reuse: handshakes go through one Stream, which has had a complete
	// session before each attempt (what survives a session is state too)
	reuse bool
	ws    *websocket.Stream
}

func (e *c13Env) begin() {
	for _, k := range c13Kinds {
		e.snap[k] = e.w.CallCount(k)
	}
	if e.arm != nil {
		e.arm()
	}
}

func (e *c13Env) end() {
	for _, k := range c13Kinds {
		e.counts[k] = e.w.CallCount(k) - e.snap[k]
		e.w.FailNth(k, 0, 0)
	}
}

// census: simulated descriptors plus the real resources of a mirrored buffer,
// the latter relative to the start of the run (absolute numbers depend on what
// the process did before and must not enter the trace).
func (e *c13Env) census() string {
	r := realCensus()
	if !e.haveBase {
		e.base, e.haveBase = r, true
	}
	return strings.Join(e.w.K.Census(), " ") + fmt.Sprintf(" | real: fds%+d maps%+d files%+d", r[0]-e.base[0], r[1]-e.base[1], r[2]-e.base[2])
}

func realCensus() [3]int {
	// real descriptors that refer to a mirrored buffer's backing file (the
	// simulator's own pipes are not the library's business)
	ents, _ := os.ReadDir("/proc/self/fd")
	fds := 0
	for _, x := range ents {
		if l, err := os.Readlink("/proc/self/fd/" + x.Name()); err == nil && strings.Contains(l, "sonic-mirrored-buffer") {
			fds++
		}
	}
	maps, _ := os.ReadFile("/proc/self/maps")
	nm := strings.Count(string(maps), "sonic-mirrored-buffer")
	shm := shimos.Leftovers() // backing files made by this process that still exist
	return [3]int{fds, nm, shm}
}

type c13Case struct {
	name string
	// build constructs the object; on success it returns a function that closes it
	build func(e *c13Env) (closer func(), err error)
	// peer behaviours that make it fail without injection
	behaviours []string
}

func (e *c13Env) nextPort() int { e.port++; return e.port }

func (e *c13Env) pollFor(done *bool) {
	for i := 0; !*done; i++ {
		if i > 3000 {
			e.c.Failf("constructor-never-completes", "an asynchronous constructor never invoked its callback")
		}
		if err := e.ioc.RunOneFor(5 * time.Millisecond); err != nil && err != sonicerrors.ErrTimeout {
			e.c.Failf("poll-error", "RunOneFor: %v", err)
		}
	}
}

func c13Handshake(async bool, beh string) func(e *c13Env) (func(), error) {
	return func(e *c13Env) (func(), error) {
		port := e.nextPort()
		resp := &hsResp{Status: 101, Upgrade: "websocket", CloseAfter: -1}
		switch beh {
		case "bad-status":
			resp.Status = 400
		case "wrong-key":
			resp.AcceptMode = 1
		case "no-upgrade-header":
			resp.Upgrade = ""
		case "truncated":
			resp.CloseAfter = 30
		case "close-at-once":
			resp.CloseAfter = 0
		case "reset-mid-response":
			resp.CloseAfter, resp.Abort = 50, true
		}
		var al *sim.ActorListener
		switch beh {
		case "refused":
			al = e.w.K.ActorListen(wsIP, port, sim.ConnRefuse)
		case "unreachable":
			al = e.w.K.ActorListen(wsIP, port, sim.ConnUnreachable)
		default:
			al = e.w.K.ActorListen(wsIP, port, sim.ConnAccept)
		}
		defer al.Close()
		al.OnConn(func(end *sim.TCPEnd) {
			srv := &wsServer{w: e.w, end: end, resp: resp}
			end.OnData = srv.onData
			e.srv = srv
		})
		ws := e.ws
		var err error
		if !e.reuse || ws == nil {
			ws, err = websocket.NewWebsocketStream(e.ioc, nil, websocket.RoleClient)
			if err != nil {
				sim.Bug("NewWebsocketStream: %v", err)
			}
			if e.reuse {
				e.ws = ws
			}
		}
		url := fmt.Sprintf("ws://127.0.0.1:%d/", port)
		if async {
			done := false
			ws.AsyncHandshake(url, func(e2 error) { err, done = e2, true })
			e.pollFor(&done)
		} else {
			err = ws.Handshake(url)
		}
		if err != nil {
			return nil, err
		}
		return func() { _ = ws.CloseNextLayer() }, nil
	}
}

func c13Dial(network string, beh string) func(e *c13Env) (func(), error) {
	return func(e *c13Env) (func(), error) {
		port := e.nextPort()
		var al *sim.ActorListener
		switch beh {
		case "":
			al = e.w.K.ActorListen(loopIP, port, sim.ConnAccept)
		case "refused":
			al = e.w.K.ActorListen(loopIP, port, sim.ConnRefuse)
		case "unreachable":
			al = e.w.K.ActorListen(loopIP, port, sim.ConnUnreachable)
		case "net-unreachable":
			al = e.w.K.ActorListen(loopIP, port, sim.ConnNetUnreach)
		case "timeout":
			al = e.w.K.ActorListen(loopIP, port, sim.ConnBlackhole)
		case "no-listener":
		}
		if al != nil {
			defer al.Close()
		}
		opts := []sonicopts.Option{sonicopts.ReuseAddr(true)}
		if network == "tcp" {
			opts = append(opts, sonicopts.NoDelay(true))
		}
		conn, err := sonic.DialTimeout(e.ioc, network, fmt.Sprintf("127.0.0.1:%d", port), 20*time.Millisecond, opts...)
		if err != nil {
			return nil, err
		}
		return func() { conn.Close() }, nil
	}
}

var c13Cases = []c13Case{
	{name: "NewIO", build: func(e *c13Env) (func(), error) {
		ioc, err := sonic.NewIO()
		if err != nil {
			return nil, err
		}
		return func() { ioc.Close() }, nil
	}},
	{name: "NewTimer", build: func(e *c13Env) (func(), error) {
		t, err := sonic.NewTimer(e.ioc)
		if err != nil {
			return nil, err
		}
		return func() { t.Close() }, nil
	}},
	{name: "Dial-tcp", build: c13Dial("tcp", ""), behaviours: []string{"refused", "unreachable", "net-unreachable", "timeout", "no-listener", "descriptor-number>=1024"}},
	{name: "Dial-udp", build: c13Dial("udp", "")},
	{name: "Listen", build: func(e *c13Env) (func(), error) {
		ln, err := sonic.Listen(e.ioc, "tcp", fmt.Sprintf("127.0.0.1:%d", e.nextPort()), sonicopts.Nonblocking(true), sonicopts.ReuseAddr(true))
		if err != nil {
			return nil, err
		}
		return func() { ln.Close() }, nil
	}, behaviours: []string{"bind-conflict", "non-local-bind"}},
	{name: "Accept", build: func(e *c13Env) (func(), error) {
		ln, err := sonic.Listen(e.ioc, "tcp", fmt.Sprintf("127.0.0.1:%d", e.nextPort()), sonicopts.Nonblocking(true))
		if err != nil {
			sim.Bug("Listen: %v", err)
		}
		return nil, fmt.Errorf("unused %v", ln)
	}},
	{name: "NewPacketConn", build: func(e *c13Env) (func(), error) {
		// with options, so that every socket option the constructor may apply is among the calls that are failed
		pc, err := sonic.NewPacketConn(e.ioc, "udp", fmt.Sprintf("127.0.0.1:%d", e.nextPort()), sonicopts.ReuseAddr(true), sonicopts.ReusePort(true), sonicopts.Nonblocking(true))
		if err != nil {
			return nil, err
		}
		return func() { pc.Close() }, nil
	}, behaviours: []string{"bind-conflict", "non-local-bind", "stream-option-on-datagram-socket"}},
	{name: "NewUDPPeer", build: func(e *c13Env) (func(), error) {
		p, err := multicast.NewUDPPeer(e.ioc, "udp", fmt.Sprintf(":%d", e.nextPort()))
		if err != nil {
			return nil, err
		}
		return func() { p.Close() }, nil
	}, behaviours: []string{"non-local-bind"}},
	{name: "Open", build: func(e *c13Env) (func(), error) {
		f, err := sonic.Open(e.ioc, "/c13file", syscall.O_RDWR, 0)
		if err != nil {
			return nil, err
		}
		return func() { f.Close() }, nil
	}, behaviours: []string{"no-such-file"}},
	{name: "websocket-Handshake", build: c13Handshake(false, ""), behaviours: []string{"bad-status", "wrong-key", "no-upgrade-header", "truncated", "close-at-once", "reset-mid-response", "refused", "unreachable"}},
	{name: "websocket-AsyncHandshake", build: c13Handshake(true, ""), behaviours: []string{"bad-status", "wrong-key", "truncated", "close-at-once", "refused"}},
	{name: "NewMirroredBuffer", build: func(e *c13Env) (func(), error) {
		b, err := sbytes.NewMirroredBuffer(e.w.Pick(4096, 1, 8192, 12288), e.w.Chance(1, 2))
		if err != nil {
			return nil, err
		}
		return func() { b.Destroy() }, nil
	}},
}

// acceptCase needs a listener and a queued connection per attempt.
func (e *c13Env) acceptAttempt(async bool) (func(), error) {
	port := e.nextPort()
	ln, err := sonic.Listen(e.ioc, "tcp", fmt.Sprintf("127.0.0.1:%d", port), sonicopts.Nonblocking(true))
	if err != nil {
		sim.Bug("Listen: %v", err)
	}
	cli := e.w.K.ActorConnect([4]byte{127, 0, 0, 1}, loopIP, port)
	e.w.Drain(2_000_000_000)
	var conn sonic.Conn
	e.begin()
	if async {
		done := false
		ln.AsyncAccept(func(e2 error, c2 sonic.Conn) { err, conn, done = e2, c2, true })
		e.pollFor(&done)
	} else {
		conn, err = ln.Accept()
	}
	e.end()
	// the queued connection and the listener are not part of what is judged
	cleanup := func() {
		ln.Close()
		cli.ActorAbort()
		e.w.Drain(1_000_000_000)
	}
	if err != nil {
		// a connection left in the accept queue goes away with the listener
		cleanup()
		return nil, err
	}
	return func() { conn.Close(); cleanup() }, nil
}

func runC13Enum(c *Ctx, v int) {
	w := c.W
	cs := c13Cases[v]
	ioc, err := sonic.NewIO()
	if err != nil {
		sim.Bug("NewIO: %v", err)
	}
	defer ioc.Close()
	e := &c13Env{c: c, w: w, ioc: ioc, port: 9300}
	w.K.MkFile("/c13file", []byte("content"))
	build := cs.build
	if cs.name == "Accept" {
		e.manual = true
		build = func(e *c13Env) (func(), error) { return e.acceptAttempt(w.Chance(1, 2)) }
	}
	attempt := func(label string, b func(e *c13Env) (func(), error), mustFail bool) {
		before := e.census()
		if !e.manual {
			e.begin()
		}
		closer, err := b(e)
		if !e.manual {
			e.end()
		}
		e.arm = nil
		w.Drain(3_000_000_000)
		if err != nil {
			// temporary file names are random: they must not enter the trace
			err = errors.New(c13TempName.ReplaceAllString(err.Error(), "sonic-mirrored-buffer-*"))
		}
		w.Tracef("c13 %s %s -> err=%v", cs.name, label, err)
		if err != nil {
			w.Stat(c13pFailed)
			if after := e.census(); after != before {
				c.FailOrTolerate("descriptor-leak-after-failed-constructor/"+cs.name, "%s failed (%s: %v) and left other descriptors behind than it found:\n  before: %s\n  after:  %s", cs.name, label, err, before, after)
			}
			return
		}
		if mustFail {
			closer()
			c.Failf("constructor-succeeded-unexpectedly/"+cs.name, "%s succeeded although %s", cs.name, label)
		}
		w.Stat(c13pTolerated)
		closer()
		w.Drain(3_000_000_000)
		if after := e.census(); after != before {
			c.FailOrTolerate("descriptor-leak-after-close/"+cs.name, "%s succeeded (%s) and Close did not release exactly what it owned:\n  before: %s\n  after:  %s", cs.name, label, before, after)
		}
	}
	// 1. plain success + close, measuring how many kernel calls of each kind it makes
	attempt("no fault", build, false)
	counts := e.counts
	// 2. every k-th call of every kind fails
	for _, k := range c13Kinds {
		for i := 1; i <= counts[k]; i++ {
			if k == sim.CkFdAlloc {
				w.Stat(c13pEMFILE)
			}
			kk, ii := k, i
			e.arm = func() { w.FailNth(kk, ii, c13Errno[kk]) }
			attempt(fmt.Sprintf("%s call #%d fails with %v", k.String(), i, c13Errno[k]), build, false)
		}
	}
	// 3. peer / environment behaviours
	for _, beh := range cs.behaviours {
		w.Stat(c13pBehaviour)
		b := build
		switch {
		case beh == "descriptor-number>=1024":
			// the connect path waits with select(2), whose fd_set holds 1024 descriptors
			func() {
				base := w.K.FdBase
				w.K.FdBase = 1100
				defer func() {
					w.K.FdBase = base
					if r := recover(); r != nil {
						if _, ok := r.(stopRun); ok {
							panic(r)
						}
						if hb, ok := r.(sim.HarnessBug); ok {
							panic(hb)
						}
						c.FailOrTolerate("dial-panics-with-descriptor>=1024", "sonic.Dial panicked (%v) when the socket got descriptor number %d: the connect path uses select(2) with an FdSet of 1024 bits; the socket is leaked as well", r, 1100)
					}
				}()
				attempt("peer/environment: "+beh, c13Dial("tcp", ""), false)
			}()
			// the leaked socket of the panicking attempt is released so that the census stays meaningful
			for fd := 1100; fd < 1110; fd++ {
				if w.K.KindOf(fd) != "" {
					w.K.Close(fd)
				}
			}
			continue
		case strings.HasPrefix(cs.name, "Dial"):
			b = c13Dial("tcp", beh)
		case cs.name == "websocket-Handshake":
			b = c13Handshake(false, beh)
		case cs.name == "websocket-AsyncHandshake":
			b = c13Handshake(true, beh)
		case beh == "bind-conflict" && cs.name == "Listen":
			b = func(e *c13Env) (func(), error) {
				p := e.nextPort()
				al := e.w.K.ActorListen(loopIP, p, sim.ConnAccept)
				defer al.Close()
				ln, err := sonic.Listen(e.ioc, "tcp", fmt.Sprintf("127.0.0.1:%d", p), sonicopts.Nonblocking(true))
				if err != nil {
					return nil, err
				}
				return func() { ln.Close() }, nil
			}
		case beh == "stream-option-on-datagram-socket":
			b = func(e *c13Env) (func(), error) {
				pc, err := sonic.NewPacketConn(e.ioc, "udp", fmt.Sprintf("127.0.0.1:%d", e.nextPort()), sonicopts.ReuseAddr(true), sonicopts.NoDelay(true))
				if err != nil {
					return nil, err
				}
				// the library may ignore options it does not apply to datagram sockets: then this is a plain success
				return func() { pc.Close() }, nil
			}
		case beh == "non-local-bind" && cs.name == "Listen":
			b = func(e *c13Env) (func(), error) {
				ln, err := sonic.Listen(e.ioc, "tcp", fmt.Sprintf("10.99.99.99:%d", e.nextPort()), sonicopts.Nonblocking(true))
				if err != nil {
					return nil, err
				}
				return func() { ln.Close() }, nil
			}
		case beh == "bind-conflict" && cs.name == "NewPacketConn":
			b = func(e *c13Env) (func(), error) {
				p := e.nextPort()
				first, err := sonic.NewPacketConn(e.ioc, "udp", fmt.Sprintf("127.0.0.1:%d", p))
				if err != nil {
					sim.Bug("first NewPacketConn: %v", err)
				}
				defer first.Close()
				pc, err := sonic.NewPacketConn(e.ioc, "udp", fmt.Sprintf("127.0.0.1:%d", p))
				if err != nil {
					return nil, err
				}
				return func() { pc.Close() }, nil
			}
		case beh == "non-local-bind" && cs.name == "NewPacketConn":
			b = func(e *c13Env) (func(), error) {
				pc, err := sonic.NewPacketConn(e.ioc, "udp", fmt.Sprintf("10.99.99.99:%d", e.nextPort()))
				if err != nil {
					return nil, err
				}
				return func() { pc.Close() }, nil
			}
		case beh == "non-local-bind" && cs.name == "NewUDPPeer":
			b = func(e *c13Env) (func(), error) {
				p, err := multicast.NewUDPPeer(e.ioc, "udp", fmt.Sprintf("10.99.99.99:%d", e.nextPort()))
				if err != nil {
					return nil, err
				}
				return func() { p.Close() }, nil
			}
		case beh == "no-such-file":
			b = func(e *c13Env) (func(), error) {
				f, err := sonic.Open(e.ioc, "/does-not-exist", syscall.O_RDONLY, 0)
				if err != nil {
					return nil, err
				}
				return func() { f.Close() }, nil
			}
		}
		attempt("peer/environment: "+beh, b, beh != "stream-option-on-datagram-socket")
	}
	// 4. the same failures on a Stream that has had a session: every failing
	// handshake is preceded by a successful one on the same object
	if strings.HasPrefix(cs.name, "websocket-") {
		async := cs.name == "websocket-AsyncHandshake"
		e.reuse = true
		const again = " on a Stream whose previous session was closed with CloseNextLayer"
		for _, k := range c13Kinds {
			for i := 1; i <= counts[k]; i++ {
				attempt("no fault"+again, build, false)
				w.Stat(c13pReused)
				kk, ii := k, i
				e.arm = func() { w.FailNth(kk, ii, c13Errno[kk]) }
				attempt(fmt.Sprintf("%s call #%d fails with %v", k.String(), i, c13Errno[k])+again, build, false)
			}
		}
		for _, beh := range cs.behaviours {
			attempt("no fault"+again, build, false)
			w.Stat(c13pReused)
			attempt("peer/environment: "+beh+again, c13Handshake(async, beh), true)
		}
	}
}

// ---------------------------------------------------------------------------
// repeated Close

var c13CloseKinds = []string{"file", "conn", "adapter", "listener", "packet", "peer", "timer", "io"}

func runC13Close(c *Ctx, v int) {
	w := c.W
	ioc, err := sonic.NewIO()
	if err != nil {
		sim.Bug("NewIO: %v", err)
	}
	defer ioc.Close()
	e := &c13Env{c: c, w: w, ioc: ioc, port: 9500}
	w.K.MkFile("/c13file", []byte("content"))
	kind := c13CloseKinds[w.Choose(len(c13CloseKinds))]
	if v >= 0 {
		kind = c13CloseKinds[v]
	}
	type obj struct {
		close func() error
		extra func() // e.g. Cancel after Close on a timer, conn finalizer for the adapter
		fd    int
	}
	mk := func(kind string) obj {
		port := e.nextPort()
		switch kind {
		case "file":
			f, err := sonic.Open(ioc, "/c13file", syscall.O_RDONLY, 0)
			if err != nil {
				sim.Bug("Open: %v", err)
			}
			return obj{close: f.Close, fd: f.RawFd()}
		case "conn":
			al := w.K.ActorListen(loopIP, port, sim.ConnAccept)
			defer al.Close()
			cn, err := sonic.Dial(ioc, "tcp", fmt.Sprintf("127.0.0.1:%d", port))
			if err != nil {
				sim.Bug("Dial: %v", err)
			}
			return obj{close: cn.Close, fd: cn.RawFd()}
		case "adapter":
			al := w.K.ActorListen(loopIP, port, sim.ConnAccept)
			defer al.Close()
			nc, err := shimnet.DialTimeout("tcp", fmt.Sprintf("127.0.0.1:%d", port), 0)
			if err != nil {
				sim.Bug("DialTimeout: %v", err)
			}
			var ad *sonic.AsyncAdapter
			sc := nc.(*shimnet.SimConn)
			sonic.NewAsyncAdapter(ioc, sc, sc, func(err error, a *sonic.AsyncAdapter) { ad = a })
			return obj{close: ad.Close, fd: ad.RawFd(), extra: func() {
				// the net.Conn the adapter wraps is closed by its owner (or by the runtime's finalizer)
				_ = sc.Close()
			}}
		case "listener":
			ln, err := sonic.Listen(ioc, "tcp", fmt.Sprintf("127.0.0.1:%d", port), sonicopts.Nonblocking(true))
			if err != nil {
				sim.Bug("Listen: %v", err)
			}
			return obj{close: ln.Close, fd: ln.RawFd()}
		case "packet":
			pc, err := sonic.NewPacketConn(ioc, "udp", fmt.Sprintf("127.0.0.1:%d", port))
			if err != nil {
				sim.Bug("NewPacketConn: %v", err)
			}
			return obj{close: pc.Close, fd: pc.RawFd()}
		case "peer":
			p, err := multicast.NewUDPPeer(ioc, "udp", fmt.Sprintf(":%d", port))
			if err != nil {
				sim.Bug("NewUDPPeer: %v", err)
			}
			return obj{close: p.Close, fd: p.NextLayer().RawFd()}
		case "timer":
			t, err := sonic.NewTimer(ioc)
			if err != nil {
				sim.Bug("NewTimer: %v", err)
			}
			before := w.K.OpenCount()
			_ = before
			return obj{close: t.Close, fd: -1, extra: func() { _ = t.Cancel() }}
		case "io":
			i2, err := sonic.NewIO()
			if err != nil {
				sim.Bug("NewIO: %v", err)
			}
			return obj{close: i2.Close, fd: -1}
		}
		sim.Bug("kind %s", kind)
		return obj{}
	}
	open0 := w.K.OpenCount()
	a := mk(kind)
	mine := w.K.OpenCount() - open0 // descriptors a owns
	if err := a.close(); err != nil && kind != "adapter" {
		c.Failf("first-close-failed/"+kind, "the first Close of a %s failed: %v", kind, err)
	}
	if n := w.K.OpenCount(); n != open0 && kind != "adapter" {
		c.Failf("close-did-not-release/"+kind, "a %s owned %d descriptors; after Close %d of them are still open", kind, mine, n-open0)
	}
	// a connection is dialled next - it gets the lowest number a just released - and a read is started on it which has
	// to wait; the program keeps no reference to it (only the IO does, for as long as the read is registered)
	var rdDone, wrDone int
	wp, endB := c13Detached(e, false, true, false, false, &rdDone, &wrDone)
	// other objects are created: they get the numbers a just released
	var others []obj
	var gens []int
	for i, n := 0, w.Range(1, 3); i < n; i++ {
		o := mk(c13CloseKinds[w.Choose(len(c13CloseKinds)-2)])
		others = append(others, o)
		gens = append(gens, w.K.GenOf(o.fd))
		if o.fd == a.fd {
			w.Stat(c13pReuse)
		}
	}
	census := strings.Join(w.K.Census(), " ")
	// history of repeated closes (and Cancel after Close on timers, conn close after adapter close)
	for i, n := 0, w.Range(1, 3); i < n; i++ {
		if a.extra != nil && w.Chance(1, 2) {
			a.extra()
		}
		_ = a.close()
	}
	if a.extra != nil {
		a.extra()
		_ = a.close()
	}
	if after := strings.Join(w.K.Census(), " "); after != census {
		c.FailOrTolerate("foreign-close/"+kind, "closing a %s again closed descriptors it no longer owns:\n  before: %s\n  after:  %s", kind, census, after)
	}
	for i, o := range others {
		if o.fd >= 0 && w.K.GenOf(o.fd) != gens[i] {
			c.FailOrTolerate("foreign-close/"+kind, "object %d lost its descriptor %d to a repeated Close of a %s", i, o.fd, kind)
		}
		_ = o.close()
	}
	// the repeated Close must not have released anything of the connection whose read is in flight either: not its
	// descriptor (census above), and not the registration that keeps it alive and gets its completion delivered
	runtime.GC()
	runtime.GC()
	shimnet.CollectGarbage()
	if wp.Value() == nil {
		c.FailOrTolerate("owner-collected-while-operation-in-flight/after-repeated-close-of-a-"+kind, "a %s was closed, a connection was dialled (it got a released descriptor number) and a read started on it with no reference kept; after the %s was closed again and a garbage collection the read's completion callback is gone although the read is still in flight", kind, kind)
	}
	endB.ActorSend([]byte("hello"))
	for i := 0; i < 200 && rdDone == 0; i++ {
		w.Drain(1_000_000_000)
		w.Advance(2_000_000)
		if _, err := ioc.PollOne(); err != nil && err != sonicerrors.ErrTimeout {
			c.Failf("poll-error", "PollOne: %v", err)
		}
	}
	if rdDone != 1 {
		c.Failf("completion-not-delivered/read-after-repeated-close-of-a-"+kind, "a read in flight on a connection that got the descriptor number of a closed %s completed %d times after the %s was closed again", kind, rdDone, kind)
	}
}

// ---------------------------------------------------------------------------
// garbage collection while operations are deferred

type c13Sentinel struct{ id [16]byte }

// c13Detached starts operations on a fresh conn and returns without keeping
// any reference to it: only the weak pointer to a sentinel the completion
// callbacks capture, the actor end and the completion flags survive.
//
//go:noinline
func c13Detached(e *c13Env, adapter bool, read, write, prior bool, rdDone, wrDone *int) (weak.Pointer[c13Sentinel], *sim.TCPEnd) {
	w := e.w
	port := e.nextPort()
	al := w.K.ActorListen(loopIP, port, sim.ConnAccept)
	defer al.Close()
	var end *sim.TCPEnd
	al.OnConn(func(x *sim.TCPEnd) { end = x })
	s := &c13Sentinel{}
	var fd sonic.FileDescriptor
	if adapter {
		nc, err := shimnet.DialTimeout("tcp", fmt.Sprintf("127.0.0.1:%d", port), 0)
		if err != nil {
			sim.Bug("DialTimeout: %v", err)
		}
		sc := nc.(*shimnet.SimConn)
		sonic.NewAsyncAdapter(e.ioc, sc, sc, func(err error, a *sonic.AsyncAdapter) { fd = a })
		w.K.SetNonblock(fd.RawFd(), true)
	} else {
		cn, err := sonic.Dial(e.ioc, "tcp", fmt.Sprintf("127.0.0.1:%d", port))
		if err != nil {
			sim.Bug("Dial: %v", err)
		}
		fd = cn
	}
	if prior {
		// an earlier read that has completed entirely before anything is deferred
		end.ActorSend([]byte("earlier"))
		w.Drain(2_000_000_000)
		done := false
		fd.AsyncRead(make([]byte, 64), func(err error, n int) { done = true })
		for i := 0; i < 20 && !done; i++ {
			w.Advance(1_000_000)
			e.ioc.PollOne()
		}
		if !done {
			sim.Bug("c13: prior read did not complete")
		}
	}
	if read {
		fd.AsyncRead(make([]byte, 64), func(err error, n int) {
			*rdDone++
			_ = s.id
		})
	}
	if write {
		// fill the send buffer so that the write is deferred
		big := make([]byte, 1<<16)
		fd.AsyncWriteAll(big, func(err error, n int) {
			*wrDone++
			_ = s.id
		})
	}
	return weak.Make(s), end
}

// runC13Reconnect: the usual reconnect pattern - a read completes with the end of the stream, the handler
// closes the connection and dials a new one (which gets the descriptor number just released) and starts a read
// on it, keeping no reference. A collection follows; the new connection's read must still complete.
func runC13Reconnect(c *Ctx, v int) {
	w := c.W
	ioc, err := sonic.NewIO()
	if err != nil {
		sim.Bug("NewIO: %v", err)
	}
	defer ioc.Close()
	e := &c13Env{c: c, w: w, ioc: ioc, port: 9800}
	port := e.nextPort()
	al := w.K.ActorListen(loopIP, port, sim.ConnAccept)
	var endA *sim.TCPEnd
	al.OnConn(func(x *sim.TCPEnd) { endA = x })
	a, err := sonic.Dial(ioc, "tcp", fmt.Sprintf("127.0.0.1:%d", port))
	if err != nil {
		sim.Bug("Dial: %v", err)
	}
	al.Close()
	oldFd := a.RawFd()
	adapter := w.Chance(1, 3)
	closeFirst := w.Chance(2, 3)
	if v >= 0 {
		adapter, closeFirst = false, v == 0
	}
	var (
		rdDone, wrDone int
		wp             weak.Pointer[c13Sentinel]
		endB           *sim.TCPEnd
		reconnected    bool
	)
	a.AsyncRead(make([]byte, 64), func(err error, n int) {
		if err == nil {
			sim.Bug("c13: the first connection's read completed without an error")
		}
		if closeFirst {
			a.Close() // the number is free again: the new connection gets it
		}
		wp, endB = c13Detached(e, adapter, true, false, false, &rdDone, &wrDone)
		if !closeFirst {
			a.Close()
		}
		reconnected = true
	})
	poll := func() {
		w.Advance(2_000_000)
		if _, err := ioc.PollOne(); err != nil && err != sonicerrors.ErrTimeout {
			c.Failf("poll-error", "PollOne: %v", err)
		}
	}
	endA.ActorClose()
	for i := 0; i < 50 && !reconnected; i++ {
		w.Drain(1_000_000_000)
		poll()
	}
	if !reconnected {
		sim.Bug("c13: the first connection's read did not complete after the peer closed")
	}
	if closeFirst && !adapter {
		w.Stat(c13pFdReused)
	}
	_ = oldFd
	poll()
	w.Stat(c13pGC)
	runtime.GC()
	runtime.GC()
	if n := shimnet.CollectGarbage(); n > 0 {
		w.StatAdd(c13pFinalizer, n)
	}
	if wp.Value() == nil {
		c.FailOrTolerate("owner-collected-while-operation-in-flight/reconnected-from-handler", "a handler closed its connection, dialed a new one and started a read on it (close first: %v, adapter: %v); the program holds no reference to the new connection and after a garbage collection its completion callback is gone although the read is still in flight", closeFirst, adapter)
	}
	endB.ActorSend([]byte("hello"))
	for i := 0; i < 200 && rdDone == 0; i++ {
		w.Drain(1_000_000_000)
		poll()
	}
	if rdDone != 1 {
		c.Failf("completion-not-delivered/read", "the read started on the new connection from inside the old one's handler completed %d times after the collection", rdDone)
	}
}

func runC13GC(c *Ctx, v int) {
	w := c.W
	w.TCPSndCap = 256
	w.ActorRcvCap = 64 // the peer does not read until told to: the write stays deferred
	ioc, err := sonic.NewIO()
	if err != nil {
		sim.Bug("NewIO: %v", err)
	}
	defer ioc.Close()
	e := &c13Env{c: c, w: w, ioc: ioc, port: 9700}
	adapter := w.Chance(1, 3)
	read, write := true, w.Chance(1, 2)
	between := write && w.Chance(1, 2)
	if v >= 0 {
		adapter = v&1 != 0
		write = v&2 != 0 || v >= 5
		between = write
	}
	if adapter {
		// net.Conn.Write blocks the loop until everything is written: the peer must keep reading,
		// so a write cannot stay deferred across polls; it is deferred until the first poll only
		w.ActorRcvCap = 0
		between = false
	}
	var rdDone, wrDone int
	if v == 4 {
		// self-test of the liveness probe: nothing in flight, so nothing may keep the object alive
		wp0, _ := c13Detached(e, false, false, false, false, &rdDone, &wrDone)
		runtime.GC()
		runtime.GC()
		if wp0.Value() != nil {
			sim.Bug("c13: an object with nothing in flight and no reference survives a collection: the liveness probe cannot see collections")
		}
		return
	}
	prior := w.Chance(1, 2)
	if v >= 0 {
		prior = v >= 5
	}
	if prior && w.Chance(1, 2) && write {
		read = false // only the write is deferred, after an earlier read completed
	}
	wp, end := c13Detached(e, adapter, read, write, prior, &rdDone, &wrDone)
	poll := func() {
		w.Advance(2_000_000)
		if _, err := ioc.PollOne(); err != nil && err != sonicerrors.ErrTimeout {
			c.Failf("poll-error", "PollOne: %v", err)
		}
	}
	gc := func(when string) {
		w.Stat(c13pGC)
		runtime.GC()
		runtime.GC()
		if n := shimnet.CollectGarbage(); n > 0 {
			w.StatAdd(c13pFinalizer, n)
		}
		w.Tracef("c13 gc %s: sentinel alive=%v rd=%d wr=%d", when, wp.Value() != nil, rdDone, wrDone)
		if wp.Value() == nil {
			kind := "conn"
			if adapter {
				kind = "adapter"
			}
			c.FailOrTolerate("owner-collected-while-operation-in-flight/"+kind+"/"+when, "the program dropped every reference to a %s with operations deferred (read pending=%v, write pending=%v); after a garbage collection %s the completion callbacks (and with them the object the poller's registration points to) are gone", kind, rdDone == 0, write && wrDone == 0, when)
		}
	}
	// let the deferred write fill both socket buffers so that it stays
	// deferred (not writable) while the read completes
	if !adapter {
		for i := 0; i < 8; i++ {
			w.Drain(1_000_000_000)
			poll()
		}
	}
	gc("all-deferred")
	if adapter {
		end.OnData = func() { end.ActorRecv(1 << 30) }
		end.ActorRecv(1 << 30)
	}
	if between && read {
		// complete the read first, collect, then let the write complete
		w.Stat(c13pGCBoth)
		end.ActorSend([]byte("hello"))
		for i := 0; i < 50 && rdDone == 0; i++ {
			poll()
		}
		if rdDone != 1 {
			c.Failf("completion-not-delivered/read", "the deferred read did not complete after the peer sent data (completions=%d)", rdDone)
		}
		if wrDone == 0 {
			gc("between-read-and-write-completion")
		}
	}
	end.ActorSend([]byte("hello"))
	for i := 0; i < 3000 && ((read && rdDone == 0) || (write && wrDone == 0)); i++ {
		end.ActorRecv(1 << 20)
		poll()
	}
	if read && rdDone != 1 {
		c.Failf("completion-not-delivered/read", "the deferred read completed %d times after the collection", rdDone)
	}
	if write && wrDone != 1 {
		c.Failf("completion-not-delivered/write", "the deferred write completed %d times after the collection", wrDone)
	}
}

// ---------------------------------------------------------------------------
// Close with operations in flight while the deregistration fails

var c13pCloseCtlFail = sim.RegStat("probe:c13-close-with-operations-in-flight-and-failing-epoll_ctl")

// runC13CloseInFlight: a connection is closed while a read and/or a write is registered with the poller, and the
// deregistration that Close performs fails - the kernel refuses one epoll_ctl (ENOMEM), or the program tears down in
// the order IO first, connection second (EBADF on the epoll descriptor). Whatever Close returns, the connection's
// descriptor is released: "Close releases exactly the descriptors the object owns".
func runC13CloseInFlight(c *Ctx, v int) {
	w := c.W
	w.TCPSndCap = 4096
	mode := v
	if v < 0 {
		mode = w.Choose(12)
	}
	read, write, how := mode%4&1 != 0, mode%4&2 != 0, (mode/4)%3
	base := w.K.OpenCount()
	ioc, err := sonic.NewIO()
	if err != nil {
		sim.Bug("NewIO: %v", err)
	}
	iocOpen := true
	defer func() {
		if iocOpen {
			ioc.Close()
		}
	}()
	port := 9700
	al := w.K.ActorListen(loopIP, port, sim.ConnAccept)
	defer al.Close()
	cn, err := sonic.Dial(ioc, "tcp", fmt.Sprintf("127.0.0.1:%d", port))
	if err != nil {
		sim.Bug("Dial: %v", err)
	}
	var rdDone, wrDone int
	if read {
		cn.AsyncRead(make([]byte, 64), func(err error, n int) { rdDone++ })
	}
	if write {
		cn.AsyncWriteAll(make([]byte, 1<<16), func(err error, n int) { wrDone++ })
	}
	if read && rdDone != 0 || write && wrDone != 0 {
		sim.Bug("c13: the operation was meant to be deferred")
	}
	what := "no failure"
	switch how {
	case 1:
		k := 1 + w.Choose(2)
		w.FailNth(sim.CkEpollCtl, k, syscall.ENOMEM)
		what = fmt.Sprintf("epoll_ctl call %d of Close failing with ENOMEM", k)
	case 2:
		ioc.Close()
		iocOpen = false
		what = "the IO closed before the connection"
	}
	if how != 0 && (read || write) {
		w.Stat(c13pCloseCtlFail)
	}
	cerr := cn.Close()
	w.FailNth(sim.CkEpollCtl, 0, 0)
	if how == 0 && cerr != nil {
		c.Failf("first-close-failed/conn-with-operations-in-flight", "Close of a connection with read=%v write=%v in flight failed: %v", read, write, cerr)
	}
	if iocOpen {
		ioc.Close()
		iocOpen = false
	}
	if n := w.K.OpenCount(); n != base {
		c.Failf("close-did-not-release/conn-with-operations-in-flight", "a connection with read=%v write=%v registered with the poller was closed with %s; Close returned %v and %d descriptor(s) are still open after the IO was closed too", read, write, what, cerr, n-base)
	}
	if rdDone+wrDone != 0 && how == 0 {
		c.Failf("callback-after-close/conn", "Close ran %d read and %d write completion(s) of the operations it abandons", rdDone, wrDone)
	}
}
