package scen

import (
	"bytes"
	"errors"
	"fmt"
	"io"

	"github.com/talostrading/sonic/codec/websocket"
	"github.com/talostrading/sonic/sonicerrors"

	shimnet "sonicverif/shim/net"
	"sonicverif/sim"
)

// C06 WebSocket message delivery fidelity under fragmentation/segmentation.

func init() {
	Register("C06", &Scenario{Name: "messages-random", Weight: 10, Run: func(c *Ctx, v int) { runC06(c, -1) }})
	Register("C06", &Scenario{Name: "messages-every-split", Directed: 16, Run: func(c *Ctx, v int) { runC06(c, v) }})
}

var (
	c06pFragmented = sim.RegStat("probe:c06-message-fragmented")
	c06pCtrlInside = sim.RegStat("probe:c06-control-frame-between-fragments")
	c06pLen16      = sim.RegStat("probe:c06-16-bit-length-frame")
	c06pLen64      = sim.RegStat("probe:c06-64-bit-length-frame")
	c06pCutHeader  = sim.RegStat("probe:c06-cut-inside-a-frame-header")
	c06pWithHS     = sim.RegStat("probe:c06-frames-split-together-with-handshake-response")
	c06pEOFBehind  = sim.RegStat("probe:c06-peer-ends-the-stream-right-behind-its-last-frame")
	c06pRstBehind  = sim.RegStat("probe:c06-peer-resets-the-connection-behind-frames-still-unread")
	c06pDataEOF    = sim.RegStat("probe:c06-transport-reports-eof-together-with-the-last-bytes")
	c06pChained    = sim.RegStat("probe:c06-next-read-started-from-inside-the-completion")
	c06pRetune     = sim.RegStat("probe:c06-max-message-size-raised-while-an-async-read-is-pending")
	c06pAPI        = [4]sim.StatID{sim.RegStat("probe:c06-api-NextMessage"), sim.RegStat("probe:c06-api-AsyncNextMessage"), sim.RegStat("probe:c06-api-NextFrame"), sim.RegStat("probe:c06-api-AsyncNextFrame")}
)

type wsMsg struct {
	typ     byte
	payload []byte
}

type wsCtl struct {
	op      byte
	payload []byte
}

// wsGen builds a conforming server->client session: messages, each possibly
// fragmented, with control frames between fragments.
type wsGenOut struct {
	msgs   []wsMsg
	ctls   []wsCtl
	frames []wsFrame
	wire   []byte
	starts []int // wire offset of each frame
}

func wsGenSession(w *sim.World, nMsgs, maxSize int, allowCtl bool) *wsGenOut {
	g := &wsGenOut{}
	for i := 0; i < nMsgs; i++ {
		var size int
		switch w.Choose(12) {
		case 10, 11:
			// the frame ends within a few bytes of a power of two: the stream's
			// read buffer starts at one and grows to others
			size = w.Pick(4096, 4096, 8192, 16384, 65536+4096) - w.Range(0, 20)
		case 0:
			size = 0
		case 1:
			size = 1
		case 2:
			size = 125
		case 3:
			size = 126
		case 4:
			size = 127
		case 5:
			size = 65535
		case 6:
			size = 65536
		case 7:
			size = maxSize
		default:
			size = w.Range(2, 2000)
		}
		if size > maxSize {
			size = maxSize
		}
		p := make([]byte, size)
		w.DataBytes(p)
		typ := byte(wsBinary)
		if w.Chance(1, 2) {
			typ = wsText
		}
		g.msgs = append(g.msgs, wsMsg{typ, p})
		// fragmentation points
		nFrag := 1
		if w.Chance(1, 2) {
			nFrag = w.Range(2, 6)
			w.Stat(c06pFragmented)
		}
		cuts := []int{}
		for k := 1; k < nFrag; k++ {
			cuts = append(cuts, w.Range(0, size))
		}
		sortInts(cuts)
		prev := 0
		for k := 0; k < nFrag; k++ {
			end := size
			if k < len(cuts) {
				end = cuts[k]
			}
			op := byte(wsCont)
			if k == 0 {
				op = typ
			}
			g.frames = append(g.frames, wsFrame{Fin: k == nFrag-1, Opcode: op, Payload: p[prev:end]})
			prev = end
			if allowCtl && k < nFrag-1 && w.Chance(1, 3) {
				w.Stat(c06pCtrlInside)
				g.addCtl(w, maxSize)
			}
		}
		if allowCtl && w.Chance(1, 5) {
			g.addCtl(w, maxSize)
		}
	}
	for _, f := range g.frames {
		g.starts = append(g.starts, len(g.wire))
		enc := wsEncode(f, -1, -1)
		switch {
		case len(f.Payload) > 65535:
			w.Stat(c06pLen64)
		case len(f.Payload) > 125:
			w.Stat(c06pLen16)
		}
		g.wire = append(g.wire, enc...)
	}
	return g
}

func (g *wsGenOut) addCtl(w *sim.World, maxSize int) {
	op := byte(wsPing)
	if w.Chance(1, 2) {
		op = wsPong
	}
	n := w.Pick(0, 1, 4, 125)
	if n > maxSize {
		n = maxSize // a configured maximum below 125 bounds control frames too: a conforming session stays within it
	}
	p := make([]byte, n)
	w.DataBytes(p)
	g.ctls = append(g.ctls, wsCtl{op, p})
	g.frames = append(g.frames, wsFrame{Fin: true, Opcode: op, Payload: p})
}

func (g *wsGenOut) inHeader(off int) bool {
	for i, s := range g.starts {
		hl := 2
		switch n := len(g.frames[i].Payload); {
		case n > 65535:
			hl = 10
		case n > 125:
			hl = 4
		}
		if off > s && off < s+hl {
			return true
		}
	}
	return false
}

type c06Reader struct {
	d      *wsSess
	c      *Ctx
	api    int
	chain  bool // asynchronous APIs: the next read is started from inside the completion callback (the usual receive loop)
	max    int
	gotM   []wsMsg
	gotC   []wsCtl
	asm    []byte // frame APIs: message being reassembled
	asmTyp int
	endErr error
	// retune: the application raises the maximum message size while an asynchronous read is waiting for bytes (an
	// option changed at run time; nothing the peer sends is near either limit)
	retune bool
}

func (r *c06Reader) maybeRetune(done *bool) {
	if r.retune && !*done && r.d.w.Chance(1, 2) {
		r.d.w.Stat(c06pRetune)
		r.max += r.d.w.Pick(1, 5000, 70000, 300000)
		r.d.ws.SetMaxMessageSize(r.max)
	}
}

// readAll reads until nMsgs messages were delivered or an error ends the session.
func (r *c06Reader) readAll(nMsgs int) {
	ws := r.d.ws
	r.asmTyp = -1
	ws.SetControlCallback(func(mt websocket.MessageType, payload []byte) {
		r.gotC = append(r.gotC, wsCtl{byte(mt), append([]byte(nil), payload...)})
	})
	buf := make([]byte, r.max+16)
	if r.chain && (r.api == 1 || r.api == 3) {
		r.d.w.Stat(c06pChained)
		finished := false
		var step func()
		step = func() {
			if r.api == 1 {
				ws.AsyncNextMessage(buf, func(e error, n int, mt websocket.MessageType) {
					if e != nil {
						r.endErr, finished = e, true
						return
					}
					r.gotM = append(r.gotM, wsMsg{byte(mt), append([]byte(nil), buf[:n]...)})
					if len(r.gotM) < nMsgs {
						step()
					} else {
						finished = true
					}
				})
			} else {
				ws.AsyncNextFrame(func(e error, f websocket.Frame) {
					if e != nil {
						r.endErr, finished = e, true
						return
					}
					r.onFrame(f)
					if len(r.gotM) < nMsgs {
						step()
					} else {
						finished = true
					}
				})
			}
		}
		if nMsgs > 0 {
			step()
			r.maybeRetune(&finished)
			if !r.wait(&finished) {
				r.endErr = errors.New("async read never completed")
			}
		}
		return
	}
	guard := 0
	for len(r.gotM) < nMsgs {
		guard++
		if guard > 20000 {
			sim.Bug("c06: reader does not terminate")
		}
		switch r.api {
		case 0:
			mt, n, err := ws.NextMessage(buf)
			if err != nil {
				r.endErr = err
				return
			}
			r.gotM = append(r.gotM, wsMsg{byte(mt), append([]byte(nil), buf[:n]...)})
		case 1:
			done := false
			var (
				mt  websocket.MessageType
				n   int
				err error
			)
			ws.AsyncNextMessage(buf, func(e error, nn int, t websocket.MessageType) { err, n, mt, done = e, nn, t, true })
			r.maybeRetune(&done)
			if !r.wait(&done) {
				r.endErr = errors.New("async read never completed")
				return
			}
			if err != nil {
				r.endErr = err
				return
			}
			r.gotM = append(r.gotM, wsMsg{byte(mt), append([]byte(nil), buf[:n]...)})
		case 2:
			f, err := ws.NextFrame()
			if err != nil {
				r.endErr = err
				return
			}
			r.onFrame(f)
		case 3:
			done := false
			var (
				f   websocket.Frame
				err error
			)
			ws.AsyncNextFrame(func(e error, fr websocket.Frame) { err, f, done = e, fr, true })
			r.maybeRetune(&done)
			if !r.wait(&done) {
				r.endErr = errors.New("async read never completed")
				return
			}
			if err != nil {
				r.endErr = err
				return
			}
			r.onFrame(f)
		}
	}
}

func (r *c06Reader) wait(done *bool) bool { return r.d.waitFor(done) }

// onFrame: what an application using the frame-level API does.
func (r *c06Reader) onFrame(f websocket.Frame) {
	op := byte(f.Opcode())
	if op >= 8 {
		r.gotC = append(r.gotC, wsCtl{op, append([]byte(nil), f.Payload()...)})
		return
	}
	if op != wsCont {
		r.asm = r.asm[:0]
		r.asmTyp = int(op)
	}
	if got := f.PayloadLength(); got != len(f.Payload()) {
		r.c.Failf("frame-length-mismatch", "frame reports PayloadLength()=%d but Payload() has %d bytes", got, len(f.Payload()))
	}
	r.asm = append(r.asm, f.Payload()...)
	if f.IsFIN() {
		r.gotM = append(r.gotM, wsMsg{byte(r.asmTyp), append([]byte(nil), r.asm...)})
		r.asm = r.asm[:0]
		r.asmTyp = -1
	}
}

var c06APINames = [4]string{"NextMessage", "AsyncNextMessage", "NextFrame", "AsyncNextFrame"}

func (r *c06Reader) compare(g *wsGenOut, upTo int, label string) {
	c := r.c
	api := c06APINames[r.api]
	for i := 0; i < upTo; i++ {
		if i >= len(r.gotM) {
			c.Failf("message-lost/"+api, "%s: message %d of %d (type %d, %d bytes) was never delivered; the reader stopped with %v", label, i, upTo, g.msgs[i].typ, len(g.msgs[i].payload), r.endErr)
		}
		m, e := r.gotM[i], g.msgs[i]
		if m.typ != e.typ {
			c.Failf("message-type-mismatch/"+api, "%s: message %d delivered with type %d, sent with type %d", label, i, m.typ, e.typ)
		}
		if len(m.payload) != len(e.payload) {
			c.Failf("message-length-mismatch/"+api, "%s: message %d delivered with %d bytes, sent with %d", label, i, len(m.payload), len(e.payload))
		}
		if !bytes.Equal(m.payload, e.payload) {
			j := 0
			for j < len(m.payload) && m.payload[j] == e.payload[j] {
				j++
			}
			c.Failf("message-payload-mismatch/"+api, "%s: message %d (%d bytes) differs from what was sent at byte %d", label, i, len(e.payload), j)
		}
	}
	if len(r.gotM) > upTo {
		c.Failf("message-invented/"+api, "%s: %d messages delivered, %d sent", label, len(r.gotM), upTo)
	}
}

func (r *c06Reader) compareCtl(g *wsGenOut, label string) {
	c := r.c
	api := c06APINames[r.api]
	// controls that precede the last delivered message must all have been seen, in order
	n := len(r.gotC)
	if n > len(g.ctls) {
		c.Failf("control-invented/"+api, "%s: %d control frames surfaced, %d sent", label, n, len(g.ctls))
	}
	for i := 0; i < n; i++ {
		if r.gotC[i].op != g.ctls[i].op || !bytes.Equal(r.gotC[i].payload, g.ctls[i].payload) {
			c.Failf("control-mismatch/"+api, "%s: control %d surfaced as op=%d len=%d, sent op=%d len=%d", label, i, r.gotC[i].op, len(r.gotC[i].payload), g.ctls[i].op, len(g.ctls[i].payload))
		}
	}
}

func runC06(c *Ctx, variant int) {
	w := c.W
	d := newWsSess(c)
	defer d.close()
	api := w.Choose(4)
	transport := w.Choose(3) // 0 production, 1 production with frames behind the handshake response, 2 scripted
	if variant >= 0 {
		api = variant % 4
		transport = (variant / 4) % 3
		if variant >= 12 {
			transport = 2
		}
	} else {
		w.EnableFaults(sim.FSegment, sim.FDelay, sim.FShortRead, sim.FEpollPermute)
		w.TCPRcvCap = w.Pick(1<<20, 64, 1024, 70000)
	}
	w.Stat(c06pAPI[api])
	maxSize := w.Pick(4096, 1024, 70000, 262144, 4321, 100, 5)
	// (sixth round of seeds) the peer resets the connection while all its frames sit unread in the client's receive
	// queue: epoll reports EPOLLIN|EPOLLERR|EPOLLHUP at once, and what was received before the reset is still read
	// first (Linux hands queued data over before the error). No control frames in such a session (a Pong cannot be
	// written to a reset connection) and no message above the limit (nor can the Close frame that answers it).
	rstBehind := variant < 0 && transport == 0 && w.Chance(1, 6)
	if rstBehind {
		maxSize = 262144
		w.TCPRcvCap = 1 << 20
	}
	if variant >= 0 {
		maxSize = 300
	}
	d.ws.SetMaxMessageSize(maxSize)
	nMsgs := w.Range(1, c.Deep(8))
	if variant >= 0 {
		nMsgs = 2
	}
	g := wsGenSession(w, nMsgs, maxSize, !rstBehind)
	if len(g.wire) > 900_000 {
		rstBehind = false
	}
	var cuts []int
	if variant >= 0 {
		// every split point of a short session: the run index walks the offsets
		if len(g.wire) > 1 {
			cuts = []int{1 + int(w.Seed%uint64(len(g.wire)-1))}
			if variant%2 == 1 && len(g.wire) > 3 {
				cuts = append(cuts, 1+int((w.Seed/7919)%uint64(len(g.wire)-1)))
				sortInts(cuts)
			}
		}
	} else {
		for i, n := 0, w.Pick(0, 1, 2, 4, 9); i < n && len(g.wire) > 1; i++ {
			cuts = append(cuts, w.Range(1, len(g.wire)-1))
		}
		sortInts(cuts)
	}
	for _, cu := range cuts {
		if g.inHeader(cu) {
			w.Stat(c06pCutHeader)
		}
	}
	c.Notef("api=%s transport=%d msgs=%d wire=%d cuts=%v max=%d", c06APINames[api], transport, nMsgs, len(g.wire), cuts, maxSize)
	switch transport {
	case 0:
		d.connect()
		d.feed(g.wire, cuts)
	case 1:
		w.Stat(c06pWithHS)
		k := len(g.wire)
		if k > 900 {
			k = 900 // the handshake buffer grows, keep the head+body modest
		}
		if len(cuts) > 0 && cuts[0] < k {
			k = cuts[0]
		}
		resp := &hsResp{Status: 101, Upgrade: "websocket", CloseAfter: -1, Body: g.wire[:k], Space: w.Choose(3), NameCase: w.Choose(3)}
		hl := len(resp.head("dGhlIHNhbXBsZSBub25jZQ=="))
		if w.Chance(1, 2) {
			resp.Cuts = []int{w.Range(1, hl+k-1)}
		}
		d.listen(resp)
		if err := d.ws.Handshake(d.url()); err != nil {
			c.Failf("conforming-handshake-failed", "Handshake failed: %v", err)
		}
		var rest []int
		for _, cu := range cuts {
			if cu > k {
				rest = append(rest, cu-k)
			}
		}
		d.expectBytes += len(g.wire)
		if k < len(g.wire) {
			d.srv.sendCuts(g.wire[k:], rest)
		}
	case 2:
		d.attach()
		d.mem.Partial = w.Chance(1, 2)
		d.mem.Defer = w.Chance(1, 3)
		d.feed(g.wire, cuts)
	}
	if rstBehind {
		w.Stat(c06pRstBehind)
		w.Drain(60_000_000_000) // everything the peer sent has arrived
		d.srv.end.ActorAbort()
		w.Drain(1_000_000_000)
	} else if variant < 0 && w.Chance(1, 3) {
		// the peer ends the stream directly behind its last frame; a transport may then hand the last bytes
		// over together with the end-of-stream indication (tls.Conn does, for a close_notify behind the data)
		w.Stat(c06pEOFBehind)
		if w.Chance(2, 3) {
			w.Stat(c06pDataEOF)
			shimnet.EOFWithData = true
			if d.mem != nil {
				d.mem.EOFWithData = true
			}
		}
		d.feedEOF()
	}
	r := &c06Reader{d: d, c: c, api: api, max: maxSize, chain: w.Chance(1, 2), retune: variant < 0 && w.Chance(1, 3)}
	func() {
		defer func() {
			if x := recover(); x != nil {
				if _, ok := x.(sim.BlockedForever); ok {
					r.endErr = fmt.Errorf("blocked forever")
					return
				}
				panic(x)
			}
		}()
		r.readAll(nMsgs)
	}()
	if r.endErr != nil && (errors.Is(r.endErr, sonicerrors.ErrWouldBlock) || r.endErr == io.EOF) && len(r.gotM) == nMsgs {
		r.endErr = nil
	}
	r.compare(g, nMsgs, fmt.Sprintf("api=%s transport=%d", c06APINames[api], transport))
	r.compareCtl(g, fmt.Sprintf("api=%s transport=%d", c06APINames[api], transport))
}
