package scen

import (
	"bytes"
	"encoding/binary"
	"errors"
	"fmt"
	"net/netip"

	"github.com/talostrading/sonic"
	"github.com/talostrading/sonic/multicast"
	"github.com/talostrading/sonic/sonicerrors"

	"sonicverif/sim"
)

// C20 Out-of-order slot retrieval addresses exactly the bytes saved.
//
// The system is the use the slot types were written for: a sequenced feed over
// (simulated) multicast with loss, duplication, reordering and delay, a
// retransmission actor that fills gaps after a virtual time-out, and a
// receiver that parks every out-of-order packet in a ByteBuffer save area
// indexed by a SlotSequencer (or a bare SlotOffsetter).

func init() {
	Register("C20", &Scenario{Name: "sequenced-feed", Weight: 10, Run: func(c *Ctx, v int) { runC20(c) }})
}

var (
	c20pParked    = sim.RegStat("probe:c20-packet-parked-out-of-order")
	c20pDup       = sim.RegStat("probe:c20-duplicate-push-rejected")
	c20pCapSlots  = sim.RegStat("probe:c20-slot-capacity-reached")
	c20pCapBytes  = sim.RegStat("probe:c20-byte-capacity-reached")
	c20pDrained   = sim.RegStat("probe:c20-sequencer-drained-to-empty")
	c20pNever     = sim.RegStat("probe:c20-sequencer-never-empty-for-many-pops")
	c20pExpire    = sim.RegStat("probe:c20-parked-packet-expired-out-of-order")
	c20pMidDisc   = sim.RegStat("probe:c20-discard-with-other-packets-parked-after-it")
	c20pIndexFull = sim.RegStat("probe:c20-push-refused-below-capacity")
)

type c20Parked struct {
	seq  int
	data []byte
	slot sonic.Slot // only for the bare offsetter configuration
}

type c20Chan struct {
	d            *c20
	ix           int
	group        [4]byte
	port         int
	peer         *multicast.UDPPeer
	buf          *sonic.ByteBuffer
	seqr         *sonic.SlotSequencer
	off          *sonic.SlotOffsetter
	maxSlots     int
	maxBytes     int
	parked       []c20Parked // model, in save order
	next         int         // next sequence number the application expects
	n            int         // packets in the feed
	got          []int       // delivered sequence numbers
	rbuf         []byte
	withheld     int // a sequence number the publisher holds back until late (-1: none)
	sinceEmpty   int // bytes pushed since the sequencer was last empty
	popsNonEmpty int
	stuck        bool
}

type c20 struct {
	c     *Ctx
	w     *sim.World
	ioc   *sonic.IO
	chans []*c20Chan
}

func (ch *c20Chan) payload(seq int) []byte {
	n := 8 + (seq*37+ch.ix*11)%120
	if seq%9 == 4 {
		n = 8 + (seq*131)%900
	}
	p := make([]byte, n)
	binary.BigEndian.PutUint32(p, uint32(seq))
	binary.BigEndian.PutUint32(p[4:], uint32(ch.ix))
	for i := 8; i < n; i++ {
		p[i] = byte(seq*7 + i*3 + ch.ix)
	}
	return p
}

func (ch *c20Chan) bytes() int {
	t := 0
	for _, p := range ch.parked {
		t += len(p.data)
	}
	return t
}

func (ch *c20Chan) find(seq int) int {
	for i, p := range ch.parked {
		if p.seq == seq {
			return i
		}
	}
	return -1
}

// invariants after every call
func (ch *c20Chan) check(op string) {
	c := ch.d.c
	var want []byte
	for _, p := range ch.parked {
		want = append(want, p.data...)
	}
	if got := ch.buf.Saved(); !bytes.Equal(got, want) {
		c.Failf("saved-area-differs", "channel %d after %s: the save area holds %d bytes, the parked packets add up to %d (first difference at %d)", ch.ix, op, len(got), len(want), firstDiff(got, want))
	}
	if ch.seqr != nil {
		if ch.seqr.Size() != len(ch.parked) || ch.seqr.Bytes() != ch.bytes() {
			c.Failf("size-or-bytes-differ", "channel %d after %s: Size()=%d Bytes()=%d, parked: %d packets, %d bytes", ch.ix, op, ch.seqr.Size(), ch.seqr.Bytes(), len(ch.parked), ch.bytes())
		}
	}
}

// park stores an out-of-order packet.
func (ch *c20Chan) park(seq int, data []byte) {
	d, c, w := ch.d, ch.d.c, ch.d.w
	_ = d
	dup := ch.find(seq) >= 0
	ch.buf.Reserve(len(data))
	ch.buf.Write(data)
	ch.buf.Commit(len(data))
	slot := ch.buf.Save(len(data))
	if slot.Length != len(data) {
		c.Failf("save-result", "Save(%d) returned a slot of %d bytes", len(data), slot.Length)
	}
	unsave := func() { ch.buf.Discard(slot) } // the slot just saved is the last one: its index is still exact
	if ch.seqr != nil {
		wantFullSlots := len(ch.parked) >= ch.maxSlots
		wantFullBytes := ch.bytes()+len(data) > ch.maxBytes
		ok, err := ch.seqr.Push(seq, slot)
		op := fmt.Sprintf("Push(%d, %d bytes)", seq, len(data))
		switch {
		case dup:
			w.Stat(c20pDup)
			if ok {
				c.Failf("duplicate-push-accepted", "channel %d: %s was reported as stored although sequence number %d is already parked", ch.ix, op, seq)
			}
			unsave()
		case wantFullBytes || wantFullSlots:
			if wantFullBytes {
				w.Stat(c20pCapBytes)
			} else {
				w.Stat(c20pCapSlots)
			}
			if ok || err == nil {
				c.Failf("capacity-overrun-accepted", "channel %d: %s returned (%v, %v) with %d/%d slots and %d/%d bytes in use", ch.ix, op, ok, err, len(ch.parked), ch.maxSlots, ch.bytes(), ch.maxBytes)
			}
			unsave()
		case err != nil || !ok:
			if errors.Is(err, sonic.ErrNoSpaceLeftForSlot) && ch.sinceEmpty+len(data) >= ch.maxBytes {
				// the offsetter's index space is used up because the sequencer has not been empty for a long time
				w.Stat(c20pIndexFull)
				unsave()
				break
			}
			c.Failf("push-refused-below-capacity", "channel %d: %s returned (%v, %v) with %d/%d slots and %d/%d bytes in use", ch.ix, op, ok, err, len(ch.parked), ch.maxSlots, ch.bytes(), ch.maxBytes)
		default:
			w.Stat(c20pParked)
			ch.parked = append(ch.parked, c20Parked{seq: seq, data: data})
			ch.sinceEmpty += len(data)
		}
		ch.check(op)
		return
	}
	// bare offsetter: the application keeps its own index
	if dup || len(ch.parked) >= ch.maxSlots || ch.bytes()+len(data) > ch.maxBytes {
		unsave()
		ch.check("unsave")
		return
	}
	os, err := ch.off.Add(slot)
	if err != nil {
		if ch.sinceEmpty+len(data) >= ch.maxBytes {
			w.Stat(c20pIndexFull)
			unsave()
			ch.check("Add refused")
			return
		}
		c.Failf("push-refused-below-capacity", "channel %d: SlotOffsetter.Add failed (%v) with %d bytes parked of %d", ch.ix, err, ch.bytes(), ch.maxBytes)
	}
	w.Stat(c20pParked)
	ch.parked = append(ch.parked, c20Parked{seq: seq, data: data, slot: os})
	ch.sinceEmpty += len(data)
	ch.check("Add")
}

// take retrieves and discards a parked packet; returns its bytes.
func (ch *c20Chan) take(seq int, why string) ([]byte, bool) {
	c, w := ch.d.c, ch.d.w
	i := ch.find(seq)
	var slot sonic.Slot
	if ch.seqr != nil {
		s, ok := ch.seqr.Pop(seq)
		if ok != (i >= 0) {
			c.Failf("pop-result", "channel %d: Pop(%d) returned ok=%v, the packet is parked=%v", ch.ix, seq, ok, i >= 0)
		}
		if !ok {
			return nil, false
		}
		slot = s
	} else {
		if i < 0 {
			return nil, false
		}
		slot = ch.off.Offset(ch.parked[i].slot)
	}
	want := ch.parked[i].data
	if slot.Length != len(want) {
		c.Failf("slot-length-differs", "channel %d (%s): the slot for sequence number %d is %d bytes long, %d were saved", ch.ix, why, seq, slot.Length, len(want))
	}
	if slot.Index < 0 || slot.Index+slot.Length > ch.buf.SaveLen() {
		c.Failf("slot-outside-save-area", "channel %d (%s): the slot for %d is {%d,%d}, the save area has %d bytes", ch.ix, why, seq, slot.Index, slot.Length, ch.buf.SaveLen())
	}
	got := append([]byte(nil), ch.buf.SavedSlot(slot)...)
	if !bytes.Equal(got, want) {
		c.Failf("slot-addresses-wrong-bytes", "channel %d (%s): the slot returned for sequence number %d ({%d,%d}) does not address the bytes saved under that number (%d packets parked, first difference at %d)", ch.ix, why, seq, slot.Index, slot.Length, len(ch.parked), firstDiff(got, want))
	}
	if i < len(ch.parked)-1 {
		w.Stat(c20pMidDisc)
	}
	ch.buf.Discard(slot)
	ch.parked = append(ch.parked[:i], ch.parked[i+1:]...)
	if len(ch.parked) == 0 {
		w.Stat(c20pDrained)
		ch.sinceEmpty = 0
		ch.popsNonEmpty = 0
		if ch.off != nil {
			ch.off.Reset() // what the sequencer does when it empties
		}
	} else {
		ch.popsNonEmpty++
		if ch.popsNonEmpty == 20 {
			w.Stat(c20pNever)
		}
	}
	ch.check(fmt.Sprintf("Pop+Discard(%d)", seq))
	return got, true
}

func (ch *c20Chan) deliver(seq int, data []byte) {
	c := ch.d.c
	if seq != ch.next {
		c.Failf("application-order", "channel %d: delivering %d, expected %d", ch.ix, seq, ch.next)
	}
	if !bytes.Equal(data, ch.payload(seq)) {
		c.Failf("application-data-differs", "channel %d: sequence number %d reached the application with other bytes than were published", ch.ix, seq)
	}
	ch.got = append(ch.got, seq)
	ch.next++
}

func (ch *c20Chan) onPacket(p []byte) {
	if len(p) < 8 {
		return
	}
	seq := int(binary.BigEndian.Uint32(p))
	switch {
	case seq < ch.next:
		return // old duplicate
	case seq == ch.next:
		ch.deliver(seq, append([]byte(nil), p...))
		for {
			data, ok := ch.take(ch.next, "gap closed")
			if !ok {
				break
			}
			ch.deliver(ch.next, data)
		}
	default:
		ch.park(seq, append([]byte(nil), p...))
	}
}

func (ch *c20Chan) arm() {
	ch.peer.AsyncRead(ch.rbuf, func(err error, n int, _ netip.AddrPort) {
		if err != nil {
			if err == sonicerrors.ErrWouldBlock {
				ch.arm()
				return
			}
			ch.d.c.Failf("read-failed", "channel %d: %v", ch.ix, err)
		}
		ch.onPacket(ch.rbuf[:n])
		if ch.next < ch.n {
			ch.arm()
		}
	})
}

func runC20(c *Ctx) {
	w := c.W
	ioc, err := sonic.NewIO()
	if err != nil {
		sim.Bug("NewIO: %v", err)
	}
	d := &c20{c: c, w: w, ioc: ioc}
	defer ioc.Close()
	w.EnableFaults(sim.FDgramLoss, sim.FDgramDup, sim.FDgramReorder, sim.FDelay)
	w.ForceFault(sim.FDgramReorder, w.Pick(3, 2, 6))
	w.UDPQueueCap = 4096
	nch := w.Range(1, 3)
	for i := 0; i < nch; i++ {
		ch := &c20Chan{d: d, ix: i, group: [4]byte{239, 9, 9, byte(1 + i)}, port: 6100 + i, withheld: -1}
		ch.n = w.Range(5, 150)
		// any number is a legal limit, not only the ones an allocator's size classes happen to hit exactly
		ch.maxSlots = w.Pick(32, 2, 4, 8, w.Range(1, 60), w.Range(1, 60))
		ch.maxBytes = w.Pick(4096, 256, 1024, 1<<16, w.Range(64, 6000), w.Range(64, 6000))
		ch.buf = sonic.NewByteBuffer()
		if w.Chance(1, 4) {
			ch.off = sonic.NewSlotOffsetter(ch.maxBytes)
		} else {
			ch.seqr = sonic.NewSlotSequencer(ch.maxSlots, ch.maxBytes)
		}
		if w.Chance(1, 2) && ch.n > 10 {
			ch.withheld = w.Range(1, ch.n/2) // a long-lived gap: the sequencer stays non-empty
		}
		p, err := multicast.NewUDPPeer(ioc, "udp", fmt.Sprintf(":%d", ch.port))
		if err != nil {
			sim.Bug("NewUDPPeer: %v", err)
		}
		if err := p.Join(multicast.IP(ipStr(ch.group))); err != nil {
			sim.Bug("Join: %v", err)
		}
		ch.peer = p
		ch.rbuf = make([]byte, 2048)
		d.chans = append(d.chans, ch)
		ch.arm()
	}
	defer func() {
		for _, ch := range d.chans {
			ch.peer.Close()
		}
	}()
	send := func(ch *c20Chan, seq int) {
		w.K.ActorUDPSend(sim.Dgram{ID: 1 + seq + 1000*ch.ix, Data: ch.payload(seq), SrcIP: [4]byte{10, 0, 0, 7}, SrcPort: 4000, DstIP: ch.group, DstPort: ch.port}, "eth0")
	}
	// the publisher: bursts of consecutive packets
	pos := make([]int, nch)
	for round := 0; round < 4000; round++ {
		alive := false
		for i, ch := range d.chans {
			if pos[i] < ch.n {
				alive = true
				for k, n := 0, w.Range(1, 6); k < n && pos[i] < ch.n; k++ {
					if pos[i] != ch.withheld {
						send(ch, pos[i])
					}
					pos[i]++
				}
			}
		}
		w.Advance(int64(w.Pick(100_000, 0, 2_000_000)))
		for k := 0; k < 8; k++ {
			if _, err := ioc.PollOne(); err != nil {
				break
			}
		}
		// the application also expires parked packets it no longer wants, in any order
		for _, ch := range d.chans {
			if len(ch.parked) > 1 && w.Chance(1, 25) {
				victim := ch.parked[w.Choose(len(ch.parked))].seq
				w.Stat(c20pExpire)
				ch.take(victim, "expired")
			}
		}
		if !alive {
			break
		}
	}
	// retransmission: after a virtual time-out the gaps are filled until every channel is complete
	for round := 0; round < 3000; round++ {
		done := true
		for _, ch := range d.chans {
			if ch.next < ch.n {
				done = false
				// resend what the receiver is waiting for, and a little beyond
				for s := ch.next; s < ch.n && s < ch.next+3; s++ {
					if ch.find(s) < 0 {
						send(ch, s)
					}
				}
			}
		}
		if done {
			break
		}
		w.Advance(5_000_000)
		for k := 0; k < 16; k++ {
			if _, err := ioc.PollOne(); err != nil {
				break
			}
		}
	}
	for _, ch := range d.chans {
		if ch.next != ch.n {
			c.Failf("feed-incomplete", "channel %d: the application received %d of %d packets although every gap was retransmitted", ch.ix, ch.next, ch.n)
		}
		if len(ch.parked) != 0 {
			c.Failf("packets-left-parked", "channel %d: %d packets are still parked after the feed completed", ch.ix, len(ch.parked))
		}
		ch.check("end")
	}
}
