package scen

import (
	"bytes"
	"fmt"

	"github.com/talostrading/sonic/codec/websocket"

	shimnet "sonicverif/shim/net"
	"sonicverif/sim"
)

// C17 WebSocket reads and writes in flight together each complete exactly once.

func init() {
	Register("C17", &Scenario{Name: "duplex-random", Weight: 10, Run: func(c *Ctx, v int) { runC17(c, -1) }})
	Register("C17", &Scenario{Name: "duplex-directed", Directed: 6, Run: func(c *Ctx, v int) { runC17(c, v) }})
}

var (
	c17pBoth        = sim.RegStat("probe:c17-read-and-write-in-flight-together")
	c17pWriteOnPong = sim.RegStat("probe:c17-app-write-started-while-control-reply-flush-pending")
	c17pReadOnWrite = sim.RegStat("probe:c17-read-started-while-app-write-in-flight")
	c17pPong        = sim.RegStat("probe:c17-automatic-pong")
	c17pChainMany   = sim.RegStat("probe:c17-handler-started-a-second-operation")
	c17pManyWr      = sim.RegStat("probe:c17-second-app-write-started-while-one-is-in-flight")
	c17pChainRW     = sim.RegStat("probe:c17-write-started-from-inside-a-read-completion")
	c17pChainRR     = sim.RegStat("probe:c17-read-started-from-inside-a-read-completion")
	c17pChainWW     = sim.RegStat("probe:c17-write-started-from-inside-a-write-completion")
	c17pChainWR     = sim.RegStat("probe:c17-read-started-from-inside-a-write-completion")
)

type c17Op struct {
	id            int
	kind          string
	calls         int
	err           error
	frame         websocket.Frame
	mt            websocket.MessageType
	n             int
	buf           []byte
	closedAtStart bool
	nested        bool  // started from inside a completion callback
	wireEnd       int64 // frame-carrying writes: encoded size of all application frames up to and including this one
}

type c17 struct {
	*wsSess
	ops      []*c17Op
	rd       *c17Op
	wrs      int       // application writes (AsyncWrite, AsyncWriteFrame, AsyncFlush, AsyncClose) in flight
	maxWr    int       // how many of them the application keeps in flight at once
	sent     []wsFrame // what the peer sent, in order
	consumed int       // how many of them completed reads have covered
	appOut   []wsFrame // application frames in submission order
	pongs    [][]byte  // payloads of pings the read path has consumed
	closed   bool
	writeSeq []int // completion order of application writes (op ids)
	chain    int   // how many more operations completion callbacks may start themselves
	depth    int   // completion callbacks on the stack
	appBytes int64 // encoded size of the application frames submitted so far
	acc0     int64 // bytes the client's socket had accepted when the session became active
}

func (d *c17) newOp(kind string) *c17Op {
	op := &c17Op{id: len(d.ops), kind: kind, closedAtStart: d.closed, nested: d.depth > 0}
	d.ops = append(d.ops, op)
	d.w.Tracef("c17 op %d %s start (reads in flight %v, writes in flight %d, pending control frames %d)", op.id, kind, d.rd != nil, d.wrs, d.ws.Pending())
	return op
}

// accepted: bytes of this session the client's socket has taken from sonic so far.
func (d *c17) accepted() int64 { return d.srv.end.Peer().Accepted - d.acc0 }

// submit accounts for an application frame with n payload bytes (masked client frame).
func (d *c17) submit(op *c17Op, n int) {
	h := 2 + 4
	if n > 65535 {
		h += 8
	} else if n > 125 {
		h += 2
	}
	d.appBytes += int64(h + n)
	op.wireEnd = d.appBytes
}

func (d *c17) done(op *c17Op) {
	op.calls++
	if op.err == nil && op.wireEnd > 0 && d.accepted() < op.wireEnd {
		// frames go out in submission order, control replies only add bytes: when this write is reported done
		// the transport must have taken at least every application frame up to it
		d.c.Failf("completed-before-its-frame-was-written/"+op.kind, "%s (op %d) completed with nil although the transport has taken only %d bytes and the application frames up to this one need %d", op.kind, op.id, d.accepted(), op.wireEnd)
	}
	d.w.Tracef("c17 op %d %s complete #%d err=%v", op.id, op.kind, op.calls, op.err)
	if op.calls > 1 {
		d.c.Failf("callback-invoked-twice/"+op.kind, "the callback of %s (op %d) was invoked %d times", op.kind, op.id, op.calls)
	}
}

// chainFrom: what handlers usually do - the completion callback starts the next operation itself.
func (d *c17) chainFrom(read bool) {
	w := d.w
	// a handler may start several operations: the next read and an echo, two writes, a write and a flush
	for k := 0; k < 3; k++ {
		if d.chain <= 0 || d.closed {
			return
		}
		switch w.Choose(4) {
		case 0:
			return
		case 1:
			if d.rd == nil {
				d.chain--
				if read {
					w.Stat(c17pChainRR)
				} else {
					w.Stat(c17pChainWR)
				}
				d.startRead()
			}
		case 2, 3:
			if d.wrs < d.maxWr {
				d.chain--
				if read {
					w.Stat(c17pChainRW)
				} else {
					w.Stat(c17pChainWW)
				}
				if k > 0 {
					w.Stat(c17pChainMany)
				}
				d.startWrite(w.Choose(3))
			}
		}
	}
}

// flushPending: a control reply (Pong/Close) is queued or being flushed.
func (d *c17) flushPending() bool { return d.ws.Pending() > 0 }

func (d *c17) waitRead() {
	for i := 0; d.rd != nil; i++ {
		if i > 3000 {
			d.c.Failf("callback-dropped/"+d.rd.kind, "%s never completed although the peer's frame was delivered and the loop was run", d.rd.kind)
		}
		d.pump()
	}
}

func (d *c17) startRead() { d.startReadKind(d.w.Chance(1, 2)) }

func (d *c17) startReadKind(frame bool) {
	if d.rd != nil {
		return
	}
	w := d.w
	if d.wrs > 0 {
		w.Stat(c17pReadOnWrite)
	}
	if frame {
		op := d.newOp("AsyncNextFrame")
		d.rd = op
		d.ws.AsyncNextFrame(func(err error, f websocket.Frame) {
			op.err = err
			if f != nil {
				op.frame = append(websocket.Frame(nil), f...)
			}
			d.done(op)
			d.rd = nil
			d.onRead(op)
			d.depth++
			d.chainFrom(true)
			d.depth--
		})
	} else {
		op := d.newOp("AsyncNextMessage")
		op.buf = make([]byte, 4096)
		d.rd = op
		d.ws.AsyncNextMessage(op.buf, func(err error, n int, mt websocket.MessageType) {
			op.err, op.n, op.mt = err, n, mt
			d.done(op)
			d.rd = nil
			d.onRead(op)
			d.depth++
			d.chainFrom(true)
			d.depth--
		})
	}
	if d.rd != nil && d.wrs > 0 {
		w.Stat(c17pBoth)
	}
}

// onRead matches a completed read against what the peer sent.
func (d *c17) onRead(op *c17Op) {
	c := d.c
	if op.err != nil {
		if d.closed {
			return
		}
		c.Failf("read-failed-on-healthy-transport/"+op.kind, "%s failed with %v although the transport is healthy and the peer conforms", op.kind, op.err)
	}
	next := func() wsFrame {
		if d.consumed >= len(d.sent) {
			c.Failf("read-delivered-more-than-sent/"+op.kind, "%s completed although the peer has sent nothing more", op.kind)
		}
		f := d.sent[d.consumed]
		d.consumed++
		if f.Opcode == wsPing && op.kind == "AsyncNextFrame" && !op.closedAtStart {
			d.pongs = append(d.pongs, f.Payload)
			d.w.Stat(c17pPong)
		}
		return f
	}
	if op.kind == "AsyncNextFrame" {
		f := next()
		if byte(op.frame.Opcode()) != f.Opcode || !bytes.Equal(op.frame.Payload(), f.Payload) {
			c.Failf("read-result-differs/"+op.kind, "AsyncNextFrame delivered opcode %d with %d bytes; the peer's next frame is opcode %d with %d bytes", op.frame.Opcode(), len(op.frame.Payload()), f.Opcode, len(f.Payload))
		}
		return
	}
	for {
		f := next()
		if f.Opcode >= 8 {
			continue
		}
		if byte(op.mt) != f.Opcode || !bytes.Equal(op.buf[:op.n], f.Payload) {
			c.Failf("read-result-differs/"+op.kind, "AsyncNextMessage delivered type %d with %d bytes; the peer's next message is type %d with %d bytes", op.mt, op.n, f.Opcode, len(f.Payload))
		}
		return
	}
}

func (d *c17) startWrite(kind int) {
	if d.wrs >= d.maxWr || d.closed {
		return
	}
	w := d.w
	if d.wrs > 0 {
		w.Stat(c17pManyWr)
	}
	if d.flushPending() {
		w.Stat(c17pWriteOnPong)
	}
	p := make([]byte, w.Pick(5, 0, 1, 200, 3000))
	w.DataBytes(p)
	fin := func(op *c17Op) func(error) {
		return func(err error) {
			op.err = err
			d.done(op)
			d.wrs--
			if !op.nested {
				d.writeSeq = append(d.writeSeq, op.id)
			}
			if err != nil {
				d.c.Failf("write-failed-on-healthy-transport/"+op.kind, "%s failed with %v although the transport is healthy", op.kind, err)
			}
			d.depth++
			d.chainFrom(false)
			d.depth--
		}
	}
	switch kind {
	case 0:
		op := d.newOp("AsyncWrite")
		d.wrs++
		d.appOut = append(d.appOut, wsFrame{Fin: true, Opcode: wsBinary, Payload: p})
		d.submit(op, len(p))
		d.ws.AsyncWrite(p, websocket.TypeBinary, fin(op))
	case 1:
		op := d.newOp("AsyncWriteFrame")
		d.wrs++
		f := d.ws.AcquireFrame()
		f.SetFIN().SetText().SetPayload(p)
		d.appOut = append(d.appOut, wsFrame{Fin: true, Opcode: wsText, Payload: p})
		d.submit(op, len(p))
		d.ws.AsyncWriteFrame(f, fin(op))
	case 2:
		op := d.newOp("AsyncFlush")
		d.wrs++
		d.ws.AsyncFlush(fin(op))
	case 3:
		op := d.newOp("AsyncClose")
		d.wrs++
		d.closed = true
		d.appOut = append(d.appOut, wsFrame{Fin: true, Opcode: wsClose, Payload: wsClosePayload(1000, "")})
		d.submit(op, 2)
		d.ws.AsyncClose(websocket.CloseNormal, "", fin(op))
	}
	if d.rd != nil && d.wrs > 0 {
		w.Stat(c17pBoth)
	}
}

func (d *c17) peer(kind int) {
	w := d.w
	var f wsFrame
	switch kind {
	case 0:
		p := make([]byte, w.Pick(4, 0, 126, 900))
		w.DataBytes(p)
		f = wsFrame{Fin: true, Opcode: byte(w.Pick(wsBinary, wsText)), Payload: p}
	case 1:
		p := make([]byte, w.Pick(3, 0, 125))
		w.DataBytes(p)
		f = wsFrame{Fin: true, Opcode: wsPing, Payload: p}
	case 2:
		f = wsFrame{Fin: true, Opcode: wsPong, Payload: []byte("u")}
	}
	d.sent = append(d.sent, f)
	d.feed(wsEncode(f, -1, -1), nil)
}

func runC17(c *Ctx, variant int) {
	w := c.W
	d := &c17{wsSess: newWsSess(c), maxWr: 1}
	defer d.close()
	if variant < 0 {
		w.EnableFaults(sim.FSegment, sim.FShortRead, sim.FDelay, sim.FEpollPermute)
		w.TCPSndCap = w.Pick(1<<20, 16, 200, 4096)
	}
	d.connect()
	if variant < 0 && w.Chance(1, 3) {
		// after the handshake (net/http rightly refuses a writer that accepts a prefix without an error): the
		// transport under the adapter accepts writes in parts
		shimnet.ShortWrites = true
	}
	d.acc0 = d.srv.end.Peer().Accepted
	// the message API hands control frames to this callback as it consumes them
	d.ws.SetControlCallback(func(t websocket.MessageType, p []byte) {
		if byte(t) == wsPing && !d.closed {
			d.pongs = append(d.pongs, append([]byte(nil), p...))
			w.Stat(c17pPong)
		}
	})
	if variant >= 0 {
		switch variant {
		case 0: // the finding-16 shape: ping consumed, next read queues the Pong flush, app write before the poll
			d.peer(1)
			d.startReadKind(true)
			d.waitRead()
			d.peer(0)
			d.startReadKind(true) // flushes the Pong first: waits for writability
			d.startWrite(0)
		case 1:
			d.startWrite(0)
			d.peer(0)
			d.startRead()
		case 2:
			d.peer(1)
			d.peer(1)
			d.startRead()
			d.startWrite(1)
		case 3:
			d.peer(1)
			d.startReadKind(true)
			d.waitRead()
			d.startWrite(2)
			d.peer(0)
			d.startRead()
		case 4:
			d.peer(0)
			d.startRead()
			d.startWrite(3)
		case 5:
			d.peer(1)
			d.startReadKind(true)
			d.waitRead()
			d.peer(0)
			d.startReadKind(true)
			d.startWrite(3)
		}
	} else {
		d.chain = w.Pick(0, 2, 6)
		d.maxWr = w.Pick(1, 2, 4)
		steps := w.Range(3, c.Deep(20))
		for i := 0; i < steps; i++ {
			switch w.Choose(10) {
			case 0, 1, 2:
				d.startRead()
			case 3, 4:
				d.startWrite(w.Choose(3))
			case 5, 6:
				d.peer(w.Pick(0, 1, 0, 2))
			case 7, 8:
				d.pump()
			case 9:
				if i > steps/2 && w.Chance(1, 3) {
					d.startWrite(3)
				}
			}
		}
	}
	// --- quiescence: the peer satisfies the pending read, the loop is polled
	peerClosed := false
	for round := 0; round < 600 && (d.rd != nil || d.wrs > 0); round++ {
		if d.rd != nil && !d.closed && (d.consumed >= len(d.sent) || round%25 == 24) {
			// a message read that has only seen control frames so far needs a data frame to end
			d.peer(0)
		}
		if d.rd != nil && d.closed && !peerClosed && (d.consumed >= len(d.sent) || round%25 == 24) {
			// after our Close the peer acknowledges it; the pending read ends with it
			peerClosed = true
			f := wsFrame{Fin: true, Opcode: wsClose, Payload: wsClosePayload(1000, "")}
			d.sent = append(d.sent, f)
			d.feed(wsEncode(f, -1, -1), nil)
		}
		d.pump()
	}
	for _, op := range d.ops {
		if op.calls != 1 {
			c.Failf("callback-dropped/"+op.kind, "%s (op %d) was started, the transport stayed healthy and the loop was run, yet its callback was invoked %d times", op.kind, op.id, op.calls)
		}
	}
	for i := 1; i < len(d.writeSeq); i++ {
		if d.writeSeq[i] < d.writeSeq[i-1] {
			c.Failf("writes-completed-out-of-order", "application write op %d completed before op %d although neither was started from inside a completion handler", d.writeSeq[i-1], d.writeSeq[i])
		}
	}
	// flush what the read path still queued, then the wire must hold whole frames, each once
	flushed := false
	d.ws.AsyncFlush(func(error) { flushed = true })
	d.waitFor(&flushed)
	for i := 0; i < 5; i++ {
		d.pump()
	}
	d.w.Drain(3_000_000_000)
	frames, rest, err := wsParseAll(d.wire())
	if err != nil || len(rest) != 0 {
		c.Failf("wire-interleaved-or-truncated", "the client's byte stream does not parse into whole frames (%v, %d trailing bytes): bytes of different frames were interleaved or a frame was cut", err, len(rest))
	}
	ai, pi := 0, 0
	for i, f := range frames {
		switch {
		case f.Opcode == wsPong:
			if pi >= len(d.pongs) {
				c.Failf("frame-repeated-or-invented/pong", "frame %d on the wire is a Pong no consumed Ping calls for (%d pings consumed)", i, len(d.pongs))
			}
			if !bytes.Equal(f.Payload, d.pongs[pi]) {
				c.Failf("pong-payload-differs", "Pong %d carries other bytes than the Ping it answers", pi)
			}
			pi++
		default:
			if ai >= len(d.appOut) {
				c.Failf("frame-repeated-or-invented/app", "frame %d on the wire (opcode %d, %d bytes) corresponds to no submitted frame: %d were submitted", i, f.Opcode, len(f.Payload), len(d.appOut))
			}
			e := d.appOut[ai]
			if f.Opcode != e.Opcode || !bytes.Equal(f.Payload, e.Payload) {
				c.Failf("app-frame-differs-or-reordered", "application frame %d on the wire is opcode %d with %d bytes; submitted: opcode %d with %d bytes", ai, f.Opcode, len(f.Payload), e.Opcode, len(e.Payload))
			}
			ai++
		}
	}
	if ai != len(d.appOut) {
		c.Failf("app-frame-missing", "%d application frames were submitted and their callbacks reported success, %d are on the wire", len(d.appOut), ai)
	}
	if pi != len(d.pongs) && !d.closed {
		c.Failf("pong-missing", "%d pings were consumed while open, %d Pongs are on the wire after the final flush", len(d.pongs), pi)
	}
	if p := d.ioc.Pending(); p != 0 {
		c.Failf("pending-not-zero", "IO.Pending()=%d with no operation in flight", p)
	}
	_ = fmt.Sprint
}
