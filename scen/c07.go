package scen

import (
	"bytes"
	"encoding/binary"
	"errors"
	"fmt"

	"github.com/talostrading/sonic"
	"github.com/talostrading/sonic/codec/websocket"
	"github.com/talostrading/sonic/sonicerrors"

	"sonicverif/sim"
)

// C07 WebSocket frame decoder is total, bounded and stays in sync.

func init() {
	Register("C07", &Scenario{Name: "decoder-corrupted-streams", Weight: 10, Run: func(c *Ctx, v int) { runC07(c) }})
	Register("C07", &Scenario{Name: "encode-decode-product", Directed: 1, Run: func(c *Ctx, v int) { runC07Product(c) }})
}

var (
	c07pTooBig    = sim.RegStat("probe:c07-declared-length-over-max")
	c07pTopBit    = sim.RegStat("probe:c07-64bit-length-with-top-bit")
	c07pGarbage   = sim.RegStat("probe:c07-random-garbage-stream")
	c07pFrames    = sim.RegStat("probe:c07-frames-decoded")
	c07pNeedMore  = sim.RegStat("probe:c07-need-more-inside-header")
	c07pBitflip   = sim.RegStat("probe:c07-bitflip-in-transit")
	c07pTruncated = sim.RegStat("probe:c07-stream-truncated-mid-frame")
)

type c07Outcome struct {
	kind int // 0 frame, 1 error(too big), 2 end (need more)
	raw  []byte
	plen uint64
}

// c07Reference decodes stream the way RFC 6455 section 5.2 lays frames out.
func c07Reference(stream []byte, max int) []c07Outcome {
	var out []c07Outcome
	b := stream
	for {
		if len(b) < 2 {
			return append(out, c07Outcome{kind: 2})
		}
		off := 2
		var n uint64
		switch l7 := b[1] & 0x7f; l7 {
		case 126:
			if len(b) < 4 {
				return append(out, c07Outcome{kind: 2})
			}
			n = uint64(binary.BigEndian.Uint16(b[2:]))
			off = 4
		case 127:
			if len(b) < 10 {
				return append(out, c07Outcome{kind: 2})
			}
			n = binary.BigEndian.Uint64(b[2:])
			off = 10
		default:
			n = uint64(l7)
		}
		if n > uint64(max) {
			return append(out, c07Outcome{kind: 1, plen: n})
		}
		if b[1]&0x80 != 0 {
			off += 4
		}
		if uint64(len(b)) < uint64(off)+n {
			return append(out, c07Outcome{kind: 2})
		}
		end := off + int(n)
		out = append(out, c07Outcome{kind: 0, raw: b[:end], plen: n})
		b = b[end:]
	}
}

// c07Run feeds stream in the given pieces through the production read path
// (CodecConn over a transport) and records sonic's outcomes.
func c07Run(c *Ctx, stream []byte, cuts []int, max int, partial bool) (outs []c07Outcome, capSeen int) {
	src := sonic.NewByteBuffer()
	dst := sonic.NewByteBuffer()
	src.Reserve(4096)
	codec := websocket.NewFrameCodec(src, dst, max)
	mem := &memStream{w: c.W, Partial: partial}
	prev := 0
	for _, cu := range cuts {
		if cu > prev && cu < len(stream) {
			mem.chunks = append(mem.chunks, append([]byte(nil), stream[prev:cu]...))
			prev = cu
		}
	}
	mem.chunks = append(mem.chunks, append([]byte(nil), stream[prev:]...))
	conn, err := sonic.NewCodecConn[websocket.Frame, websocket.Frame](mem, codec, src, dst)
	if err != nil {
		sim.Bug("NewCodecConn: %v", err)
	}
	for i := 0; ; i++ {
		if i > 100000 {
			c.Failf("decoder-does-not-terminate", "ReadNext keeps returning frames beyond the input")
		}
		f, err := conn.ReadNext()
		if src.Cap() > capSeen {
			capSeen = src.Cap()
		}
		if err == nil {
			outs = append(outs, c07Outcome{kind: 0, raw: append([]byte(nil), f...), plen: uint64(f.PayloadLength())})
			continue
		}
		if errors.Is(err, sonicerrors.ErrWouldBlock) {
			outs = append(outs, c07Outcome{kind: 2})
			return
		}
		outs = append(outs, c07Outcome{kind: 1})
		return
	}
}

func c07Compare(c *Ctx, label string, want, got []c07Outcome, max int) {
	for i := 0; i < len(want); i++ {
		if i >= len(got) {
			c.Failf("decoder-stopped-early", "%s: the reference decodes %d outcomes, sonic stopped after %d", label, len(want), len(got))
		}
		wv, gv := want[i], got[i]
		if wv.kind != gv.kind {
			names := []string{"frame", "error", "need-more"}
			sig := "decoder-outcome-differs/" + names[wv.kind] + "-vs-" + names[gv.kind]
			c.Failf(sig, "%s: at outcome %d the reference says %s (declared payload %d, max %d), sonic says %s", label, i, names[wv.kind], wv.plen, max, names[gv.kind])
		}
		if wv.kind == 0 && !bytes.Equal(wv.raw, gv.raw) {
			c.Failf("decoded-frame-differs", "%s: frame %d: reference %d bytes (header % x), sonic returned %d bytes (header % x)", label, i, len(wv.raw), head4(wv.raw), len(gv.raw), head4(gv.raw))
		}
	}
	if len(got) > len(want) {
		c.Failf("decoder-invented-outcomes", "%s: the reference decodes %d outcomes, sonic produced %d", label, len(want), len(got))
	}
}

func head4(b []byte) []byte {
	if len(b) > 4 {
		return b[:4]
	}
	return b
}

var c07pNearCap = sim.RegStat("probe:c07-frame-ends-within-20-bytes-of-a-buffer-size")

func runC07(c *Ctx) {
	w := c.W
	max := w.Pick(1000, 125, 126, 65535, 65536, 100000, 0, 1, 64, 100, 124)
	// a conforming stream...
	var stream []byte
	nFrames := w.Range(1, c.Deep(8))
	for i := 0; i < nFrames; i++ {
		size := w.Pick(5, 0, 1, 125, 126, 127, 300, max)
		if w.Chance(1, 6) {
			// the frame ends within a few bytes of the end of the read buffer (4096 to begin with; once a longer
			// frame has come through it is larger, and how much larger is the buffer's business)
			size = w.Pick(4096, 4096, 8192, 2*4096+300) - w.Range(0, 20)
			w.Stat(c07pNearCap)
		}
		if size > max {
			size = max
		}
		if size > 70000 {
			size = 70000
		}
		p := make([]byte, size)
		w.DataBytes(p)
		f := wsFrame{Fin: w.Chance(3, 4), Rsv: byte(w.Pick(0, 0, 0, 4, 2, 1, 7)), Opcode: byte(w.Choose(16)), Masked: w.Chance(1, 3), Payload: p}
		if f.Masked {
			w.DataBytes(f.Key[:])
		}
		lenBytes := -1
		if w.Chance(1, 8) {
			lenBytes = w.Pick(2, 8) // non-minimal encodings are still a frame for the decoder
			if size > 65535 {
				lenBytes = 8
			}
		}
		declared := int64(-1)
		if w.Chance(1, 10) {
			w.Stat(c07pTooBig)
			switch w.Choose(7) {
			case 0:
				declared = int64(max) + 1
			case 1:
				declared = int64(max) + 1000
			case 2:
				declared = 1 << 28
			case 3:
				declared = 1 << 62
			case 4:
				declared = -1 << 63 // 2^63: top bit set
				w.Stat(c07pTopBit)
			case 5:
				declared = -1<<63 + 5
				w.Stat(c07pTopBit)
			case 6:
				declared = -2 // 2^64-2
				w.Stat(c07pTopBit)
			}
			if declared < 0 || declared > 65535 {
				lenBytes = 8
			} else if declared > 125 {
				lenBytes = 2
			}
			enc := wsEncodeDeclared(f, lenBytes, uint64(declared))
			stream = append(stream, enc...)
			continue
		}
		stream = append(stream, wsEncode(f, lenBytes, declared)...)
	}
	// ...corrupted in transit
	switch w.Choose(6) {
	case 0: // untouched
	case 1:
		for i, n := 0, w.Range(1, 4); i < n && len(stream) > 0; i++ {
			stream[w.Choose(len(stream))] ^= 1 << uint(w.Choose(8))
			w.Stat(c07pBitflip)
		}
	case 2:
		if len(stream) > 1 {
			stream = stream[:w.Range(1, len(stream)-1)]
			w.Stat(c07pTruncated)
		}
	case 3:
		g := make([]byte, w.Range(1, 40))
		w.DataBytes(g)
		at := w.Choose(len(stream) + 1)
		stream = append(append(append([]byte(nil), stream[:at]...), g...), stream[at:]...)
	case 4:
		g := make([]byte, w.Range(1, 300))
		w.DataBytes(g)
		stream = g
		w.Stat(c07pGarbage)
	case 5: // rewrite a length field
		if len(stream) > 10 {
			at := w.Choose(len(stream) - 9)
			stream[at+1] = stream[at+1]&0x80 | 127
			binary.BigEndian.PutUint64(stream[at+2:], w.DataU64()|uint64(w.Pick(0, 1))<<63)
		}
	}
	want := c07Reference(stream, max)
	for _, o := range want {
		if o.kind == 0 {
			w.Stat(c07pFrames)
		}
	}
	mkCuts := func() []int {
		var cuts []int
		for i, n := 0, w.Pick(0, 1, 3, 8); i < n && len(stream) > 1; i++ {
			cuts = append(cuts, w.Range(1, len(stream)-1))
		}
		if w.Chance(1, 6) { // every byte on its own
			cuts = cuts[:0]
			for i := 1; i < len(stream) && i < 400; i++ {
				cuts = append(cuts, i)
			}
		}
		sortInts(cuts)
		return cuts
	}
	var first []c07Outcome
	for pass := 0; pass < 2; pass++ {
		cuts := mkCuts()
		for _, cu := range cuts {
			if cu < 10 {
				w.Stat(c07pNeedMore)
			}
		}
		got, capSeen := c07Run(c, stream, cuts, max, w.Chance(1, 2))
		label := fmt.Sprintf("pass %d (%d cuts, stream %d bytes, max %d)", pass, len(cuts), len(stream), max)
		c07Compare(c, label, want, got, max)
		if limit := 4*(max+14) + 3*4096 + 2*len(stream); capSeen > limit {
			c.Failf("decoder-buffers-beyond-max", "%s: the source buffer grew to %d bytes (max payload %d)", label, capSeen, max)
		}
		if pass == 0 {
			first = got
		} else if len(first) != len(got) {
			c.Failf("outcome-depends-on-segmentation", "the same bytes gave %d outcomes under one segmentation and %d under another", len(first), len(got))
		}
	}
}

// wsEncodeDeclared is wsEncode with an arbitrary 64-bit declared length.
func wsEncodeDeclared(f wsFrame, lenBytes int, declared uint64) []byte {
	b0 := f.Opcode & 0x0f
	if f.Fin {
		b0 |= 0x80
	}
	b0 |= (f.Rsv & 7) << 4
	out := []byte{b0, 0}
	if f.Masked {
		out[1] |= 0x80
	}
	switch lenBytes {
	case 2:
		out[1] |= 126
		out = binary.BigEndian.AppendUint16(out, uint16(declared))
	default:
		out[1] |= 127
		out = binary.BigEndian.AppendUint64(out, declared)
	}
	if f.Masked {
		out = append(out, f.Key[:]...)
	}
	return append(out, f.Payload...)
}

// runC07Product enumerates the finite header x length-class product: what the
// encoder produces must decode to an identical frame. (Enumeration, not
// simulation; reported separately in the evidence.)
func runC07Product(c *Ctx) {
	max := 70000
	lengths := []int{0, 1, 125, 126, 127, 65535, 65536, max - 1, max, max + 1}
	n := 0
	for fin := 0; fin < 2; fin++ {
		for rsv := 0; rsv < 8; rsv++ {
			for op := 0; op < 16; op++ {
				for masked := 0; masked < 2; masked++ {
					for _, l := range lengths {
						n++
						f := websocket.NewFrame()
						if fin == 1 {
							f.SetFIN()
						}
						if rsv&4 != 0 {
							f.SetRSV1()
						}
						if rsv&2 != 0 {
							f.SetRSV2()
						}
						if rsv&1 != 0 {
							f.SetRSV3()
						}
						f.SetOpcode(websocket.Opcode(op))
						if masked == 1 {
							f.SetIsMasked()
						}
						p := make([]byte, l)
						for i := range p {
							p[i] = byte(i*7 + op)
						}
						f.SetPayload(p)
						if masked == 1 {
							copy(f.Mask(), []byte{9, 8, 7, 6})
						}
						src := sonic.NewByteBuffer()
						dst := sonic.NewByteBuffer()
						enc := websocket.NewFrameCodec(src, dst, max)
						if err := enc.Encode(f, dst); err != nil {
							c.Failf("encode-failed", "Encode(fin=%d rsv=%d op=%d masked=%d len=%d): %v", fin, rsv, op, masked, l, err)
						}
						wire := append([]byte(nil), dst.Data()...)
						// independent check of the encoding, then decode with sonic
						rf, perr := wsParseOne(wire)
						if l <= max {
							if perr != nil || rf.WireLen != len(wire) || rf.Fin != (fin == 1) || int(rf.Rsv) != rsv || int(rf.Opcode) != op || rf.Masked != (masked == 1) || len(rf.Payload) != l {
								c.Failf("encoder-output-malformed", "Encode(fin=%d rsv=%d op=%d masked=%d len=%d) wrote %d bytes that parse as %v (%v)", fin, rsv, op, masked, l, len(wire), rf, perr)
							}
						}
						got, _ := c07Run(c, wire, nil, max, false)
						if l > max {
							if len(got) == 0 || got[0].kind != 1 {
								c.Failf("decoder-outcome-differs/error-vs-other", "a frame of %d bytes (max %d) was not rejected", l, max)
							}
							continue
						}
						if len(got) < 1 || got[0].kind != 0 || !bytes.Equal(got[0].raw, []byte(f)) {
							c.Failf("encode-decode-not-identity", "fin=%d rsv=%d op=%d masked=%d len=%d: decoding the encoder's output does not return the same frame", fin, rsv, op, masked, l)
						}
					}
				}
			}
		}
	}
	c.Notef("encode/decode product: %d combinations enumerated (exhaustive)", n)
}
