package scen

import (
	"syscall"
	"time"

	"github.com/talostrading/sonic"
	"github.com/talostrading/sonic/sonicerrors"

	"sonicverif/sim"
)

// C04 Timer guarantees: never early, at most once, never after cancel.

type c04Sched struct {
	id        int
	repeating bool
	d         int64
	base      int64 // scheduling instant, or instant of the previous firing
	fired     int
	dead      bool // cancelled or closed with a nil return: must never fire again
	inCb      bool
}

type c04Timer struct {
	ix     int
	t      *sonic.Timer
	closed bool
	sched  *c04Sched
}

type c04 struct {
	zeroChain int // budget of zero-delay re-schedules from inside the callback (each one nests one level deeper)
	c         *Ctx
	w         *sim.World
	ioc       *sonic.IO
	timers    []*c04Timer
	nextID    int
	quiesce   bool
	depth     int // callback nesting depth (0 = top level)
	inTimer   *c04Timer
	fifo      *sim.Fifo
	file      sonic.File
	rbuf      []byte
	readArm   bool
}

var (
	c04pStale    = sim.RegStat("probe:c04-op-on-timer-expired-in-same-batch")
	c04pInlineCb = sim.RegStat("probe:c04-nonpositive-delay-inline")
	c04pDeepZero = sim.RegStat("probe:c04-zero-delay-schedule-nested-deeper-than-33")
	c04pRepeat   = sim.RegStat("probe:c04-repeating-fired>=2")
	c04pFromIO   = sim.RegStat("probe:c04-timer-op-from-io-handler")
	c04pReject   = sim.RegStat("probe:c04-schedule-while-scheduled-rejected")
)

func init() {
	Register("C04", &Scenario{Name: "timers-random", Weight: 10, Run: func(c *Ctx, v int) { runC04(c, -1) }})
	Register("C04", &Scenario{Name: "timers-directed", Directed: c04DirectedCount, Run: func(c *Ctx, v int) { runC04(c, v) }})
}

var c04Delays = []int64{1_000_000, 1, 1_000, 1_000_000_000, 3_600_000_000_000, 0, -5, 999_999, 1_000_001, 2_500_000}

func (s *c04) newTimer() *c04Timer {
	t, err := sonic.NewTimer(s.ioc)
	if err != nil {
		sim.Bug("NewTimer: %v", err)
	}
	m := &c04Timer{ix: len(s.timers), t: t}
	s.timers = append(s.timers, m)
	return m
}

func (s *c04) pickTimer() *c04Timer { return s.timers[s.w.Choose(len(s.timers))] }

func (s *c04) pickDelay() int64 {
	w := s.w
	if w.Chance(1, 4) {
		return int64(w.Range(1, 5_000_000))
	}
	return c04Delays[w.Choose(len(c04Delays))]
}

// expiredNow: the model's view of "this timer's timerfd has expired and the
// callback has not run yet" - used only for a reach probe.
func (s *c04) expiredNow(m *c04Timer) bool {
	return m.sched != nil && !m.sched.inCb && s.w.Now-m.sched.base >= m.sched.d
}

func (s *c04) callback(m *c04Timer, sc *c04Sched, beh int) func() {
	return func() {
		w := s.w
		c := s.c
		w.Tracef("c04 cb timer=%d sched=%d", m.ix, sc.id)
		if sc.dead {
			c.Failf("callback-after-cancel-or-close", "timer %d schedule %d fired at t=%d after a Cancel/Close that returned nil", m.ix, sc.id, w.Now)
		}
		if m.closed {
			c.Failf("callback-after-close", "timer %d fired after Close", m.ix)
		}
		if !sc.repeating && sc.fired > 0 {
			c.Failf("once-fired-twice", "timer %d schedule %d (once) fired %d times", m.ix, sc.id, sc.fired+1)
		}
		if el := w.Now - sc.base; el < sc.d {
			kind := "once"
			if sc.repeating {
				kind = "repeating"
			}
			c.Failf("early/"+kind, "timer %d schedule %d fired %d ns after its base instant, requested %d ns", m.ix, sc.id, el, sc.d)
		}
		if m.sched != sc {
			c.Failf("stale-schedule-fired", "timer %d: schedule %d fired but the model's current schedule is different", m.ix, sc.id)
		}
		sc.fired++
		sc.base = w.Now
		if sc.repeating && sc.fired >= 2 {
			w.Stat(c04pRepeat)
		}
		if !sc.repeating {
			m.sched = nil
		}
		sc.inCb = true
		prev := s.inTimer
		s.inTimer = m
		s.depth++
		s.behave(m, beh)
		s.depth--
		s.inTimer = prev
		sc.inCb = false
	}
}

// behave: what a handler does (to itself or to other timers).
func (s *c04) behave(self *c04Timer, beh int) {
	if s.quiesce {
		return
	}
	w := s.w
	switch beh {
	case 0: // nothing
	case 1: // cancel another (or self)
		s.doCancel(s.pickTimer())
	case 2: // close another (or self)
		s.doClose(s.pickTimer())
	case 3: // cancel and re-schedule another for a long delay
		o := s.pickTimer()
		s.doCancel(o)
		s.doScheduleOnce(o, s.pickDelay(), w.Choose(3))
	case 4: // schedule self again (once)
		if self != nil && !s.ownRepeating(self) {
			s.doScheduleOnce(self, s.pickDelay(), w.Choose(2))
		}
	case 5: // cancel self
		if self != nil {
			s.doCancel(self)
		}
	case 6: // query another
		s.checkScheduled(s.pickTimer())
	case 7: // schedule repeating on another
		if o := s.pickTimer(); !s.ownRepeating(o) {
			s.doScheduleRepeating(o, s.pickDelay(), 0)
		}
	case 8: // re-schedule itself with no delay, which runs inline, one level deeper each time; then stop the timer
		if self == nil || s.ownRepeating(self) || self.closed {
			return
		}
		if s.zeroChain > 0 {
			s.zeroChain--
			if s.depth > 33 {
				w.Stat(c04pDeepZero)
			}
			s.doScheduleOnce(self, int64(w.Pick(0, 0, -1)), 8)
			return
		}
		switch w.Choose(3) {
		case 0:
			s.doCancel(self)
		case 1:
			s.doClose(self)
		}
	}
}

// ownRepeating: m is a repeating timer whose own callback is executing. Whether
// such a timer counts as "scheduled" is ambiguous, so handlers do not schedule
// on it without cancelling first.
func (s *c04) ownRepeating(m *c04Timer) bool {
	return m.sched != nil && m.sched.repeating && m.sched.inCb
}

func (s *c04) doScheduleOnce(m *c04Timer, d int64, beh int) {
	w, c := s.w, s.c
	if m.sched != nil && s.expiredNow(m) && s.depth > 0 {
		w.Stat(c04pStale)
	}
	sc := &c04Sched{id: s.nextID, d: d, base: w.Now}
	s.nextID++
	wasScheduled := m.sched != nil
	wasClosed := m.closed
	prev := m.sched
	if !wasScheduled && !wasClosed && d > 0 {
		m.sched = sc
	}
	if !wasScheduled && !wasClosed && d <= 0 {
		// runs inline: treat as its own (immediately due) schedule
		m.sched = sc
		w.Stat(c04pInlineCb)
	}
	w.Tracef("c04 ScheduleOnce timer=%d d=%d sched=%d", m.ix, d, sc.id)
	err := m.t.ScheduleOnce(time.Duration(d), s.callback(m, sc, beh))
	switch {
	case wasClosed:
		if err == nil {
			c.Failf("schedule-on-closed-accepted", "ScheduleOnce on closed timer %d returned nil", m.ix)
		}
	case wasScheduled:
		if err == nil {
			c.Failf("schedule-while-scheduled-accepted", "ScheduleOnce on timer %d returned nil while schedule %d was pending", m.ix, prev.id)
		}
		w.Stat(c04pReject)
		if m.sched != prev && !(prev.dead || prev.fired > 0) {
			c.Failf("schedule-while-scheduled-disturbed", "timer %d: existing schedule replaced", m.ix)
		}
	case d <= 0:
		if err != nil {
			c.Failf("schedule-failed", "ScheduleOnce(%d) on ready timer %d: %v", d, m.ix, err)
		}
		if sc.fired > 1 {
			c.Failf("once-fired-twice", "ScheduleOnce(%d) ran its callback %d times before returning", d, sc.fired)
		}
		// sonic runs it before returning; the statement only asks that it runs once the loop is polled, so an
		// implementation that hands it to the loop is judged like any pending schedule: it is the timer's one
		// schedule, Scheduled() says so, Cancel and Close stop it, and it fires by the end of the run
	default:
		if err != nil {
			c.Failf("schedule-failed", "ScheduleOnce(%d) on ready timer %d: %v", d, m.ix, err)
		}
	}
}

func (s *c04) doScheduleRepeating(m *c04Timer, d int64, beh int) {
	w, c := s.w, s.c
	sc := &c04Sched{id: s.nextID, d: d, base: w.Now, repeating: true}
	s.nextID++
	wasScheduled := m.sched != nil
	wasClosed := m.closed
	prev := m.sched
	if !wasScheduled && !wasClosed && d > 0 {
		m.sched = sc
	}
	w.Tracef("c04 ScheduleRepeating timer=%d d=%d sched=%d", m.ix, d, sc.id)
	err := m.t.ScheduleRepeating(time.Duration(d), s.callback(m, sc, beh))
	switch {
	case wasClosed:
		if err == nil {
			c.Failf("schedule-on-closed-accepted", "ScheduleRepeating on closed timer %d returned nil", m.ix)
		}
	case wasScheduled:
		if err == nil {
			c.Failf("schedule-while-scheduled-accepted", "ScheduleRepeating on timer %d returned nil while schedule %d was pending", m.ix, prev.id)
		}
		w.Stat(c04pReject)
	case d <= 0:
		// documented: a non-positive interval cancels the operation
		if err == nil && sc.fired == 0 {
			// accepted without effect is tolerated; nothing may fire later
			sc.dead = true
		}
	default:
		if err != nil {
			c.Failf("schedule-failed", "ScheduleRepeating(%d) on ready timer %d: %v", d, m.ix, err)
		}
	}
}

func (s *c04) doCancel(m *c04Timer) {
	w, c := s.w, s.c
	if m.sched != nil && s.expiredNow(m) && s.depth > 0 {
		w.Stat(c04pStale)
	}
	w.Tracef("c04 Cancel timer=%d", m.ix)
	err := m.t.Cancel()
	if m.closed {
		return // return value on a closed timer is not specified; it must stay closed (checked by schedules)
	}
	if err != nil {
		c.Failf("cancel-failed", "Cancel on timer %d: %v", m.ix, err)
	}
	if m.sched != nil {
		m.sched.dead = true
		m.sched = nil
	}
}

func (s *c04) doClose(m *c04Timer) {
	w, c := s.w, s.c
	w.Tracef("c04 Close timer=%d", m.ix)
	err := m.t.Close()
	if m.closed {
		return
	}
	if err != nil {
		c.Failf("close-failed", "Close on timer %d: %v", m.ix, err)
	}
	m.closed = true
	if m.sched != nil {
		m.sched.dead = true
		m.sched = nil
	}
}

func (s *c04) checkScheduled(m *c04Timer) {
	// inside a repeating timer's own callback "still due" is ambiguous
	if s.inTimer == m && m.sched != nil && m.sched.repeating {
		return
	}
	got := m.t.Scheduled()
	want := m.sched != nil && !m.closed
	if got != want {
		s.c.Failf("scheduled-mismatch", "timer %d: Scheduled()=%v, model says callback due=%v (depth=%d)", m.ix, got, want, s.depth)
	}
}

// ---- the I/O object sharing the poll cycle

func (s *c04) armRead() {
	if s.file == nil || s.readArm {
		return
	}
	s.readArm = true
	s.file.AsyncRead(s.rbuf, func(err error, n int) {
		s.readArm = false
		if err != nil {
			return
		}
		s.w.Stat(c04pFromIO)
		s.depth++
		s.behave(nil, 1+s.w.Choose(3))
		s.depth--
		if !s.quiesce {
			s.armRead()
		}
	})
}

func (s *c04) pollIdle() {
	for i := 0; ; i++ {
		n, err := s.ioc.PollOne()
		if err == sonicerrors.ErrTimeout {
			return
		}
		if err != nil {
			s.c.Failf("poll-error", "PollOne: %v", err)
		}
		_ = n
		if i > 2000 {
			sim.Bug("c04: PollOne never goes idle")
		}
	}
}

func (s *c04) nextDeadline() int64 {
	best := int64(-1)
	for _, m := range s.timers {
		if m.sched != nil {
			dl := m.sched.base + m.sched.d
			if dl > s.w.Now && (best < 0 || dl < best) {
				best = dl
			}
		}
	}
	return best
}

func (s *c04) anyLive() bool {
	for _, m := range s.timers {
		if m.sched != nil {
			return true
		}
	}
	return false
}

const c04DirectedCount = 12

func runC04(c *Ctx, variant int) {
	w := c.W
	s := &c04{c: c, w: w}
	if variant < 0 {
		w.EnableFaults(sim.FEpollPermute, sim.FEpollTruncate, sim.FEintr)
		if w.Chance(1, 6) {
			w.K.FdBase = 4090 + w.Choose(12) // some descriptors >= 4096
		}
	}
	ioc, err := sonic.NewIO()
	if err != nil {
		sim.Bug("NewIO: %v", err)
	}
	s.ioc = ioc
	defer ioc.Close()

	if variant >= 0 {
		s.directed(variant)
		s.finish()
		return
	}

	nT := w.Range(1, 4)
	for i := 0; i < nT; i++ {
		s.newTimer()
	}
	if w.Chance(1, 2) {
		s.fifo = w.K.MkFifo("/c04fifo", 64)
		s.fifo.ActorOpenWriter()
		f, err := sonic.Open(ioc, "/c04fifo", syscall.O_RDONLY|syscall.O_NONBLOCK, 0)
		if err != nil {
			sim.Bug("Open fifo: %v", err)
		}
		s.file = f
		s.rbuf = make([]byte, 8)
		s.armRead()
	}
	s.zeroChain = w.Pick(0, 5, 40, 100)
	steps := w.Range(5, c.Deep(40))
	for i := 0; i < steps; i++ {
		switch w.Choose(12) {
		case 0, 1:
			s.doScheduleOnce(s.pickTimer(), s.pickDelay(), w.Choose(9))
		case 2:
			s.doScheduleRepeating(s.pickTimer(), s.pickDelay(), w.Pick(0, 5, 1, 2, 6))
		case 3:
			s.doCancel(s.pickTimer())
		case 4:
			if w.Chance(1, 3) {
				s.doClose(s.pickTimer())
			} else {
				s.checkScheduled(s.pickTimer())
			}
		case 5:
			s.checkScheduled(s.pickTimer())
		case 6, 7: // advance the clock
			switch w.Choose(5) {
			case 0:
				if dl := s.nextDeadline(); dl >= 0 {
					w.Advance(dl - w.Now)
				}
			case 1:
				if dl := s.nextDeadline(); dl > w.Now+1 {
					w.Advance(dl - w.Now - 1)
				}
			case 2:
				w.Advance(int64(w.Pick(1_000, 1, 1_000_000, 3_000_000, 1_000_000_000)))
			case 3:
				// jump past several deadlines so that they share a batch
				w.Advance(int64(w.Pick(5_000_000, 2_000_000_000, 4_000_000_000_000)))
			case 4:
				w.RunDue()
			}
		case 8, 9: // poll
			switch w.Choose(3) {
			case 0:
				if _, err := s.ioc.PollOne(); err != nil && err != sonicerrors.ErrTimeout {
					c.Failf("poll-error", "PollOne: %v", err)
				}
			case 1:
				if err := s.ioc.RunOneFor(time.Duration(w.Pick(1, 2, 50, 5000)) * time.Millisecond); err != nil && err != sonicerrors.ErrTimeout {
					c.Failf("poll-error", "RunOneFor: %v", err)
				}
			case 2:
				if s.anyLive() {
					if err := s.ioc.RunOne(); err != nil && err != sonicerrors.ErrTimeout {
						c.Failf("poll-error", "RunOne: %v", err)
					}
				}
			}
		case 10:
			if s.fifo != nil {
				s.fifo.ActorWrite([]byte{1})
			}
		case 11:
			if len(s.timers) < 6 {
				s.newTimer() // may reuse the number of a closed timerfd
			}
		}
	}
	s.finish()
}

// finish: bounded liveness at quiescence. Faults stop, handlers stop
// misbehaving, the clock moves past every deadline and the loop is polled.
func (s *c04) finish() {
	w, c := s.w, s.c
	s.quiesce = true
	// repeating timers must keep firing until cancelled
	for _, m := range s.timers {
		if m.sched != nil && m.sched.repeating {
			sc := m.sched
			before := sc.fired
			w.Advance(sc.base + sc.d - w.Now + 1)
			s.pollIdle()
			if m.sched == sc && sc.fired == before {
				c.Failf("repeating-stopped", "repeating timer %d (interval %d) did not fire although its interval elapsed and the loop was polled", m.ix, sc.d)
			}
			if m.sched == sc {
				s.doCancel(m)
			}
		}
	}
	for round := 0; round < 8; round++ {
		dl := int64(-1)
		for _, m := range s.timers {
			if m.sched != nil {
				if x := m.sched.base + m.sched.d; x > dl {
					dl = x
				}
			}
		}
		if dl < 0 {
			break
		}
		if dl >= w.Now {
			w.Advance(dl - w.Now + 1)
		}
		s.pollIdle()
	}
	for _, m := range s.timers {
		if m.sched != nil {
			c.Failf("never-fired", "timer %d schedule %d (d=%d, base=%d) never fired although the delay passed and the loop was polled (now=%d)", m.ix, m.sched.id, m.sched.d, m.sched.base, w.Now)
		}
		s.checkScheduled(m)
	}
	// nothing may fire afterwards
	w.Advance(10_000_000_000)
	s.pollIdle()
	if s.file != nil {
		s.file.Close()
	}
	for _, m := range s.timers {
		if !m.closed {
			s.doClose(m)
		}
	}
}

// directed variants: an earlier handler of the same batch acts on a timer
// that has already expired in that batch.
func (s *c04) directed(v int) {
	w := s.w
	a, b := s.newTimer(), s.newTimer()
	second := v % 4 // what A's handler does to B
	order := (v / 4) % 3
	if order == 1 {
		w.ForceFault(sim.FEpollPermute, 1)
	}
	// B's handler does nothing; A's handler acts on B
	act := func() {
		switch second {
		case 0:
			s.doCancel(b)
		case 1:
			s.doCancel(b)
			s.doScheduleOnce(b, 3_600_000_000_000, 0)
		case 2:
			s.doClose(b)
		case 3:
			s.doCancel(b)
			s.doScheduleRepeating(b, 1_000_000_000, 0)
		}
	}
	mk := func(m *c04Timer, other func()) {
		sc := &c04Sched{id: s.nextID, d: 1_000_000, base: w.Now}
		s.nextID++
		m.sched = sc
		inner := s.callback(m, sc, 0)
		err := m.t.ScheduleOnce(time.Duration(sc.d), func() {
			inner()
			if other != nil {
				s.depth++
				other()
				s.depth--
			}
		})
		if err != nil {
			sim.Bug("directed schedule: %v", err)
		}
	}
	if order == 2 {
		mk(b, nil)
		mk(a, act)
	} else {
		mk(a, act)
		mk(b, nil)
	}
	w.Advance(2_000_000) // both expire: one batch
	if w.K.EpollReadyCount(3) < 2 {
		// epoll fd is the first descriptor of the world
	}
	if _, err := s.ioc.PollOne(); err != nil && err != sonicerrors.ErrTimeout {
		s.c.Failf("poll-error", "PollOne: %v", err)
	}
	s.pollIdle()
	w.Advance(5_000_000)
	s.pollIdle()
}
