package scen

import (
	"crypto/sha1"
	"encoding/base64"
	"encoding/binary"
	"errors"
	"fmt"
	"strings"
)

// Independent RFC 6455 frame codec and HTTP/1.1 upgrade-request parser, written
// from the RFC; nothing here calls sonic. The simulated server emits frames
// with it and the oracles parse everything the client writes with it.

const (
	wsCont   = 0x0
	wsText   = 0x1
	wsBinary = 0x2
	wsClose  = 0x8
	wsPing   = 0x9
	wsPong   = 0xA
)

const wsGUID = "258EAFA5-E914-47DA-95CA-C5AB0DC85B11"

type wsFrame struct {
	Fin     bool
	Rsv     byte // 3 bits: RSV1=4 RSV2=2 RSV3=1
	Opcode  byte
	Masked  bool
	Key     [4]byte
	Payload []byte // unmasked
	// parse results
	LenBytes   int  // 0, 2 or 8 bytes of extended length on the wire
	NonMinimal bool // the length did not use the shortest encoding
	WireLen    int  // header + payload bytes this frame occupied
}

func (f wsFrame) isControl() bool { return f.Opcode >= 8 }

func (f wsFrame) String() string {
	return fmt.Sprintf("{fin=%v rsv=%d op=%d masked=%v len=%d}", f.Fin, f.Rsv, f.Opcode, f.Masked, len(f.Payload))
}

// wsEncode serialises a frame. lenBytes forces the length encoding (-1:
// shortest); declaredLen, if >= 0, overrides the length field (mutations).
func wsEncode(f wsFrame, lenBytes int, declaredLen int64) []byte {
	n := int64(len(f.Payload))
	if declaredLen >= 0 {
		n = declaredLen
	}
	if lenBytes < 0 {
		switch {
		case n <= 125:
			lenBytes = 0
		case n <= 65535:
			lenBytes = 2
		default:
			lenBytes = 8
		}
	}
	b0 := f.Opcode & 0x0f
	if f.Fin {
		b0 |= 0x80
	}
	b0 |= (f.Rsv & 7) << 4
	out := []byte{b0, 0}
	if f.Masked {
		out[1] |= 0x80
	}
	switch lenBytes {
	case 0:
		out[1] |= byte(n & 0x7f)
	case 2:
		out[1] |= 126
		out = binary.BigEndian.AppendUint16(out, uint16(n))
	case 8:
		out[1] |= 127
		out = binary.BigEndian.AppendUint64(out, uint64(n))
	}
	if f.Masked {
		out = append(out, f.Key[:]...)
		for i, c := range f.Payload {
			out = append(out, c^f.Key[i%4])
		}
	} else {
		out = append(out, f.Payload...)
	}
	return out
}

var errWsNeedMore = errors.New("need more bytes")

// wsParseOne parses one frame from the start of b.
func wsParseOne(b []byte) (wsFrame, error) {
	var f wsFrame
	if len(b) < 2 {
		return f, errWsNeedMore
	}
	f.Fin = b[0]&0x80 != 0
	f.Rsv = (b[0] >> 4) & 7
	f.Opcode = b[0] & 0x0f
	f.Masked = b[1]&0x80 != 0
	l7 := int(b[1] & 0x7f)
	off := 2
	var n uint64
	switch l7 {
	case 126:
		if len(b) < off+2 {
			return f, errWsNeedMore
		}
		n = uint64(binary.BigEndian.Uint16(b[off:]))
		off += 2
		f.LenBytes = 2
		f.NonMinimal = n <= 125
	case 127:
		if len(b) < off+8 {
			return f, errWsNeedMore
		}
		n = binary.BigEndian.Uint64(b[off:])
		off += 8
		f.LenBytes = 8
		f.NonMinimal = n <= 65535
	default:
		n = uint64(l7)
	}
	if n > 1<<40 {
		return f, fmt.Errorf("absurd payload length %d", n)
	}
	if f.Masked {
		if len(b) < off+4 {
			return f, errWsNeedMore
		}
		copy(f.Key[:], b[off:off+4])
		off += 4
	}
	if uint64(len(b)-off) < n {
		return f, errWsNeedMore
	}
	f.Payload = make([]byte, n)
	for i := range f.Payload {
		c := b[off+i]
		if f.Masked {
			c ^= f.Key[i%4]
		}
		f.Payload[i] = c
	}
	f.WireLen = off + int(n)
	return f, nil
}

// wsParseAll parses as many whole frames as b holds; rest is what remains.
func wsParseAll(b []byte) (frames []wsFrame, rest []byte, err error) {
	for len(b) > 0 {
		f, e := wsParseOne(b)
		if e == errWsNeedMore {
			return frames, b, nil
		}
		if e != nil {
			return frames, b, e
		}
		frames = append(frames, f)
		b = b[f.WireLen:]
	}
	return frames, nil, nil
}

func wsAcceptKey(key string) string {
	h := sha1.Sum([]byte(key + wsGUID))
	return base64.StdEncoding.EncodeToString(h[:])
}

func wsClosePayload(code int, reason string) []byte {
	b := []byte{byte(code >> 8), byte(code)}
	return append(b, reason...)
}

// ---------------------------------------------------------------------------

type httpReq struct {
	Method, Target, Proto string
	Headers               [][2]string // in wire order, names as sent
	HeaderLen             int         // bytes up to and including the blank line
}

func (r *httpReq) get(name string) []string {
	var out []string
	for _, h := range r.Headers {
		if strings.EqualFold(h[0], name) {
			out = append(out, h[1])
		}
	}
	return out
}

var errHTTPNeedMore = errors.New("request incomplete")

// parseHTTPRequest parses an HTTP/1.1 request head.
func parseHTTPRequest(b []byte) (*httpReq, error) {
	s := string(b)
	end := strings.Index(s, "\r\n\r\n")
	if end < 0 {
		return nil, errHTTPNeedMore
	}
	head := s[:end]
	lines := strings.Split(head, "\r\n")
	parts := strings.Split(lines[0], " ")
	if len(parts) != 3 {
		return nil, fmt.Errorf("malformed request line %q", lines[0])
	}
	r := &httpReq{Method: parts[0], Target: parts[1], Proto: parts[2], HeaderLen: end + 4}
	for _, l := range lines[1:] {
		i := strings.IndexByte(l, ':')
		if i <= 0 {
			return nil, fmt.Errorf("malformed header line %q", l)
		}
		name := l[:i]
		if strings.ContainsAny(name, " \t") {
			return nil, fmt.Errorf("whitespace in header name %q", name)
		}
		r.Headers = append(r.Headers, [2]string{name, strings.Trim(l[i+1:], " \t")})
	}
	return r, nil
}
