package scen

import (
	"bytes"

	"github.com/talostrading/sonic/codec/websocket"
	"sonicverif/sim"
)

// C17, sixth round of seeds: the read in flight ends by itself - the peer's message does not fit the caller's
// buffer, the stream reports ErrMessageTooBig and starts its own Close - while an application write is still
// waiting for the transport. Both complete exactly once and the application frame is on the wire exactly once, whole,
// before the Close frame.

var c17pTooBig = sim.RegStat("probe:c17-message-too-big-while-an-application-write-is-in-flight")

func init() {
	Register("C17", &Scenario{Name: "toobig-with-write-in-flight", Weight: 2, Directed: 4, Run: func(c *Ctx, v int) { runC17TooBig(c, v) }})
}

func runC17TooBig(c *Ctx, v int) {
	w := c.W
	d := &c17{wsSess: newWsSess(c), maxWr: 1}
	defer d.close()
	if v < 0 {
		w.EnableFaults(sim.FSegment, sim.FShortRead, sim.FDelay)
		w.TCPSndCap = w.Pick(16, 200, 4096, 1<<20)
	} else {
		w.TCPSndCap = []int{16, 200, 4096, 1 << 20}[v%4]
	}
	d.connect()
	buf := make([]byte, w.Pick(64, 1000, 4096))
	rdCalls, wrCalls := 0, 0
	var rdErr, wrErr error
	d.ws.AsyncNextMessage(buf, func(err error, n int, mt websocket.MessageType) { rdCalls++; rdErr = err })
	p := make([]byte, w.Pick(10, 300, 3000))
	w.DataBytes(p)
	if w.Chance(1, 2) {
		d.ws.AsyncWrite(p, websocket.TypeBinary, func(err error) { wrCalls++; wrErr = err })
	} else {
		f := d.ws.AcquireFrame()
		f.SetFIN().SetBinary().SetPayload(p)
		d.ws.AsyncWriteFrame(f, func(err error) { wrCalls++; wrErr = err })
	}
	if wrCalls == 0 {
		w.Stat(c17pTooBig)
	}
	big := make([]byte, len(buf)+1+w.Choose(100))
	w.DataBytes(big)
	d.feed(wsEncode(wsFrame{Fin: true, Opcode: wsBinary, Payload: big}, -1, -1), nil)
	for i := 0; i < 3000 && (rdCalls == 0 || wrCalls == 0); i++ {
		d.pump()
	}
	for i := 0; i < 20; i++ {
		d.pump()
	}
	if rdCalls != 1 {
		c.Failf("callback-dropped/AsyncNextMessage", "AsyncNextMessage with a %d-byte buffer and a %d-byte message from the peer: callback invoked %d times", len(buf), len(big), rdCalls)
	}
	if wrCalls != 1 {
		c.Failf("callback-dropped/AsyncWrite", "an application write in flight when the stream closed itself over a too-big message: callback invoked %d times", wrCalls)
	}
	if rdErr == nil {
		c.Failf("read-result-differs/AsyncNextMessage", "a %d-byte message was reported as success into a %d-byte buffer", len(big), len(buf))
	}
	flushed := false
	d.ws.AsyncFlush(func(error) { flushed = true })
	d.waitFor(&flushed)
	for i := 0; i < 5; i++ {
		d.pump()
	}
	w.Drain(3_000_000_000)
	frames, rest, err := wsParseAll(d.wire())
	if err != nil || len(rest) != 0 {
		c.Failf("wire-interleaved-or-truncated", "the client's byte stream does not parse into whole frames (%v, %d trailing bytes): bytes of different frames were interleaved or a frame was cut", err, len(rest))
	}
	app, closes := 0, 0
	for i, f := range frames {
		switch {
		case f.Opcode == wsClose:
			closes++
		case f.Opcode == wsBinary && bytes.Equal(f.Payload, p):
			app++
			if closes > 0 {
				c.Failf("data-frame-after-close-frame", "frame %d, the application's frame, follows the stream's own Close frame on the wire", i)
			}
		default:
			c.Failf("frame-repeated-or-invented/app", "frame %d on the wire (opcode %d, %d bytes) corresponds to no submitted frame", i, f.Opcode, len(f.Payload))
		}
	}
	if app > 1 {
		c.Failf("frame-repeated-or-invented/app", "the application frame submitted once is on the wire %d times", app)
	}
	if wrErr == nil && app != 1 {
		c.Failf("app-frame-missing", "the application write reported success, the frame is on the wire %d times", app)
	}
	if closes > 1 {
		c.Failf("frame-repeated-or-invented/close", "%d Close frames on the wire", closes)
	}
}
