package scen

import (
	"bytes"
	"io"

	"github.com/talostrading/sonic"
	"github.com/talostrading/sonic/sonicerrors"

	"sonicverif/sim"
)

// C02, the buffer-mediated path (byte_buffer.go is one of the property's
// anchors): an application that moves its stream through a sonic.ByteBuffer -
// WriteTo / AsyncWriteTo to send what it has queued, ReadFrom / AsyncReadFrom to
// receive - over a dialled, an accepted and an adapted connection whose kernel
// buffers are small, so that a transfer is cut by would-block in the middle and
// the buffer carries the rest into the next call. What the peer receives must be
// the stream once, in order; what a call reports must be what left (entered)
// the buffer.

func init() {
	Register("C02", &Scenario{Name: "through-a-bytebuffer", Weight: 3, Run: func(c *Ctx, v int) { runC02Relay(c) }})
}

var (
	c02pRelayWouldBlock = sim.RegStat("probe:c02-bytebuffer-writeto-cut-by-would-block-with-bytes-accepted")
	c02pRelayRetry      = sim.RegStat("probe:c02-bytebuffer-writeto-resumed-with-leftover")
	c02pRelayAsyncDefer = sim.RegStat("probe:c02-bytebuffer-asyncwriteto-completed-by-the-poller")
	c02pRelayRead       = sim.RegStat("probe:c02-bytebuffer-readfrom-delivered-bytes")
)

func runC02Relay(c *Ctx) {
	w := c.W
	w.EnableFaults(sim.FEpollPermute, sim.FSegment, sim.FDelay, sim.FShortRead, sim.FShortWrite, sim.FEintr)
	w.TCPSndCap = w.Pick(1<<20, 7, 64, 1024, 65536)
	w.TCPRcvCap = w.Pick(1<<20, 7, 64, 1024, 65536)
	w.ActorRcvCap = w.Pick(0, 1, 100, 5000)
	s := newLoop(c)
	s.checkData = true
	defer s.closeAll()
	sz := &c02{loop: s}
	kind := []lKind{lkConnDial, lkConnAcc, lkAdapter}[w.Choose(3)]
	o := s.addObj(kind)
	// the stub net.Conn underneath an adapter blocks in Read/Write like a real one: only the asynchronous calls go
	// through it
	syncOK := kind != lkAdapter
	ob, ib := sonic.NewByteBuffer(), sonic.NewByteBuffer()
	var appended, sent, recvd int64
	leftover := false

	polls := func(done *bool, what string, budget int64) {
		for i := int64(0); !*done; {
			if i > budget {
				c.Failf("relay-never-completes", "%s never invoked its callback although the peer keeps reading and writing", what)
			}
			s.peerDrain(o, 1<<20)
			if w.Chance(1, 2) {
				w.RunDue()
			} else {
				w.Drain(5_000_000_000) // whatever is in flight arrives: every such round moves at least one byte
				i++
			}
			s.poll(w.Choose(3))
		}
	}
	afterWrite := func(what string, n int64, err error) {
		if n < 0 || n > appended-sent {
			c.Failf("relay-count", "%s reported %d bytes with %d queued", what, n, appended-sent)
		}
		sent += n
		if got := int64(ob.ReadLen()); got != appended-sent {
			c.Failf("relay-buffer-keeps-or-drops-bytes", "%s reported (%d, %v): %d bytes were queued in all and %d have been reported written, yet %d are still in the buffer - what stays behind is sent again, what is dropped is lost", what, n, err, appended, sent, got)
		}
	}
	flushSync := func() bool {
		if leftover && ob.ReadLen() > 0 {
			w.Stat(c02pRelayRetry)
		}
		n, err := ob.WriteTo(o.fd)
		afterWrite("ByteBuffer.WriteTo", n, err)
		switch {
		case err == nil:
			// whether a call that reports no error must have written everything is CodecConn's contract (C19), not
			// this property's: what is left is simply sent by the next call
			leftover = ob.ReadLen() > 0
		case err == sonicerrors.ErrWouldBlock:
			if n > 0 {
				w.Stat(c02pRelayWouldBlock)
			}
			leftover = ob.ReadLen() > 0
		default:
			c.Failf("relay-write-error", "ByteBuffer.WriteTo on a healthy connection: (%d, %v)", n, err)
		}
		return err == nil && n > 0
	}
	flushAsync := func() {
		want := appended - sent
		done, returned, inline := false, false, false
		var gn int
		var gerr error
		ob.AsyncWriteTo(o.fd, func(err error, n int) { done, gn, gerr, inline = true, n, err, !returned })
		returned = true
		polls(&done, "ByteBuffer.AsyncWriteTo", 20000+4*want)
		if !inline {
			w.Stat(c02pRelayAsyncDefer)
		}
		if gerr != nil {
			c.Failf("relay-write-error", "ByteBuffer.AsyncWriteTo on a healthy connection: (%d, %v)", gn, gerr)
		}
		afterWrite("ByteBuffer.AsyncWriteTo", int64(gn), gerr)
		leftover = int64(gn) != want
	}
	take := func(what string, n int64, err error) {
		if n < 0 || int(n) > ib.WriteLen() {
			c.Failf("relay-count", "%s reported %d bytes, the buffer's write area holds %d", what, n, ib.WriteLen())
		}
		if int(n) != ib.WriteLen() {
			c.Failf("relay-count", "%s reported %d bytes, %d entered the buffer", what, n, ib.WriteLen())
		}
		ib.Commit(int(n))
		got := ib.Data()
		want := make([]byte, len(got))
		s.fill(want, s.inStream(o), recvd)
		if !bytes.Equal(got, want) {
			c.Failf("relay-read-data-mismatch", "%s delivered %d bytes at stream offset %d that are not what the peer sent there", what, len(got), recvd)
		}
		if n > 0 {
			w.Stat(c02pRelayRead)
		}
		recvd += int64(len(got))
		ib.Consume(len(got))
		if recvd > o.peerSent {
			c.Failf("relay-read-invented", "%d bytes were read, the peer sent %d", recvd, o.peerSent)
		}
	}
	readSync := func() {
		ib.Reserve(w.Pick(4096, 1, 7, 100, 70000))
		n, err := ib.ReadFrom(o.fd)
		if err != nil && err != sonicerrors.ErrWouldBlock && err != io.EOF {
			c.Failf("relay-read-error", "ByteBuffer.ReadFrom on a healthy connection: (%d, %v)", n, err)
		}
		take("ByteBuffer.ReadFrom", n, err)
	}
	readAsync := func() {
		if recvd == o.peerSent {
			s.peerSend(o, sz.sizes())
			if recvd == o.peerSent {
				return // the peer's own send buffer is full: nothing will arrive until sonic reads, and it has
			}
		}
		ib.Reserve(w.Pick(4096, 1, 7, 100, 70000))
		done := false
		var gn int
		var gerr error
		ib.AsyncReadFrom(o.fd, func(err error, n int) { done, gn, gerr = true, n, err })
		polls(&done, "ByteBuffer.AsyncReadFrom", 20000+4*(o.peerSent-recvd))
		if gerr != nil {
			c.Failf("relay-read-error", "ByteBuffer.AsyncReadFrom on a healthy connection: (%d, %v)", gn, gerr)
		}
		take("ByteBuffer.AsyncReadFrom", int64(gn), gerr)
	}

	steps := w.Range(6, c.Deep(40))
	for i := 0; i < steps; i++ {
		switch w.Choose(10) {
		case 0, 1, 2:
			k := sz.sizes()
			p := make([]byte, k)
			s.fill(p, s.outStream(o), appended)
			if n, err := ob.Write(p); n != k || err != nil {
				c.Failf("relay-count", "ByteBuffer.Write(%d bytes) returned (%d, %v)", k, n, err)
			}
			ob.Commit(k)
			appended += int64(k)
			if syncOK && w.Chance(1, 2) {
				flushSync()
			}
		case 3, 4:
			if syncOK {
				flushSync()
			} else if appended > sent {
				flushAsync()
			}
		case 5:
			if appended > sent {
				flushAsync()
			}
		case 6:
			s.peerDrain(o, w.Pick(1<<20, 1, 100, 70000))
			w.RunDue()
		case 7:
			s.peerSend(o, sz.sizes())
			w.RunDue()
			if syncOK {
				readSync()
			}
		case 8:
			readAsync()
		case 9:
			w.Advance(int64(w.Pick(1_000, 0, 1_000_000)))
			w.RunDue()
		}
	}
	// everything queued goes out, everything the peer sent comes in
	for i := 0; appended > sent; i++ {
		if i > 200000 {
			c.Failf("relay-never-completes", "%d queued bytes cannot be flushed although the peer reads everything", appended-sent)
		}
		if syncOK && w.Chance(2, 3) {
			if !flushSync() {
				s.peerDrain(o, 1<<20)
				w.Drain(5_000_000_000)
			}
		} else {
			flushAsync()
		}
	}
	for i := 0; recvd < o.peerSent; i++ {
		if i > 200000 {
			c.Failf("relay-never-completes", "the peer sent %d bytes, %d were read and nothing more arrives", o.peerSent, recvd)
		}
		w.Drain(5_000_000_000)
		if syncOK && w.Chance(1, 2) {
			readSync()
		} else {
			readAsync()
		}
	}
	for i := int64(0); i < 20000+4*appended && o.peerGot < sent; i++ {
		s.peerDrain(o, 1<<30)
		w.Drain(5_000_000_000)
	}
	s.peerDrain(o, 1<<30)
	if o.peerGot != appended {
		c.Failf("bytes-lost-or-invented/through-bytebuffer", "%d bytes were queued and reported written, the peer received %d", appended, o.peerGot)
	}
}
