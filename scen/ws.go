package scen

import (
	"fmt"
	"io"
	"strings"

	"github.com/talostrading/sonic"
	"github.com/talostrading/sonic/codec/websocket"
	"github.com/talostrading/sonic/sonicerrors"

	"sonicverif/sim"
)

// Shared WebSocket session harness (C06, C07, C08, C13, C15, C16, C17, C18):
// a simulated server actor speaking through the independent codec of
// wsref.go, and two transports for the client Stream: the production stack
// (real Handshake -> stub net.Conn -> AsyncAdapter -> stub kernel TCP) and a
// scripted in-memory sonic.Stream attached through the overlay-added hook.

var wsIP = [4]byte{127, 0, 0, 1}

// ---------------------------------------------------------------------------
// server actor

type hsResp struct {
	Status     int
	Reason     string
	Upgrade    string // "" = header missing
	AcceptMode int    // 0 correct, 1 wrong, 2 missing
	NameCase   int    // 0 canonical, 1 lower, 2 upper
	Space      int    // 0 "K: v", 1 "K:v", 2 "K:   v  "
	Order      int    // rotation of the header list
	Extra      int    // number of extra headers
	Body       []byte // bytes sent right after the blank line (piggy-backed frames)
	Cuts       []int  // offsets (into head+body) at which the server pauses
	CloseAfter int    // >=0: the server closes after that many bytes
	Abort      bool   // close is a reset
}

func (r *hsResp) shouldAccept() bool {
	return r.Status == 101 && strings.EqualFold(r.Upgrade, "websocket") && r.AcceptMode == 0
}

func (r *hsResp) head(key string) []byte {
	type kv struct{ k, v string }
	var hs []kv
	if r.Upgrade != "" {
		hs = append(hs, kv{"Upgrade", r.Upgrade})
	}
	hs = append(hs, kv{"Connection", "Upgrade"})
	switch r.AcceptMode {
	case 0:
		hs = append(hs, kv{"Sec-WebSocket-Accept", wsAcceptKey(key)})
	case 1:
		hs = append(hs, kv{"Sec-WebSocket-Accept", wsAcceptKey(key + "x")})
	}
	for i := 0; i < r.Extra; i++ {
		hs = append(hs, kv{fmt.Sprintf("X-Extra-%d", i), fmt.Sprintf("value %d", i)})
	}
	if n := len(hs); n > 0 && r.Order > 0 {
		k := r.Order % n
		hs = append(hs[k:], hs[:k]...)
	}
	reason := r.Reason
	if reason == "" {
		switch r.Status {
		case 101:
			reason = "Switching Protocols"
		case 200:
			reason = "OK"
		case 400:
			reason = "Bad Request"
		default:
			reason = "Status"
		}
	}
	var b strings.Builder
	fmt.Fprintf(&b, "HTTP/1.1 %d %s\r\n", r.Status, reason)
	for _, h := range hs {
		k := h.k
		switch r.NameCase {
		case 1:
			k = strings.ToLower(k)
		case 2:
			k = strings.ToUpper(k)
		}
		switch r.Space {
		case 0:
			fmt.Fprintf(&b, "%s: %s\r\n", k, h.v)
		case 1:
			fmt.Fprintf(&b, "%s:%s\r\n", k, h.v)
		case 2:
			fmt.Fprintf(&b, "%s:   %s  \r\n", k, h.v)
		}
	}
	if r.Status != 101 {
		b.WriteString("Content-Length: 0\r\n")
	}
	b.WriteString("\r\n")
	return []byte(b.String())
}

type wsServer struct {
	w      *sim.World
	end    *sim.TCPEnd
	reqBuf []byte
	req    *httpReq
	reqErr error
	rx     []byte // everything the client sent after the request head
	resp   *hsResp
	// OnUpgraded is called once the response (and body) has been handed to the kernel
	OnUpgraded func()
	responded  bool
	sawEOF     bool
	sawReset   bool
	sendAt     int64 // virtual time after which the next scheduled send may go
}

func (s *wsServer) onData() {
	b := s.end.ActorRecv(1 << 30)
	if s.end.ActorReset() {
		s.sawReset = true
	}
	if s.end.ActorEOF() {
		s.sawEOF = true
	}
	if len(b) == 0 {
		return
	}
	if s.req == nil && s.reqErr == nil {
		s.reqBuf = append(s.reqBuf, b...)
		req, err := parseHTTPRequest(s.reqBuf)
		if err == errHTTPNeedMore {
			return
		}
		if err != nil {
			s.reqErr = err
			return
		}
		s.req = req
		s.rx = append(s.rx, s.reqBuf[req.HeaderLen:]...)
		s.respond()
		return
	}
	s.rx = append(s.rx, b...)
}

func (s *wsServer) respond() {
	if s.resp == nil || s.responded {
		return
	}
	s.responded = true
	key := ""
	if k := s.req.get("Sec-WebSocket-Key"); len(k) > 0 {
		key = k[0]
	}
	all := append(s.resp.head(key), s.resp.Body...)
	if s.resp.CloseAfter >= 0 && s.resp.CloseAfter < len(all) {
		all = all[:s.resp.CloseAfter]
	}
	s.sendCuts(all, s.resp.Cuts)
	if s.resp.CloseAfter >= 0 {
		s.after(func() {
			if s.resp.Abort {
				s.end.ActorAbort()
			} else {
				s.end.ActorClose()
			}
		})
	}
	if s.OnUpgraded != nil {
		s.after(s.OnUpgraded)
	}
}

// after runs fn once everything scheduled so far has been sent.
func (s *wsServer) after(fn func()) {
	d := s.sendAt - s.w.Now
	if d < 0 {
		d = 0
	}
	s.w.After(d, "ws-server", fn)
}

// sendCuts hands b to the kernel in pieces separated by pauses long enough
// for the client to see each piece on its own.
func (s *wsServer) sendCuts(b []byte, cuts []int) {
	prev := 0
	emit := func(piece []byte) {
		if len(piece) == 0 {
			return
		}
		p := append([]byte(nil), piece...)
		if s.sendAt < s.w.Now {
			s.sendAt = s.w.Now
		}
		at := s.sendAt
		s.w.After(at-s.w.Now, "ws-server-send", func() { s.end.ActorSend(p) })
		s.sendAt = at + 2_000_000
	}
	for _, c := range cuts {
		if c <= prev || c >= len(b) {
			continue
		}
		emit(b[prev:c])
		prev = c
	}
	emit(b[prev:])
}

func (s *wsServer) sendFrame(f wsFrame) { s.sendCuts(wsEncode(f, -1, -1), nil) }

// frames parses what the client has put on the wire so far.
func (s *wsServer) frames() ([]wsFrame, []byte, error) { return wsParseAll(s.rx) }

// ---------------------------------------------------------------------------
// session

type wsSess struct {
	c    *Ctx
	w    *sim.World
	ioc  *sonic.IO
	ws   *websocket.Stream
	port int
	srv  *wsServer
	srvs []*wsServer
	al   *sim.ActorListener
	mem  *memStream
	// expectBytes bounds how long a reader may legitimately need (one byte per round at worst)
	expectBytes int
}

func newWsSess(c *Ctx) *wsSess {
	ioc, err := sonic.NewIO()
	if err != nil {
		sim.Bug("NewIO: %v", err)
	}
	s := &wsSess{c: c, w: c.W, ioc: ioc, port: 8080}
	ws, err := websocket.NewWebsocketStream(ioc, nil, websocket.RoleClient)
	if err != nil {
		sim.Bug("NewWebsocketStream: %v", err)
	}
	s.ws = ws
	return s
}

// listen installs a server that answers the next connection with resp.
func (s *wsSess) listen(resp *hsResp) {
	if s.al != nil {
		s.al.Close()
	}
	s.port++
	s.al = s.w.K.ActorListen(wsIP, s.port, sim.ConnAccept)
	s.al.OnConn(func(e *sim.TCPEnd) {
		srv := &wsServer{w: s.w, end: e, resp: resp}
		e.OnData = srv.onData
		s.srv = srv
		s.srvs = append(s.srvs, srv)
	})
}

func (s *wsSess) url() string { return fmt.Sprintf("ws://127.0.0.1:%d/chat?x=1", s.port) }

// connect performs a conforming handshake through the production stack.
func (s *wsSess) connect() {
	s.listen(&hsResp{Status: 101, Upgrade: "websocket", CloseAfter: -1})
	if err := s.ws.Handshake(s.url()); err != nil {
		s.c.Failf("conforming-handshake-failed", "Handshake with a conforming server failed: %v", err)
	}
}

// attach installs the scripted in-memory transport.
func (s *wsSess) attach() {
	s.mem = &memStream{w: s.w}
	if err := s.ws.VerifAttach(s.mem); err != nil {
		sim.Bug("VerifAttach: %v", err)
	}
}

// wire returns everything the client wrote after the upgrade request.
func (s *wsSess) wire() []byte {
	if s.mem != nil {
		return s.mem.out
	}
	if s.srv != nil {
		return s.srv.rx
	}
	return nil
}

// feed delivers server->client bytes with pauses at cuts.
func (s *wsSess) feed(b []byte, cuts []int) {
	s.expectBytes += len(b)
	if s.mem != nil {
		prev := 0
		for _, c := range cuts {
			if c > prev && c < len(b) {
				s.mem.chunks = append(s.mem.chunks, append([]byte(nil), b[prev:c]...))
				prev = c
			}
		}
		s.mem.chunks = append(s.mem.chunks, append([]byte(nil), b[prev:]...))
		return
	}
	s.srv.sendCuts(b, cuts)
}

func (s *wsSess) feedEOF() {
	if s.mem != nil {
		s.mem.eofAfter = true
		return
	}
	// the server half-closes: the client sees EOF, and what the client still
	// writes is accepted and ignored instead of provoking a reset that would
	// destroy data the client has not read yet
	s.srv.after(func() { s.srv.end.ActorShutdownWrite() })
}

// pump lets the network move and runs one non-blocking poll cycle.
func (s *wsSess) pump() {
	if s.mem != nil {
		s.mem.pump()
	}
	s.w.Advance(3_000_000)
	if t := s.w.NextEventAt(); t > s.w.Now && s.w.K.EpollReadyCount(s.epfd()) == 0 {
		// nothing can happen before the next event (a delayed delivery): jump there
		s.w.Advance(t - s.w.Now)
	}
	if _, err := s.ioc.PollOne(); err != nil && err != sonicerrors.ErrTimeout {
		s.c.Failf("poll-error", "PollOne: %v", err)
	}
}

// waitFor pumps until *done; gives up when nothing moved for many rounds.
func (s *wsSess) waitFor(done *bool) bool {
	idle := 0
	rounds := 0
	limit := 3000 + 3*s.expectBytes
	for !*done {
		rounds++
		if rounds > limit {
			return false // progress without end: a livelock
		}
		before := s.w.KernelCalls + s.w.Steps
		mr := 0
		if s.mem != nil {
			mr = s.mem.Reads + s.mem.Writes
		}
		s.pump()
		moved := s.w.KernelCalls+s.w.Steps-before > 2
		if s.mem != nil && s.mem.Reads+s.mem.Writes != mr {
			moved = true
		}
		if moved {
			idle = 0
		} else {
			idle++
			if idle > 400 {
				return false
			}
		}
	}
	return true
}

// epfd: the IO's epoll instance is the first descriptor the world handed out.
func (s *wsSess) epfd() int { return s.w.K.FdBase }

func (s *wsSess) close() {
	if s.al != nil {
		s.al.Close()
	}
	if s.ws != nil {
		if nl := s.ws.NextLayer(); nl != nil && s.mem == nil {
			nl.Close()
		}
	}
	s.ioc.Close()
}

// ---------------------------------------------------------------------------
// scripted in-memory transport

// memStream implements sonic.Stream. Incoming bytes arrive in the chunks the
// scenario queued (one chunk per read at most, further split by the tape);
// writes are accepted in tape-chosen pieces; asynchronous operations complete
// inline or when the scenario pumps.
type memStream struct {
	w        *sim.World
	chunks   [][]byte
	eofAfter bool // EOF once the chunks are exhausted
	rdErr    error
	wrErr    error
	// wrErrOnce: the next write fails with this error, once; the transport stays usable (ENOBUFS, a registration
	// refused by the poller, a cancelled write)
	wrErrOnce error
	out       []byte
	closed    bool

	pr *memOp
	pw *memOp

	// knobs
	EOFWithData bool // the read that drains the last chunk reports EOF together with its bytes (tls.Conn does)
	Defer       bool // never complete inline
	Partial     bool // split reads/writes
	WouldBlk    bool // synchronous calls may report would-block

	Reads, Writes int
}

type memOp struct {
	b    []byte
	cb   sonic.AsyncCallback
	all  bool
	done int
}

var (
	memPartialW = sim.RegStat("probe:mem-transport-partial-write")
	memPartialR = sim.RegStat("probe:mem-transport-partial-read")
	memDeferred = sim.RegStat("probe:mem-transport-deferred-completion")
	memDataEOF  = sim.RegStat("probe:mem-transport-last-bytes-together-with-eof")
)

func (m *memStream) RawFd() int { return -1 }

func (m *memStream) take(b []byte) (int, error) {
	for len(m.chunks) > 0 && len(m.chunks[0]) == 0 {
		m.chunks = m.chunks[1:]
	}
	if len(m.chunks) == 0 {
		if m.rdErr != nil {
			return 0, m.rdErr
		}
		if m.eofAfter {
			return 0, io.EOF
		}
		return 0, sonicerrors.ErrWouldBlock
	}
	n := len(m.chunks[0])
	if n > len(b) {
		n = len(b)
	}
	if m.Partial && n > 1 && m.w.Chance(1, 2) {
		n = 1 + m.w.Choose(n-1)
		m.w.Stat(memPartialR)
	}
	copy(b, m.chunks[0][:n])
	m.chunks[0] = m.chunks[0][n:]
	m.Reads++
	if m.EOFWithData && m.eofAfter && m.rdErr == nil {
		rest := 0
		for _, c := range m.chunks {
			rest += len(c)
		}
		if rest == 0 {
			m.w.Stat(memDataEOF)
			return n, io.EOF
		}
	}
	return n, nil
}

func (m *memStream) Read(b []byte) (int, error) {
	if m.closed {
		return 0, io.EOF
	}
	if len(b) == 0 {
		return 0, nil
	}
	return m.take(b)
}

func (m *memStream) accept(b []byte) int {
	n := len(b)
	if m.Partial && n > 1 && m.w.Chance(1, 2) {
		n = 1 + m.w.Choose(n-1)
		m.w.Stat(memPartialW)
	}
	m.out = append(m.out, b[:n]...)
	m.Writes++
	return n
}

func (m *memStream) Write(b []byte) (int, error) {
	if m.closed {
		return 0, io.EOF
	}
	if m.wrErr != nil {
		return 0, m.wrErr
	}
	if m.wrErrOnce != nil {
		e := m.wrErrOnce
		m.wrErrOnce = nil
		return 0, e
	}
	if m.WouldBlk && m.w.Chance(1, 4) {
		return 0, sonicerrors.ErrWouldBlock
	}
	return m.accept(b), nil
}

func (m *memStream) AsyncRead(b []byte, cb sonic.AsyncCallback) { m.asyncRead(b, false, cb) }
func (m *memStream) AsyncReadAll(b []byte, cb sonic.AsyncCallback) {
	m.asyncRead(b, true, cb)
}

func (m *memStream) asyncRead(b []byte, all bool, cb sonic.AsyncCallback) {
	if m.pr != nil {
		sim.Bug("memStream: second read while one is pending")
	}
	op := &memOp{b: b, cb: cb, all: all}
	if m.closed {
		cb(io.EOF, 0)
		return
	}
	if !m.Defer && m.w.Chance(1, 2) {
		if m.progressRead(op) {
			return
		}
	}
	m.w.Stat(memDeferred)
	m.pr = op
}

// progressRead tries to complete op; true if the callback was invoked.
func (m *memStream) progressRead(op *memOp) bool {
	for {
		n, err := m.take(op.b[op.done:])
		if err == sonicerrors.ErrWouldBlock {
			return false
		}
		op.done += n
		if err != nil {
			op.cb(err, op.done)
			return true
		}
		if !op.all || op.done == len(op.b) {
			op.cb(nil, op.done)
			return true
		}
	}
}

func (m *memStream) AsyncWrite(b []byte, cb sonic.AsyncCallback) { m.asyncWrite(b, false, cb) }
func (m *memStream) AsyncWriteAll(b []byte, cb sonic.AsyncCallback) {
	m.asyncWrite(b, true, cb)
}

func (m *memStream) asyncWrite(b []byte, all bool, cb sonic.AsyncCallback) {
	if m.pw != nil {
		sim.Bug("memStream: second write while one is pending")
	}
	op := &memOp{b: b, cb: cb, all: all}
	if m.closed {
		cb(io.EOF, 0)
		return
	}
	if m.wrErrOnce != nil {
		e := m.wrErrOnce
		m.wrErrOnce = nil
		cb(e, 0)
		return
	}
	if !m.Defer && m.w.Chance(1, 2) {
		if m.progressWrite(op, true) {
			return
		}
	}
	m.w.Stat(memDeferred)
	m.pw = op
}

func (m *memStream) progressWrite(op *memOp, mayStall bool) bool {
	for {
		if m.wrErr != nil {
			op.cb(m.wrErr, op.done)
			return true
		}
		op.done += m.accept(op.b[op.done:])
		if !op.all || op.done == len(op.b) {
			op.cb(nil, op.done)
			return true
		}
		if mayStall && m.Partial && m.w.Chance(1, 3) {
			return false // the rest goes out at the next pump
		}
	}
}

// pump completes pending operations that can make progress.
func (m *memStream) pump() {
	if op := m.pw; op != nil {
		m.pw = nil
		if !m.progressWrite(op, true) {
			m.pw = op
		}
	}
	if op := m.pr; op != nil {
		m.pr = nil
		if !m.progressRead(op) {
			m.pr = op
		}
	}
}

func (m *memStream) idle() bool { return m.pr == nil && m.pw == nil }

func (m *memStream) Cancel() {
	if op := m.pr; op != nil {
		m.pr = nil
		op.cb(sonicerrors.ErrCancelled, op.done)
	}
	if op := m.pw; op != nil {
		m.pw = nil
		op.cb(sonicerrors.ErrCancelled, op.done)
	}
}

func (m *memStream) Close() error {
	m.closed = true
	return nil
}
