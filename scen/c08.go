package scen

import (
	"bytes"
	"fmt"
	"io"
	"syscall"

	"github.com/talostrading/sonic/codec/websocket"

	shimnet "sonicverif/shim/net"
	"sonicverif/sim"
)

// C08 WebSocket ping/pong and closing handshake follow the RFC 6455 state machine.

func init() {
	Register("C08", &Scenario{Name: "histories-random", Weight: 10, Run: func(c *Ctx, v int) { runC08(c, -1) }})
	Register("C08", &Scenario{Name: "histories-directed", Directed: 12, Run: func(c *Ctx, v int) { runC08(c, v) }})
}

const (
	msActive = iota
	msClosedByUs
	msClosedByPeer
	msCloseAcked
	msTerminated
)

var msNames = [...]string{"active", "closed-by-us", "closed-by-peer", "close-acked", "terminated"}

const (
	pvData = iota
	pvPing
	pvPong
	pvCloseValid
	pvCloseInvalid
	pvViolation
)

type c08Peer struct { // one frame the peer sent and the client has not consumed yet
	kind    int
	payload []byte
	code    int // valid close: the code to echo (1000 if the close carried none)
	typ     byte
}

type c08 struct {
	*wsSess
	// lossy: a flush was made to fail once (transient transport error): what was pending then may be lost or
	// go out later, but never twice - the wire is judged as an in-order subsequence of the expected frames
	lossy    bool
	state    int
	queue    []c08Peer
	peerDone bool // the peer sent Close (it sends nothing more)
	eof      bool // transport EOF follows the queue
	rst      bool // transport error follows the queue
	expect   []wsFrame
	dead     bool // the transport is gone: queued frames may never be flushed
	closes   int
	failedOp bool
}

var (
	c08pPong          = sim.RegStat("probe:c08-ping-answered")
	c08pPingClosed    = sim.RegStat("probe:c08-ping-after-local-close")
	c08pPeerClose     = sim.RegStat("probe:c08-peer-close-consumed")
	c08pInvClose      = sim.RegStat("probe:c08-invalid-close-consumed")
	c08pCloseInFlight = sim.RegStat("probe:c08-asyncclose-still-in-flight-when-the-next-call-is-made")
	c08pDataEOF       = sim.RegStat("probe:c08-transport-may-report-eof-together-with-the-last-bytes")
	c08pTransient     = sim.RegStat("probe:c08-flush-failed-once-with-a-transient-error")
	c08pLocalClose    = sim.RegStat("probe:c08-local-close")
	c08pAcked         = sim.RegStat("probe:c08-close-handshake-completed-we-started")
	c08pViolClosed    = sim.RegStat("probe:c08-violation-after-local-close")
	c08pEOF           = sim.RegStat("probe:c08-unexpected-eof-1006")
	c08pWriteRefuse   = sim.RegStat("probe:c08-write-refused-after-close")
	c08pShortBuf      = sim.RegStat("probe:c08-message-longer-than-the-buffer-read-after-local-close")
	c08pReadAfter     = sim.RegStat("probe:c08-read-after-closing-handshake")
)

func (d *c08) checkState(where string) {
	got := d.ws.State()
	ok := false
	switch d.state {
	case msActive:
		ok = got == websocket.StateActive
	case msClosedByUs:
		ok = got == websocket.StateClosedByUs
	case msClosedByPeer:
		ok = got == websocket.StateClosedByPeer || got == websocket.StateTerminated
	case msCloseAcked:
		ok = got == websocket.StateCloseAcked || got == websocket.StateTerminated
	case msTerminated:
		ok = got == websocket.StateTerminated
	}
	if d.dead && d.state != msTerminated {
		return // after a transport error the stage is not specified
	}
	if !ok {
		d.c.Failf("state-does-not-reflect-stage/"+msNames[d.state], "%s: the history has reached stage %s, State() says %s", where, msNames[d.state], got)
	}
}

// --- peer events

func (d *c08) peerSend(kind int) {
	w := d.w
	if d.peerDone || d.eof || d.rst {
		return
	}
	pv := c08Peer{kind: kind}
	var f wsFrame
	switch kind {
	case pvData:
		pv.payload = make([]byte, w.Pick(5, 0, 1, 200))
		w.DataBytes(pv.payload)
		pv.typ = byte(w.Pick(wsText, wsBinary))
		if pv.typ == wsText {
			for i := range pv.payload {
				pv.payload[i] = 'a' + pv.payload[i]%26
			}
		}
		f = wsFrame{Fin: true, Opcode: pv.typ, Payload: pv.payload}
	case pvPing:
		pv.payload = make([]byte, w.Pick(4, 0, 1, 125))
		w.DataBytes(pv.payload)
		f = wsFrame{Fin: true, Opcode: wsPing, Payload: pv.payload}
	case pvPong:
		pv.payload = make([]byte, w.Pick(2, 0, 125))
		f = wsFrame{Fin: true, Opcode: wsPong, Payload: pv.payload}
	case pvCloseValid:
		if w.Chance(1, 3) {
			pv.code = 1000 // no status code in the frame
		} else {
			pv.code = w.Pick(1000, 1001, 1003, 1011, 3000, 4999)
			pv.payload = wsClosePayload(pv.code, w.Pick2("", "bye", "going away"))
		}
		f = wsFrame{Fin: true, Opcode: wsClose, Payload: pv.payload}
		d.peerDone = true
	case pvCloseInvalid:
		switch w.Choose(3) {
		case 0:
			pv.payload = wsClosePayload(w.Pick(999, 1005, 1006, 1015, 2999, 5000, 0), "x")
		case 1:
			pv.payload = append(wsClosePayload(1000, ""), 0xff, 0xfe, 0xc0)
		case 2:
			pv.payload = []byte{3}
		}
		pv.code = 1002
		f = wsFrame{Fin: true, Opcode: wsClose, Payload: pv.payload}
		d.peerDone = true
	case pvViolation:
		pv.payload = []byte("rsv")
		f = wsFrame{Fin: true, Rsv: byte(w.Pick(4, 2, 1)), Opcode: wsBinary, Payload: pv.payload}
	}
	d.queue = append(d.queue, pv)
	d.feed(wsEncode(f, -1, -1), nil)
}

func (d *c08) peerEOF() {
	if d.eof || d.rst {
		return
	}
	d.eof = true
	d.feedEOF()
}

// peerReset: a reset discards whatever the client has not read yet and fails
// its writes from an instant the history cannot pin down, so nothing after it
// is judged except that calls return and the wire stays a prefix of what the
// history called for.
func (d *c08) peerReset() {
	if d.eof || d.rst || d.mem != nil {
		return
	}
	d.rst = true
	d.dead = true
	d.srv.after(func() { d.srv.end.ActorAbort() })
}

func (d *c08) afterReset() {
	d.w.Drain(2_000_000_000)
	for i := 0; i < 3; i++ {
		if i%2 == 0 {
			_, _ = d.ws.NextFrame()
		} else {
			done := false
			d.ws.AsyncNextFrame(func(error, websocket.Frame) { done = true })
			if !d.waitFor(&done) {
				d.c.Failf("read-never-completes/after-reset", "AsyncNextFrame never completed after the connection was reset")
			}
		}
	}
	_ = d.ws.Write([]byte("x"), websocket.TypeText)
}

// --- the model consumes one peer frame

type c08Read struct {
	delivered bool // a data frame/message was delivered
	isErr     bool
	wantFrame *c08Peer
}

// consume applies one queued frame to the model; returns what the read that
// consumed it must report for that frame.
func (d *c08) consume() (pv c08Peer, errExpected bool) {
	pv = d.queue[0]
	d.queue = d.queue[1:]
	switch d.state {
	case msActive:
		switch pv.kind {
		case pvPing:
			d.expect = append(d.expect, wsFrame{Fin: true, Opcode: wsPong, Payload: pv.payload})
			d.w.Stat(c08pPong)
		case pvCloseValid, pvCloseInvalid:
			d.state = msClosedByPeer
			d.expect = append(d.expect, wsFrame{Fin: true, Opcode: wsClose, Payload: wsClosePayload(pv.code, "")})
			d.closes++
			if pv.kind == pvCloseInvalid {
				d.w.Stat(c08pInvClose)
			}
			d.w.Stat(c08pPeerClose)
		case pvViolation:
			d.state = msClosedByUs
			d.expect = append(d.expect, wsFrame{Fin: true, Opcode: wsClose, Payload: wsClosePayload(1002, "")})
			d.closes++
			return pv, true
		}
	case msClosedByUs:
		switch pv.kind {
		case pvPing:
			d.w.Stat(c08pPingClosed) // no Pong once our Close is out
		case pvCloseValid, pvCloseInvalid:
			d.state = msCloseAcked
			d.w.Stat(c08pAcked)
		case pvViolation:
			d.w.Stat(c08pViolClosed) // reported, but no second Close
			return pv, true
		}
	}
	return pv, false
}

func (d *c08) canReadNow(message bool) bool {
	if d.state == msClosedByPeer || d.state == msCloseAcked || d.state == msTerminated {
		return true // reports end-of-stream at once
	}
	if !message {
		return len(d.queue) > 0 || d.eof || d.rst
	}
	for _, pv := range d.queue {
		if pv.kind == pvData || pv.kind == pvCloseValid || pv.kind == pvCloseInvalid || pv.kind == pvViolation {
			return true
		}
	}
	return d.eof || d.rst
}

// read performs one read call and judges it against the model.
func (d *c08) read(api int) {
	c, ws := d.c, d.ws
	name := c06APINames[api]
	message := api < 2
	if !d.canReadNow(message) {
		return
	}
	var (
		f    websocket.Frame
		mt   websocket.MessageType
		n    int
		err  error
		ctls []wsCtl
	)
	buf := make([]byte, 1024)
	if message && d.state == msClosedByUs && d.w.Chance(1, 3) {
		// the closing handshake is under way and the application reads for the peer's Close with a buffer that is too
		// short for a message still in the pipe: that read fails, and the client's one Close frame has been sent already
		buf = make([]byte, 3)
	}
	ws.SetControlCallback(func(t websocket.MessageType, p []byte) {
		ctls = append(ctls, wsCtl{byte(t), append([]byte(nil), p...)})
	})
	if d.mem == nil && (api == 0 || api == 2) {
		d.w.Drain(2_000_000_000)
	}
	switch api {
	case 0:
		mt, n, err = ws.NextMessage(buf)
	case 1:
		done := false
		ws.AsyncNextMessage(buf, func(e error, nn int, t websocket.MessageType) { err, n, mt, done = e, nn, t, true })
		if !d.waitFor(&done) {
			c.Failf("read-never-completes/"+name, "%s never completed although the peer's frames (or the end of the transport) were delivered", name)
		}
	case 2:
		f, err = ws.NextFrame()
	case 3:
		done := false
		ws.AsyncNextFrame(func(e error, fr websocket.Frame) { err, f, done = e, fr, true })
		if !d.waitFor(&done) {
			c.Failf("read-never-completes/"+name, "%s never completed although the peer's frames (or the end of the transport) were delivered", name)
		}
	}
	// --- what the model says this call does
	if d.state == msClosedByPeer || d.state == msCloseAcked || d.state == msTerminated {
		d.w.Stat(c08pReadAfter)
		if err == nil {
			c.Failf("read-after-closing-handshake-succeeded/"+name, "%s returned no error in stage %s", name, msNames[d.state])
		}
		return
	}
	for {
		if len(d.queue) == 0 {
			// the transport ended
			if d.eof {
				d.w.Stat(c08pEOF)
				d.state = msTerminated
				d.dead = true
				if err == nil {
					c.Failf("unexpected-eof-not-reported/"+name, "%s returned no error at the unexpected end of the transport", name)
				}
				if !message {
					if f == nil || !f.Opcode().IsClose() || len(f.Payload()) < 2 || int(f.Payload()[0])<<8|int(f.Payload()[1]) != 1006 {
						c.Failf("unexpected-eof-not-1006/"+name, "%s: the unexpected end of the transport was not surfaced as a Close frame with status 1006 (err=%v)", name, err)
					}
				}
				if err != io.EOF {
					c.Failf("unexpected-eof-error-value/"+name, "%s reported %v at the end of the transport, want io.EOF", name, err)
				}
				return
			}
			if d.rst {
				d.dead = true
				if err == nil {
					c.Failf("transport-error-not-reported/"+name, "%s returned no error after the connection was reset", name)
				}
				return
			}
			sim.Bug("c08: read issued with nothing to consume")
		}
		pv, wantErr := d.consume()
		if wantErr {
			if err == nil {
				c.Failf("violation-not-reported/"+name, "%s returned no error for a frame with reserved bits set (stage %s)", name, msNames[d.state])
			}
			return
		}
		if !message {
			// frame API: exactly this frame
			if err != nil {
				c.Failf("frame-read-failed/"+name, "%s failed with %v on a conforming %s frame in stage %s", name, err, c08KindName(pv.kind), msNames[d.state])
			}
			if want := c08Opcode(pv); byte(f.Opcode()) != want || !bytes.Equal(f.Payload(), pv.payload) {
				c.Failf("frame-differs/"+name, "%s returned opcode %d with %d payload bytes, the peer sent opcode %d with %d", name, f.Opcode(), len(f.Payload()), want, len(pv.payload))
			}
			return
		}
		// message API: controls go to the callback, a data frame ends the call, a close ends the stream
		switch pv.kind {
		case pvData:
			if len(pv.payload) > len(buf) {
				d.w.Stat(c08pShortBuf)
				if err == nil {
					c.Failf("message-longer-than-buffer-not-reported/"+name, "%s returned no error for a %d-byte message read into a %d-byte buffer", name, len(pv.payload), len(buf))
				}
				return
			}
			if err != nil {
				c.Failf("message-read-failed/"+name, "%s failed with %v on a conforming message", name, err)
			}
			if byte(mt) != pv.typ || !bytes.Equal(buf[:n], pv.payload) {
				c.Failf("message-differs/"+name, "%s delivered type %d, %d bytes; the peer sent type %d, %d bytes", name, mt, n, pv.typ, len(pv.payload))
			}
			return
		case pvCloseValid, pvCloseInvalid:
			if err == nil {
				c.Failf("read-after-closing-handshake-succeeded/"+name, "%s returned a message after consuming the peer's Close", name)
			}
			return
		}
	}
}

func c08KindName(k int) string {
	return [...]string{"data", "ping", "pong", "close", "invalid-close", "violation"}[k]
}

func c08Opcode(pv c08Peer) byte {
	switch pv.kind {
	case pvData:
		return pv.typ
	case pvPing:
		return wsPing
	case pvPong:
		return wsPong
	}
	return wsClose
}

// --- local calls

func (d *c08) write(how int) {
	c, ws, w := d.c, d.ws, d.w
	p := make([]byte, w.Pick(3, 0, 130))
	w.DataBytes(p)
	var err error
	switch how {
	case 0:
		err = ws.Write(p, websocket.TypeBinary)
	case 1:
		done := false
		ws.AsyncWrite(p, websocket.TypeBinary, func(e error) { err, done = e, true })
		if !d.waitFor(&done) {
			c.Failf("write-never-completes", "AsyncWrite: callback never invoked")
		}
	case 2:
		f := ws.AcquireFrame()
		f.SetFIN().SetBinary().SetPayload(p)
		err = ws.WriteFrame(f)
	}
	if d.state == msActive && !d.dead {
		if err != nil {
			c.Failf("write-failed-while-open", "an application write failed with %v while the connection is open", err)
		}
		d.expect = append(d.expect, wsFrame{Fin: true, Opcode: wsBinary, Payload: p})
		return
	}
	if d.state != msActive {
		w.Stat(c08pWriteRefuse)
		if err == nil {
			c.Failf("write-accepted-after-close/"+msNames[d.state], "an application write was accepted in stage %s", msNames[d.state])
		}
	}
}

func (d *c08) localClose(async bool) {
	c, ws, w := d.c, d.ws, d.w
	code := w.Pick(1000, 1001, 3000)
	var err error
	wasActive := d.state == msActive
	if async {
		done := false
		ws.AsyncClose(websocket.CloseCode(code), "done", func(e error) { err, done = e, true })
		if wasActive {
			// the closing handshake has been started, whether or not the Close frame has left yet
			d.state = msClosedByUs
			d.expect = append(d.expect, wsFrame{Fin: true, Opcode: wsClose, Payload: wsClosePayload(code, "done")})
			d.closes++
		}
		if !done && wasActive && !d.dead {
			// the Close frame is still being written (send buffer full, transport completing later): the
			// stage reached is "closed by us" already - state, refusal of writes and of a second Close
			w.Stat(c08pCloseInFlight)
			d.checkState("while AsyncClose is in flight")
			switch w.Choose(3) {
			case 1:
				d.write(w.Choose(3))
			case 2:
				again, called := error(nil), false
				ws.AsyncClose(websocket.CloseNormal, "again", func(e error) { again, called = e, true })
				if !called || again == nil {
					c.Failf("second-close-accepted/"+msNames[d.state], "a second AsyncClose while the first one's frame was still being written was accepted (callback invoked at once: %v, error %v)", called, again)
				}
			}
		}
		if !d.waitFor(&done) {
			c.Failf("close-never-completes", "AsyncClose: callback never invoked")
		}
	} else {
		err = ws.Close(websocket.CloseCode(code), "done")
		if wasActive {
			d.state = msClosedByUs
			d.expect = append(d.expect, wsFrame{Fin: true, Opcode: wsClose, Payload: wsClosePayload(code, "done")})
			d.closes++
		}
	}
	if wasActive {
		w.Stat(c08pLocalClose)
		if err != nil && !d.dead {
			c.Failf("close-failed-while-open", "Close on an open connection failed: %v", err)
		}
		return
	}
	if err == nil {
		c.Failf("second-close-accepted/"+msNames[d.state], "Close was accepted in stage %s", msNames[d.state])
	}
}

func (d *c08) verifyWire(final bool) {
	c := d.c
	if final && !d.dead {
		_ = d.ws.Flush()
	}
	for i := 0; i < 4; i++ {
		d.pump()
	}
	if d.mem == nil {
		d.w.Drain(3_000_000_000)
	}
	frames, rest, err := wsParseAll(d.wire())
	if err != nil {
		c.Failf("wire-does-not-parse", "the client's byte stream does not parse: %v", err)
	}
	nClose := 0
	for i, f := range frames {
		if f.Opcode == wsClose {
			nClose++
			if nClose > 1 {
				c.Failf("second-close-frame-on-wire", "the client put %d Close frames on the wire (frame %d is the second)", nClose, i)
			}
		} else if nClose > 0 && f.Opcode < 8 {
			c.Failf("data-frame-after-close-frame", "frame %d (opcode %d) follows the client's Close frame on the wire", i, f.Opcode)
		}
	}
	if d.lossy {
		j := 0
		for i, f := range frames {
			for j < len(d.expect) && !c08Same(f, d.expect[j]) {
				j++
			}
			if j >= len(d.expect) {
				c.Failf("frame-repeated-or-invented-after-transient-error", "frame %d on the wire (opcode %d, %d bytes) is not the next of the frames the history calls for, each at most once and in order: a frame whose flush failed once went out twice, or something was invented", i, f.Opcode, len(f.Payload))
			}
			j++
		}
		// What a failed write leaves in the codec's buffer goes out in front of the next write, so a transient failure
		// (nothing written, transport usable) can only cost the frames at the END of the history, behind which nothing
		// was written any more. A gap - a later frame on the wire, an earlier one not - means a queued frame was
		// dropped without ever being written (sixth round of seeds, w08).
		for i, f := range frames {
			if !d.dead && !c08Same(f, d.expect[i]) {
				c.Failf("frame-skipped-after-transient-error", "flushes failed with a transient error (nothing written, transport usable): frame %d of the history never reached the wire although later ones did (wire opcode*1000+len %v, history %v)", i, c08Ops(frames), c08Ops(d.expect))
			}
		}
		return
	}
	for i, f := range frames {
		if i >= len(d.expect) {
			c.Failf("unexpected-frame-on-wire", "frame %d on the wire (opcode %d, %d bytes) corresponds to nothing the history calls for; expected %d frames", i, f.Opcode, len(f.Payload), len(d.expect))
		}
		e := d.expect[i]
		if f.Opcode != e.Opcode {
			c.Failf("wire-order-or-kind-differs", "frame %d on the wire has opcode %d; the history calls for opcode %d there (Pongs go out in arrival order ahead of later application frames)", i, f.Opcode, e.Opcode)
		}
		if f.Opcode == wsClose {
			gc, ec := -1, -1
			if len(f.Payload) >= 2 {
				gc = int(f.Payload[0])<<8 | int(f.Payload[1])
			}
			if len(e.Payload) >= 2 {
				ec = int(e.Payload[0])<<8 | int(e.Payload[1])
			}
			if gc != ec {
				c.Failf("close-code-differs", "the client's Close frame carries status %d, the history calls for %d", gc, ec)
			}
		} else if !bytes.Equal(f.Payload, e.Payload) {
			c.Failf("wire-payload-differs/opcode-"+fmt.Sprint(f.Opcode), "frame %d (opcode %d) carries %d bytes, the history calls for %d bytes with other content", i, f.Opcode, len(f.Payload), len(e.Payload))
		}
	}
	if final && !d.dead && len(frames) < len(d.expect) {
		e := d.expect[len(frames)]
		c.Failf("expected-frame-missing", "after the final flush the wire holds %d frames, the history calls for %d; missing: opcode %d (%d trailing bytes)", len(frames), len(d.expect), e.Opcode, len(rest))
	}
}

// c08Same: is wire frame f the expected frame e (Close frames by status code)?
func c08Same(f wsFrame, e wsFrame) bool {
	if f.Opcode != e.Opcode {
		return false
	}
	if f.Opcode == wsClose {
		return len(f.Payload) >= 2 && len(e.Payload) >= 2 && f.Payload[0] == e.Payload[0] && f.Payload[1] == e.Payload[1] || len(f.Payload) < 2 && len(e.Payload) < 2
	}
	return bytes.Equal(f.Payload, e.Payload)
}

// transientFlushError: control replies are queued; the application's flush fails once with a transient error
// and the transport stays usable.
func (d *c08) transientFlushError() {
	if d.mem == nil || d.dead || d.ws.Pending() == 0 || d.mem.pw != nil {
		return
	}
	w := d.w
	w.Stat(c08pTransient)
	d.lossy = true
	d.mem.wrErrOnce = syscall.ENOBUFS
	if w.Chance(1, 2) {
		done := false
		d.ws.AsyncFlush(func(error) { done = true })
		if !d.waitFor(&done) {
			d.c.Failf("flush-never-completes", "AsyncFlush never completed after a transient write error")
		}
	} else {
		_ = d.ws.Flush()
	}
	d.mem.wrErrOnce = nil
}

func runC08(c *Ctx, variant int) {
	w := c.W
	d := &c08{wsSess: newWsSess(c)}
	defer d.close()
	if variant < 0 {
		w.EnableFaults(sim.FSegment, sim.FShortRead, sim.FDelay)
	}
	// a transport may report the end of the stream together with the last bytes (tls.Conn): what the peer sent
	// before it ended the stream is still processed first
	dataWithEOF := variant < 0 && w.Chance(1, 3)
	if dataWithEOF {
		w.Stat(c08pDataEOF)
		shimnet.EOFWithData = true
	}
	if (variant < 0 && w.Chance(1, 2)) || (variant >= 0 && variant%2 == 1) {
		d.attach()
		d.mem.Partial = w.Chance(1, 2)
		d.mem.Defer = w.Chance(1, 3)
		d.mem.EOFWithData = dataWithEOF
	} else {
		d.connect()
	}
	d.checkState("start")
	if variant >= 0 {
		d.directed(variant / 2)
		d.verifyWire(true)
		return
	}
	steps := w.Range(3, c.Deep(12))
	for i := 0; i < steps; i++ {
		switch w.Choose(17) {
		case 16:
			d.transientFlushError()
		case 0, 1:
			d.peerSend(pvData)
		case 2, 3:
			d.peerSend(pvPing)
		case 4:
			d.peerSend(pvPong)
		case 5:
			if w.Chance(1, 2) {
				d.peerSend(pvCloseValid)
			} else {
				d.peerSend(pvCloseInvalid)
			}
		case 6:
			if w.Chance(1, 2) {
				d.peerSend(pvViolation)
			}
		case 7:
			if w.Chance(1, 3) {
				if w.Chance(2, 3) {
					d.peerEOF()
				} else {
					d.peerReset()
				}
			}
		case 8, 9, 10, 11:
			d.read(w.Choose(4))
		case 12, 13:
			if !d.dead {
				d.write(w.Choose(3))
			}
		case 14:
			if !d.dead {
				d.localClose(w.Chance(1, 2))
			}
		case 15:
			if !d.dead {
				_ = d.ws.Flush()
			}
		}
		if d.rst {
			d.afterReset()
			d.verifyWire(false)
			return
		}
		d.checkState(fmt.Sprintf("after step %d", i))
		if w.Chance(1, 4) {
			d.verifyWire(false)
		}
	}
	// drain what the peer sent so the whole history is applied
	for i := 0; i < 20 && (len(d.queue) > 0 || ((d.eof || d.rst) && !d.dead)); i++ {
		d.read(w.Choose(4))
		d.checkState("draining")
	}
	d.verifyWire(true)
}

// directed histories around the closing handshake.
func (d *c08) directed(v int) {
	switch v {
	case 0: // local close, then a protocol violation from the peer: still exactly one Close
		d.localClose(false)
		d.peerSend(pvViolation)
		d.read(2)
		d.read(2)
	case 1: // ping, ping, application write: pongs first, in order
		d.peerSend(pvPing)
		d.peerSend(pvPing)
		d.read(2)
		d.read(3)
		d.write(0)
	case 2: // peer close without code
		d.peerSend(pvCloseValid)
		d.read(0)
		d.write(1)
		d.read(2)
	case 3: // we close, peer acks, reads report end of stream
		d.localClose(true)
		d.peerSend(pvData)
		d.peerSend(pvCloseValid)
		d.read(2)
		d.read(2)
		d.read(3)
	case 4: // unexpected EOF
		d.peerSend(pvData)
		d.peerEOF()
		d.read(2)
		d.read(2)
	case 5: // invalid close
		d.peerSend(pvCloseInvalid)
		d.read(3)
		d.localClose(false)
	}
}

func c08Ops(fs []wsFrame) []int {
	var r []int
	for _, f := range fs {
		r = append(r, int(f.Opcode)*1000+len(f.Payload))
	}
	return r
}
