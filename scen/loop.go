package scen

import (
	"errors"
	"fmt"
	"io"
	"net"
	"net/netip"
	"syscall"

	"github.com/talostrading/sonic"
	"github.com/talostrading/sonic/multicast"
	"github.com/talostrading/sonic/sonicerrors"
	"github.com/talostrading/sonic/sonicopts"

	shimnet "sonicverif/shim/net"
	"sonicverif/sim"
)

// The object zoo shared by C01, C02, C03 and C14: every kind of asynchronous
// object sonic can open on one IO context, each with an actor peer, and an
// operation ledger that records every completion.

type lKind int

const (
	lkConnDial lKind = iota // sonic.Dial to an actor server
	lkConnAcc               // accepted from a sonic listener (actor client)
	lkAdapter               // AsyncAdapter over the stub net.Conn
	lkFifoR                 // file: read end of a FIFO
	lkFifoW                 // file: write end of a FIFO
	lkRegular               // file: regular file
	lkListener              // listener with AsyncAccept
	lkPacket                // packet conn
	lkPeer                  // multicast UDP peer
	lkConnUDP               // sonic.Dial("udp"): a conn over a connected datagram socket
	lkNumKinds
)

var lKindNames = [...]string{"conn-dialed", "conn-accepted", "adapter", "fifo-read", "fifo-write", "regular-file", "listener", "packet", "mcast-peer", "conn-udp"}

func (k lKind) String() string { return lKindNames[k] }
func (k lKind) stream() bool   { return k == lkConnDial || k == lkConnAcc || k == lkAdapter }

type lOpKind int

const (
	opRead lOpKind = iota
	opReadAll
	opWrite
	opWriteAll
	opAccept
	opReadFrom
	opWriteTo
)

var lOpNames = [...]string{"read", "readall", "write", "writeall", "accept", "readfrom", "writeto"}

func (k lOpKind) isRead() bool {
	return k == opRead || k == opReadAll || k == opAccept || k == opReadFrom
}

type lOp struct {
	id           int
	obj          *lObj
	kind         lOpKind
	buf          []byte
	beh          int
	returned     bool // the Async* call that started it has returned
	completions  int
	inline       bool
	err          error
	n            int
	startOff     int64 // stream offset at start
	startDepth   int
	atLimit      bool // started while the dispatch counter was at its limit
	movedAtStart int64
	exempt       bool // object closed by someone before completion: need not complete
	cancelled    bool // a Cancel covered it: must complete with ErrCancelled
	conn         sonic.Conn
}

type lObj struct {
	ix                           int
	kind                         lKind
	fd                           sonic.FileDescriptor
	lis                          sonic.Listener
	pc                           sonic.PacketConn
	peer                         *multicast.UDPPeer
	rawFd                        int
	peerFd, localPort            int // conn-udp: the harness's socket at the remote address (-1 once closed), the conn's own port
	gen                          int
	closed                       bool // Close has returned
	rd, wr                       *lOp
	end                          *sim.TCPEnd // actor end (streams)
	myEnd                        *sim.TCPEnd // sonic's end (independent byte counters)
	fifo                         *sim.Fifo
	path                         string
	conn                         *shimnet.SimConn
	port                         int
	inOff                        int64 // bytes of the peer->sonic stream consumed by completed reads
	outOff                       int64 // bytes of the sonic->peer stream covered by completed writes
	peerSent                     int64
	peerGot                      int64
	inBroken, outBroken          bool // fidelity tracking ended (error reported on that direction)
	peerFin, peerClosed, peerRst bool
	pending                      []*sim.TCPEnd // listener: actor clients not yet accepted
	dgramSeq                     int
	everFailed                   bool
	fdGone                       bool // the descriptor was closed underneath the object
}

type loop struct {
	c        *Ctx
	w        *sim.World
	ioc      *sonic.IO
	objs     []*lObj
	ops      []*lOp
	depth    int
	maxDepth int
	quiesce  bool
	cbRuns   int // completion callbacks executed (for "poll dispatched something")
	// configuration of the owning scenario
	behaviours         func(s *loop, op *lOp) // what a completion handler does
	checkData          bool                   // C02: verify stream contents
	onCb               func(op *lOp)
	streamSeed         uint64
	nextPort           int
	lastPollDispatched bool
	fifoCap            int  // 0: drawn per object
	ignoreAvoid        bool // directed demonstration of an open known finding
}

var (
	lpInline        = sim.RegStat("probe:loop-op-completed-inline")
	lpDeferred      = sim.RegStat("probe:loop-op-deferred")
	lpAtLimit       = sim.RegStat("probe:loop-op-started-at-dispatch-limit")
	lpCancelled     = sim.RegStat("probe:loop-op-cancelled")
	lpCrossClose    = sim.RegStat("probe:loop-handler-closed-other-object")
	lpUDPPortClosed = sim.RegStat("probe:loop-udp-conn-remote-port-closed")
	lpDataWithEOF   = sim.RegStat("probe:loop-adapter-reader-returns-last-bytes-with-eof")
	lpCrossCancel   = sim.RegStat("probe:loop-handler-cancelled-other-object")
	lpBoth          = sim.RegStat("probe:loop-read-and-write-in-flight-together")
	lpErrDone       = sim.RegStat("probe:loop-op-completed-with-error")
	lpAllMulti      = sim.RegStat("probe:loop-*All-needed-several-wakeups")
)

// dataWithEOF wraps the adapted conn the way tls.Conn behaves: when the end of the stream is already
// known (FIN received, nothing more queued) the read that returns the last bytes returns io.EOF with them.
type dataWithEOF struct {
	c   *shimnet.SimConn
	end func() *sim.TCPEnd
}

func (d *dataWithEOF) Read(p []byte) (int, error) {
	n, err := d.c.Read(p)
	if err == nil && n > 0 {
		if e := d.end(); e != nil && e.FinReceived() && e.RecvQueued() == 0 {
			return n, io.EOF
		}
	}
	return n, err
}
func (d *dataWithEOF) Write(p []byte) (int, error) { return d.c.Write(p) }
func (d *dataWithEOF) Close() error                { return d.c.Close() }

func newLoop(c *Ctx) *loop {
	ioc, err := sonic.NewIO()
	if err != nil {
		sim.Bug("NewIO: %v", err)
	}
	return &loop{c: c, w: c.W, ioc: ioc, streamSeed: c.W.DataU64(), nextPort: 7000}
}

// g is the position-dependent byte generator: any slice identifies its own
// stream and offset.
func (s *loop) g(stream uint64, off int64) byte {
	x := (uint64(off)+1)*0x9e3779b97f4a7c15 ^ stream ^ s.streamSeed
	x ^= x >> 31
	x *= 0xbf58476d1ce4e5b9
	x ^= x >> 29
	return byte(x)
}

func (s *loop) fill(p []byte, stream uint64, off int64) {
	for i := range p {
		p[i] = s.g(stream, off+int64(i))
	}
}

func (s *loop) inStream(o *lObj) uint64  { return uint64(o.ix)*2 + 1 }
func (s *loop) outStream(o *lObj) uint64 { return uint64(o.ix)*2 + 2 }

var loopIP = [4]byte{127, 0, 0, 1}

func (s *loop) pickFifoCap() int {
	if s.fifoCap > 0 {
		return s.fifoCap
	}
	return s.w.Pick(65536, 1, 7, 64, 4096)
}

// ---------------------------------------------------------------------------
// object construction

func (s *loop) addObj(k lKind) *lObj {
	w := s.w
	o := &lObj{ix: len(s.objs), kind: k}
	s.nextPort++
	o.port = s.nextPort
	switch k {
	case lkConnDial:
		al := w.K.ActorListen(loopIP, o.port, sim.ConnAccept)
		al.OnConn(func(e *sim.TCPEnd) { o.end = e })
		conn, err := sonic.Dial(s.ioc, "tcp", fmt.Sprintf("127.0.0.1:%d", o.port))
		if err != nil {
			sim.Bug("Dial: %v", err)
		}
		o.fd = conn
		o.rawFd = conn.RawFd()
		al.Close()
	case lkConnAcc:
		ln, err := sonic.Listen(s.ioc, "tcp", fmt.Sprintf("127.0.0.1:%d", o.port), sonicopts.Nonblocking(true))
		if err != nil {
			sim.Bug("Listen: %v", err)
		}
		o.end = w.K.ActorConnect([4]byte{127, 0, 0, 1}, loopIP, o.port)
		w.Drain(2_000_000_000)
		conn, err := ln.Accept()
		if err != nil {
			sim.Bug("Accept: %v", err)
		}
		o.fd = conn
		o.rawFd = conn.RawFd()
		ln.Close()
	case lkAdapter:
		al := w.K.ActorListen(loopIP, o.port, sim.ConnAccept)
		al.OnConn(func(e *sim.TCPEnd) { o.end = e })
		nc, err := shimnet.DialTimeout("tcp", fmt.Sprintf("127.0.0.1:%d", o.port), 0)
		if err != nil {
			sim.Bug("DialTimeout: %v", err)
		}
		al.Close()
		o.conn = nc.(*shimnet.SimConn)
		var rw io.ReadWriter = o.conn
		if w.Chance(1, 3) {
			shimnet.ShortWrites = true // the adapter's resume path for a writer that accepts a prefix
		}
		if w.Chance(1, 2) {
			// an io.Reader may return the last bytes together with the error that follows them; tls.Conn
			// (what the websocket client adapts for wss://) does so when close_notify is queued behind data
			w.Stat(lpDataWithEOF)
			rw = &dataWithEOF{c: o.conn, end: func() *sim.TCPEnd { return w.K.EndOf(o.conn.Fd()) }}
		}
		sonic.NewAsyncAdapter(s.ioc, o.conn, rw, func(err error, a *sonic.AsyncAdapter) {
			if err != nil {
				sim.Bug("NewAsyncAdapter: %v", err)
			}
			o.fd = a
		})
		o.rawFd = o.fd.RawFd()
		w.K.SetNonblock(o.rawFd, true)
		// net.Conn.Write blocks the calling goroutine - here the whole loop -
		// until everything is written, so the remote process must keep reading
		// on its own or the simulated world deadlocks by construction.
		o.end.OnData = func() {
			w.After(0, "adapter-peer-drains", func() { s.peerDrain(o, 1<<20) })
		}
	case lkFifoR:
		o.path = fmt.Sprintf("/fifo%d", o.ix)
		o.fifo = w.K.MkFifo(o.path, s.pickFifoCap())
		o.fifo.ActorOpenWriter()
		f, err := sonic.Open(s.ioc, o.path, syscall.O_RDONLY|syscall.O_NONBLOCK, 0)
		if err != nil {
			sim.Bug("Open: %v", err)
		}
		o.fd = f
		o.rawFd = f.RawFd()
	case lkFifoW:
		o.path = fmt.Sprintf("/fifo%d", o.ix)
		o.fifo = w.K.MkFifo(o.path, s.pickFifoCap())
		o.fifo.ActorOpenReader()
		f, err := sonic.Open(s.ioc, o.path, syscall.O_WRONLY|syscall.O_NONBLOCK, 0)
		if err != nil {
			sim.Bug("Open: %v", err)
		}
		o.fd = f
		o.rawFd = f.RawFd()
	case lkRegular:
		o.path = fmt.Sprintf("/file%d", o.ix)
		content := make([]byte, 1<<16)
		s.fill(content, s.inStream(o), 0)
		w.K.MkFile(o.path, content)
		f, err := sonic.Open(s.ioc, o.path, syscall.O_RDWR, 0)
		if err != nil {
			sim.Bug("Open: %v", err)
		}
		o.fd = f
		o.rawFd = f.RawFd()
	case lkListener:
		ln, err := sonic.Listen(s.ioc, "tcp", fmt.Sprintf("127.0.0.1:%d", o.port), sonicopts.Nonblocking(true))
		if err != nil {
			sim.Bug("Listen: %v", err)
		}
		o.lis = ln
		o.rawFd = ln.RawFd()
	case lkConnUDP:
		// the remote endpoint is a socket of the harness bound to the port the conn is connected to; when the
		// harness closes it, datagrams sonic sends are answered with ICMP port unreachable and the conn learns of
		// that as an asynchronous socket error (EPOLLERR alone)
		pfd, e := w.K.Socket(syscall.AF_INET, syscall.SOCK_DGRAM|syscall.SOCK_NONBLOCK, 0)
		if e != 0 {
			sim.Bug("peer socket: %v", e)
		}
		if e := w.K.Bind(pfd, loopIP, o.port); e != 0 {
			sim.Bug("peer bind: %v", e)
		}
		o.peerFd = pfd
		conn, err := sonic.Dial(s.ioc, "udp", fmt.Sprintf("127.0.0.1:%d", o.port))
		if err != nil {
			sim.Bug("Dial udp: %v", err)
		}
		o.fd = conn
		o.rawFd = conn.RawFd()
		_, lport, _ := w.K.Getsockname(o.rawFd)
		o.localPort = lport
	case lkPacket:
		pc, err := sonic.NewPacketConn(s.ioc, "udp", fmt.Sprintf("127.0.0.1:%d", o.port))
		if err != nil {
			sim.Bug("NewPacketConn: %v", err)
		}
		o.pc = pc
		o.rawFd = pc.RawFd()
	case lkPeer:
		p, err := multicast.NewUDPPeer(s.ioc, "udp", fmt.Sprintf("127.0.0.1:%d", o.port))
		if err != nil {
			sim.Bug("NewUDPPeer: %v", err)
		}
		o.peer = p
		o.rawFd = p.NextLayer().RawFd()
	}
	if k.stream() {
		if o.end == nil {
			sim.Bug("no actor end for %s", k)
		}
		o.myEnd = w.K.EndOf(o.rawFd)
		if o.myEnd == nil {
			sim.Bug("no kernel end for %s fd=%d", k, o.rawFd)
		}
	}
	o.gen = w.K.GenOf(o.rawFd)
	s.objs = append(s.objs, o)
	w.Tracef("obj %d %s fd=%d", o.ix, k.String(), o.rawFd)
	return o
}

// ---------------------------------------------------------------------------
// starting operations

func (s *loop) newOp(o *lObj, k lOpKind, size int, beh int) *lOp {
	if o.closed {
		sim.Bug("operation started on closed object %d", o.ix)
	}
	op := &lOp{id: len(s.ops), obj: o, kind: k, beh: beh, startDepth: s.depth}
	if size > 0 {
		op.buf = make([]byte, size)
	}
	op.atLimit = s.ioc.Dispatched >= sonic.MaxCallbackDispatch
	if op.atLimit {
		s.w.Stat(lpAtLimit)
	}
	s.ops = append(s.ops, op)
	if k.isRead() {
		if o.rd != nil {
			sim.Bug("second read on obj %d", o.ix)
		}
		o.rd = op
		op.startOff = o.inOff
	} else {
		if o.wr != nil {
			sim.Bug("second write on obj %d", o.ix)
		}
		o.wr = op
		op.startOff = o.outOff
	}
	if o.rd != nil && o.wr != nil {
		s.w.Stat(lpBoth)
	}
	s.w.Tracef("op %d start %s obj=%d size=%d depth=%d", op.id, lOpNames[k], o.ix, size, s.depth)
	return op
}

func (s *loop) afterStart(op *lOp) {
	op.returned = true
	if op.completions == 0 {
		s.w.Stat(lpDeferred)
	}
}

func (s *loop) canRead(o *lObj) bool {
	if o.closed || o.rd != nil {
		return false
	}
	switch o.kind {
	case lkFifoW:
		return false
	case lkRegular:
		// open known finding: a regular file cannot be deferred to epoll
		if s.c.Avoid["regular-file-at-dispatch-limit"] && !s.ignoreAvoid && s.ioc.Dispatched >= sonic.MaxCallbackDispatch {
			return false
		}
	}
	return true
}

func (s *loop) canWrite(o *lObj) bool {
	if o.closed || o.wr != nil {
		return false
	}
	switch o.kind {
	case lkFifoR, lkListener, lkRegular:
		return false
	}
	return true
}

// startRead starts the read-side operation natural for the object.
func (s *loop) startRead(o *lObj, all bool, size int, beh int) *lOp {
	switch o.kind {
	case lkListener:
		op := s.newOp(o, opAccept, 0, beh)
		o.lis.AsyncAccept(func(err error, conn sonic.Conn) {
			op.conn = conn
			s.complete(op, err, 0)
		})
		s.afterStart(op)
		return op
	case lkPacket:
		op := s.newOp(o, opReadFrom, size, beh)
		o.pc.AsyncReadFrom(op.buf, func(err error, n int, from net.Addr) {
			s.complete(op, err, n)
		})
		s.afterStart(op)
		return op
	case lkPeer:
		op := s.newOp(o, opReadFrom, size, beh)
		o.peer.AsyncRead(op.buf, func(err error, n int, from netip.AddrPort) {
			s.complete(op, err, n)
		})
		s.afterStart(op)
		return op
	}
	k := opRead
	if all {
		k = opReadAll
	}
	op := s.newOp(o, k, size, beh)
	if o.myEnd != nil {
		op.movedAtStart = o.myEnd.Consumed
	}
	cb := func(err error, n int) { s.complete(op, err, n) }
	if all {
		o.fd.AsyncReadAll(op.buf, cb)
	} else {
		o.fd.AsyncRead(op.buf, cb)
	}
	s.afterStart(op)
	return op
}

func (s *loop) startWrite(o *lObj, all bool, size int, beh int) *lOp {
	if o.kind == lkPeer {
		op := s.newOp(o, opWriteTo, size, beh)
		s.fill(op.buf, s.outStream(o), int64(o.dgramSeq)*70000)
		o.dgramSeq++
		to := netip.AddrPortFrom(netip.AddrFrom4([4]byte{10, 0, 0, 99}), 9999)
		o.peer.AsyncWrite(op.buf, to, func(err error, n int) { s.complete(op, err, n) })
		s.afterStart(op)
		return op
	}
	if o.kind == lkPacket {
		op := s.newOp(o, opWriteTo, size, beh)
		s.fill(op.buf, s.outStream(o), int64(o.dgramSeq)*70000)
		o.dgramSeq++
		to := &net.UDPAddr{IP: net.IPv4(10, 0, 0, 99), Port: 9999}
		o.pc.AsyncWriteTo(op.buf, to, func(err error) { s.complete(op, err, len(op.buf)) })
		s.afterStart(op)
		return op
	}
	k := opWrite
	if all {
		k = opWriteAll
	}
	op := s.newOp(o, k, size, beh)
	s.fill(op.buf, s.outStream(o), o.outOff)
	if o.myEnd != nil {
		op.movedAtStart = o.myEnd.Accepted
	}
	cb := func(err error, n int) { s.complete(op, err, n) }
	if all {
		o.fd.AsyncWriteAll(op.buf, cb)
	} else {
		o.fd.AsyncWrite(op.buf, cb)
	}
	s.afterStart(op)
	return op
}

// ---------------------------------------------------------------------------
// completion ledger

func (s *loop) complete(op *lOp, err error, n int) {
	w, c := s.w, s.c
	o := op.obj
	op.completions++
	s.cbRuns++
	w.Tracef("op %d complete #%d %s obj=%d n=%d err=%v depth=%d", op.id, op.completions, lOpNames[op.kind], o.ix, n, err, s.depth)
	if op.completions > 1 {
		c.Failf("double-completion/"+o.kind.String()+"/"+lOpNames[op.kind], "operation %d (%s on %s) completed %d times (second: err=%v n=%d)", op.id, lOpNames[op.kind], o.kind, op.completions, err, n)
	}
	if o.closed {
		c.Failf("callback-after-close/"+o.kind.String()+"/"+lOpNames[op.kind], "operation %d (%s on %s): callback invoked after Close returned (err=%v n=%d)", op.id, lOpNames[op.kind], o.kind, err, n)
	}
	op.err, op.n = err, n
	op.inline = !op.returned
	if op.inline {
		w.Stat(lpInline)
	}
	if err != nil {
		w.Stat(lpErrDone)
		o.everFailed = true
	}
	if op.kind.isRead() {
		if o.rd == op {
			o.rd = nil
		}
	} else if o.wr == op {
		o.wr = nil
	}
	s.depth++
	if s.depth > s.maxDepth {
		s.maxDepth = s.depth
	}
	if s.onCb != nil {
		s.onCb(op)
	}
	if s.checkData {
		s.checkCompletion(op)
	} else {
		s.advanceOffsets(op)
	}
	if s.behaviours != nil && !s.quiesce {
		s.behaviours(s, op)
	}
	s.depth--
}

// advanceOffsets keeps stream positions in step when contents are not judged.
func (s *loop) advanceOffsets(op *lOp) {
	o := op.obj
	switch op.kind {
	case opRead, opReadAll:
		if op.n > 0 {
			o.inOff += int64(op.n)
		}
		if op.err != nil {
			o.inBroken = true
		}
	case opWrite, opWriteAll:
		if op.n > 0 {
			o.outOff += int64(op.n)
		}
		if op.err != nil {
			o.outBroken = true
		}
	case opAccept:
		if op.err == nil && op.conn != nil {
			// the accepted conn is closed at once; what matters here is the accept itself
			op.conn.Close()
		}
	}
}

// checkCompletion: C02's offset ledger.
func (s *loop) checkCompletion(op *lOp) {
	c := s.c
	o := op.obj
	name := o.kind.String() + "/" + lOpNames[op.kind]
	switch op.kind {
	case opRead, opReadAll:
		if op.n < 0 || op.n > len(op.buf) {
			c.Failf("count-out-of-range/"+name, "op %d: n=%d with a %d-byte buffer", op.id, op.n, len(op.buf))
		}
		if o.inBroken {
			return
		}
		if o.myEnd != nil {
			moved := o.myEnd.Consumed - op.movedAtStart
			if op.err == nil && int64(op.n) != moved {
				c.Failf("count-mismatch/"+name, "op %d reported n=%d but the kernel moved %d bytes into the caller's buffer", op.id, op.n, moved)
			}
			if op.err != nil && int64(op.n) > moved {
				c.Failf("count-exceeds-transferred/"+name, "op %d failed (%v) reporting n=%d, the kernel moved only %d bytes", op.id, op.err, op.n, moved)
			}
			if op.err != nil && int64(op.n) < moved {
				// bytes taken out of the stream and not reported can never be delivered any more
				c.Failf("bytes-consumed-but-not-reported/"+name, "op %d failed (%v) reporting n=%d although %d bytes of the stream were moved into the caller's buffer: the other %d are lost to the application", op.id, op.err, op.n, moved, moved-int64(op.n))
			}
		}
		byCancel := op.cancelled && errors.Is(op.err, sonicerrors.ErrCancelled)
		if op.err != nil && !byCancel && !o.peerFin && !o.peerClosed && !o.peerRst && !o.fdGone {
			c.Failf("error-on-healthy-stream/"+name, "op %d failed with %v (n=%d) although the peer neither closed nor reset the connection and the kernel reported no error", op.id, op.err, op.n)
		}
		if op.err == nil {
			if op.n == 0 {
				c.Failf("zero-bytes-nil-error/"+name, "op %d completed with (nil, 0)", op.id)
			}
			if op.kind == opReadAll && op.n != len(op.buf) {
				c.Failf("readall-short-success/"+o.kind.String(), "AsyncReadAll(op %d) reported success with n=%d of %d", op.id, op.n, len(op.buf))
			}
		}
		for i := 0; i < op.n; i++ {
			if want := s.g(s.inStream(o), o.inOff+int64(i)); op.buf[i] != want {
				c.Failf("read-data-mismatch/"+name, "op %d: byte %d of the completion (stream offset %d) is %#x, the peer wrote %#x", op.id, i, o.inOff+int64(i), op.buf[i], want)
			}
		}
		o.inOff += int64(op.n)
		if op.err != nil && !byCancel {
			o.inBroken = true // a cancelled read leaves the stream usable: the application resumes from the reported count
		}
	case opWrite, opWriteAll:
		if op.n < 0 || op.n > len(op.buf) {
			c.Failf("count-out-of-range/"+name, "op %d: n=%d with a %d-byte buffer", op.id, op.n, len(op.buf))
		}
		if o.outBroken {
			return
		}
		byCancel := op.cancelled && errors.Is(op.err, sonicerrors.ErrCancelled)
		if op.err != nil && !byCancel && !o.peerFin && !o.peerClosed && !o.peerRst && !o.fdGone {
			c.Failf("error-on-healthy-stream/"+name, "op %d failed with %v (n=%d) although the peer neither closed nor reset the connection and the kernel reported no error", op.id, op.err, op.n)
		}
		if o.myEnd != nil {
			moved := o.myEnd.Accepted - op.movedAtStart
			if op.err == nil && int64(op.n) != moved {
				c.Failf("count-mismatch/"+name, "op %d reported n=%d but the kernel accepted %d bytes from the caller's buffer", op.id, op.n, moved)
			}
			if op.err != nil && int64(op.n) > moved {
				c.Failf("count-exceeds-transferred/"+name, "op %d failed (%v) reporting n=%d, the kernel accepted only %d bytes", op.id, op.err, op.n, moved)
			}
			if byCancel && int64(op.n) < moved {
				// the application resumes from the reported count: what was written and not reported is written again
				c.Failf("bytes-written-but-not-reported/"+name, "op %d was cancelled reporting n=%d although the kernel accepted %d bytes from the caller's buffer: resuming from the reported count sends the other %d twice", op.id, op.n, moved, moved-int64(op.n))
			}
			// keep the generator aligned with what really entered the stream
			o.outOff += moved
			if op.err != nil && !byCancel {
				o.outBroken = true
			}
			if op.err == nil && op.kind == opWriteAll && op.n != len(op.buf) {
				c.Failf("writeall-short-success/"+o.kind.String(), "AsyncWriteAll(op %d) reported success with n=%d of %d", op.id, op.n, len(op.buf))
			}
			return
		}
		if op.err == nil && op.kind == opWriteAll && op.n != len(op.buf) {
			c.Failf("writeall-short-success/"+o.kind.String(), "AsyncWriteAll(op %d) reported success with n=%d of %d", op.id, op.n, len(op.buf))
		}
		o.outOff += int64(op.n)
		if op.err != nil && !byCancel {
			o.outBroken = true
		}
	default:
		s.advanceOffsets(op)
	}
}

// ---------------------------------------------------------------------------
// cancel / close

func (s *loop) doCancel(o *lObj) {
	if o.closed || o.fd == nil {
		return
	}
	w, c := s.w, s.c
	var covered []*lOp
	for _, op := range []*lOp{o.rd, o.wr} {
		if op != nil && op.completions == 0 && op.returned {
			covered = append(covered, op)
		}
	}
	w.Tracef("cancel obj=%d covering %d ops", o.ix, len(covered))
	for _, op := range covered {
		op.cancelled = true
	}
	o.fd.Cancel()
	for _, op := range covered {
		if op.exempt || o.closed {
			continue // a nested callback closed the object first
		}
		w.Stat(lpCancelled)
		if op.completions != 1 {
			c.Failf("cancel-did-not-complete/"+o.kind.String()+"/"+lOpNames[op.kind], "Cancel on %s returned but in-flight operation %d has %d completions", o.kind, op.id, op.completions)
		}
		if !errors.Is(op.err, sonicerrors.ErrCancelled) && !o.fdGone {
			c.Failf("cancel-wrong-error/"+o.kind.String()+"/"+lOpNames[op.kind], "Cancel completed operation %d with err=%v (n=%d), want ErrCancelled", op.id, op.err, op.n)
		}
	}
}

func (s *loop) doClose(o *lObj) {
	if o.closed {
		return
	}
	s.w.Tracef("close obj=%d", o.ix)
	for _, op := range []*lOp{o.rd, o.wr} {
		if op != nil {
			op.exempt = true
		}
	}
	var err error
	switch {
	case o.fd != nil:
		err = o.fd.Close()
	case o.lis != nil:
		err = o.lis.Close()
	case o.pc != nil:
		err = o.pc.Close()
	case o.peer != nil:
		err = o.peer.Close()
	}
	_ = err
	o.closed = true
	o.rd, o.wr = nil, nil
}

// ---------------------------------------------------------------------------
// peers

// peerSend lets the actor write n bytes of its stream towards sonic.
func (s *loop) peerSend(o *lObj, n int) {
	if n <= 0 {
		return
	}
	switch {
	case o.end != nil:
		if o.peerFin || o.peerClosed || o.peerRst {
			return
		}
		b := make([]byte, n)
		s.fill(b, s.inStream(o), o.peerSent)
		o.peerSent += int64(o.end.ActorSend(b))
	case o.kind == lkFifoR:
		if o.peerClosed {
			return
		}
		b := make([]byte, n)
		s.fill(b, s.inStream(o), o.peerSent)
		o.peerSent += int64(o.fifo.ActorWrite(b))
	case o.kind == lkConnUDP:
		if o.closed {
			return
		}
		if o.peerClosed {
			if !s.quiesce {
				return
			}
			// quiescence: the remote endpoint comes back, so that a pending read can be satisfied
			pfd, e := s.w.K.Socket(syscall.AF_INET, syscall.SOCK_DGRAM|syscall.SOCK_NONBLOCK, 0)
			if e != 0 || s.w.K.Bind(pfd, loopIP, o.port) != 0 {
				sim.Bug("conn-udp: the remote endpoint cannot be re-opened")
			}
			o.peerFd, o.peerClosed = pfd, false
		}
		if n > 1400 {
			n = 1400
		}
		b := make([]byte, n)
		s.fill(b, s.inStream(o), o.peerSent)
		if e := s.w.K.Sendto(o.peerFd, b, loopIP, o.localPort); e == 0 {
			o.peerSent += int64(n)
		}
	}
}

// peerDrain lets the actor read what sonic wrote and verifies it.
func (s *loop) peerDrain(o *lObj, max int) {
	var b []byte
	switch {
	case o.end != nil:
		b = o.end.ActorRecv(max)
	case o.kind == lkFifoW:
		if o.peerClosed {
			return
		}
		b = o.fifo.ActorRead(max)
	case o.kind == lkConnUDP:
		if o.peerClosed {
			return
		}
		buf := make([]byte, 65536)
		for {
			n, _, _, e := s.w.K.Recvfrom(o.peerFd, buf)
			if e != 0 {
				break
			}
			o.peerGot += int64(n)
		}
		return
	default:
		return
	}
	if s.checkData {
		for i, x := range b {
			if want := s.g(s.outStream(o), o.peerGot+int64(i)); x != want {
				s.c.Failf("peer-data-mismatch/"+o.kind.String(), "the peer of obj %d received %#x at stream offset %d, sonic was given %#x to write there", o.ix, x, o.peerGot+int64(i), want)
			}
		}
	}
	o.peerGot += int64(len(b))
}

func (s *loop) peerHalfClose(o *lObj) {
	if o.end != nil && !o.peerFin && !o.peerClosed && !o.peerRst {
		o.peerFin = true
		o.end.ActorShutdownWrite()
	}
}

func (s *loop) peerClose(o *lObj) {
	switch {
	case o.end != nil:
		if !o.peerClosed && !o.peerRst {
			s.peerDrain(o, 1<<30)
			o.peerClosed = true
			o.end.ActorClose()
		}
	case o.kind == lkFifoR:
		if !o.peerClosed {
			o.peerClosed = true
			o.fifo.ActorCloseWriter()
		}
	case o.kind == lkFifoW:
		if !o.peerClosed {
			o.peerClosed = true
			o.fifo.ActorCloseReader()
		}
	case o.kind == lkConnUDP:
		if !o.peerClosed {
			// the remote port closes: from now on what sonic sends comes back as a socket error
			o.peerClosed = true
			s.w.Stat(lpUDPPortClosed)
			s.w.K.Close(o.peerFd)
		}
	}
}

func (s *loop) peerReset(o *lObj) {
	if o.end != nil && !o.peerRst && !o.peerClosed {
		o.peerRst = true
		o.end.ActorAbort()
	}
}

func (s *loop) peerConnect(o *lObj) {
	if o.kind == lkListener && !o.closed {
		o.pending = append(o.pending, s.w.K.ActorConnect([4]byte{127, 0, 0, 1}, loopIP, o.port))
	}
}

func (s *loop) peerDatagram(o *lObj, n int) {
	if (o.kind != lkPacket && o.kind != lkPeer) || o.closed {
		return
	}
	b := make([]byte, n)
	s.fill(b, s.inStream(o), int64(o.dgramSeq)*70000)
	o.dgramSeq++
	s.w.K.ActorUDPSend(sim.Dgram{ID: 1000*o.ix + o.dgramSeq, Data: b, SrcIP: [4]byte{127, 0, 0, 1}, SrcPort: 5555, DstIP: loopIP, DstPort: o.port}, "lo")
}

// ---------------------------------------------------------------------------
// polling

// poll runs one poll cycle through the given API variant and reports whether
// any completion callback ran.
func (s *loop) poll(variant int) (n int, err error, ran bool) {
	before := s.cbRuns
	kc := s.w.KernelCalls
	switch variant {
	case 0:
		n, err = s.ioc.PollOne()
	case 1:
		err = s.ioc.RunOneFor(1_000_000)
	case 2:
		err = s.ioc.RunOneFor(20_000_000)
	}
	if err != nil && err != sonicerrors.ErrTimeout {
		s.c.Failf("poll-error", "poll returned %v", err)
	}
	if s.depth != 0 {
		sim.Bug("poll at depth %d", s.depth)
	}
	if s.ioc.Dispatched != 0 {
		// the stack is unwound: nothing is being dispatched
		s.c.Failf("depth-accounting-not-restored", "IO.Dispatched=%d after the poll returned, with no completion callback on the stack", s.ioc.Dispatched)
	}
	// a poll that dispatched a handler enters the kernel at least twice
	// (epoll_wait, then the handler's epoll_ctl / read / write)
	s.lastPollDispatched = s.w.KernelCalls-kc > 1 || s.cbRuns > before
	return n, err, s.cbRuns > before
}

// inFlight lists operations that have not completed on objects that were not closed.
func (s *loop) inFlight() []*lOp {
	var out []*lOp
	for _, o := range s.objs {
		if o.closed {
			continue
		}
		for _, op := range []*lOp{o.rd, o.wr} {
			if op != nil && op.completions == 0 {
				out = append(out, op)
			}
		}
	}
	return out
}

// settle is the bounded-liveness phase: faults are off, handlers stop
// misbehaving, actors satisfy every pending operation, the loop is polled.
// Every operation on a never-closed object must complete exactly once.
func (s *loop) settle() {
	w, c := s.w, s.c
	s.quiesce = true
	w.StopFaults()
	idleRounds := 0
	emptyPolls := 0
	budget := 400
	for _, op := range s.inFlight() {
		budget += 3 * len(op.buf)
	}
	for round := 0; round < budget; round++ {
		pend := s.inFlight()
		if len(pend) == 0 {
			break
		}
		for _, op := range pend {
			o := op.obj
			switch op.kind {
			case opRead, opReadAll:
				if o.kind == lkRegular {
					break
				}
				if o.kind == lkConnUDP {
					// datagrams: what a short buffer cut off is gone, so the byte accounting says nothing; a
					// pending read is satisfied by a datagram whenever none is queued
					if w.K.UDPQueued(o.rawFd) == 0 && w.PendingEvents() == 0 && !w.K.UDPErrorPending(o.rawFd) {
						// (a pending socket error completes the read by itself)
						n := len(op.buf)
						if n < 1 {
							n = 1
						}
						s.peerSend(o, n)
					}
					break
				}
				if o.peerSent-o.inOff < int64(len(op.buf)) {
					s.peerSend(o, len(op.buf))
				}
			case opWrite, opWriteAll:
				s.peerDrain(o, 1<<20)
			case opAccept:
				if w.K.ListenQueueLen(o.rawFd) == 0 && !w.K.ConnectsInFlight() {
					s.peerConnect(o)
				}
			case opReadFrom:
				if w.K.UDPQueued(o.rawFd) == 0 && w.PendingEvents() == 0 {
					s.peerDatagram(o, 8)
				}
			case opWriteTo:
			}
		}
		w.Drain(5_000_000_000)
		w.Advance(1_000_000)
		n, err, ran := s.poll(0)
		if ran || s.lastPollDispatched {
			idleRounds = 0
			emptyPolls = 0
			continue
		}
		if err == nil && n > 0 {
			// the poller saw events but dispatched no handler
			emptyPolls++
			if emptyPolls >= 5 {
				op := s.inFlight()[0]
				c.Failf("stuck-poll-reports-events-dispatches-nothing/"+op.obj.kind.String()+"/"+lOpNames[op.kind],
					"PollOne keeps returning n=%d without dispatching anything while operation %d (%s on %s) is pending and its descriptor is signalled", n, op.id, lOpNames[op.kind], op.obj.kind)
			}
			continue
		}
		idleRounds++
		if idleRounds > 30 {
			break
		}
	}
	for _, op := range s.inFlight() {
		o := op.obj
		c.Failf("never-completed/"+o.kind.String()+"/"+lOpNames[op.kind], "operation %d (%s on %s, started at depth %d, at-limit=%v) never completed although the object was not closed, its peer made it completable and the loop was polled",
			op.id, lOpNames[op.kind], o.kind, op.startDepth, op.atLimit)
	}
}

func (s *loop) closeAll() {
	for _, o := range s.objs {
		if o.kind == lkConnUDP && !o.peerClosed {
			o.peerClosed = true
			s.w.K.Close(o.peerFd)
		}
	}
	for _, o := range s.objs {
		s.doClose(o)
		if o.conn != nil && !o.conn.Closed() {
			// the stub conn owns no descriptor any more after the adapter closed it
		}
	}
	s.ioc.Close()
}

// expectedPending is C03's ledger: deferred operations on open objects.
func (s *loop) expectedPending() int {
	n := 0
	for _, o := range s.objs {
		if o.closed {
			continue
		}
		if o.rd != nil && o.rd.completions == 0 {
			n++
		}
		if o.wr != nil && o.wr.completions == 0 {
			n++
		}
	}
	return n
}

var _ = io.EOF
