package scen

import (
	"bytes"
	"fmt"
	"syscall"

	"github.com/talostrading/sonic/codec/websocket"

	shimnet "sonicverif/shim/net"
	"sonicverif/sim"
)

// C16 Every frame the WebSocket client writes is well-formed and correctly masked.

func init() {
	Register("C16", &Scenario{Name: "writes-random", Weight: 10, Run: func(c *Ctx, v int) { runC16(c, -1) }})
	Register("C16", &Scenario{Name: "size-class-pairs", Directed: len(c16Sizes) * len(c16Sizes), Run: func(c *Ctx, v int) { runC16(c, v) }})
}

var c16Sizes = []int{0, 1, 125, 126, 65535, 65536}

var (
	c16pReuseLonger  = sim.RegStat("probe:c16-write-after-a-longer-one")
	c16pReuseShorter = sim.RegStat("probe:c16-write-after-a-shorter-one")
	c16pBare         = sim.RegStat("probe:c16-caller-frame-without-SetPayload")
	c16pAutoPong     = sim.RegStat("probe:c16-automatic-pong-written")
	c16pOversize     = sim.RegStat("probe:c16-oversize-message-refused")
	c16pAsync        = sim.RegStat("probe:c16-async-write")
	c16pTransient    = sim.RegStat("probe:c16-async-write-failed-once-with-a-transient-error")
	c16pBurst        = sim.RegStat("probe:c16-several-writes-submitted-back-to-back")
	c16pNearRoom     = sim.RegStat("probe:c16-frame-ends-within-20-bytes-of-the-write-buffer-end")
	c16pChain        = sim.RegStat("probe:c16-write-started-from-inside-a-write-completion")
	c16p64           = sim.RegStat("probe:c16-64-bit-length-written")
)

type c16 struct {
	*wsSess
	// lossy: one asynchronous write was made to fail with a transient error: its frame may be missing or arrive
	// later, but everything on the wire is still a well-formed masked frame the caller submitted, in order, once
	lossy    bool
	expected []wsFrame
	max      int
	lastSize int
}

func (d *c16) payload(n int) []byte {
	p := make([]byte, n)
	d.w.DataBytes(p)
	return p
}

// nearRoom: a payload size that makes the encoded frame end within a few bytes
// of the end of the stream's write buffer (whose size is state of the stream:
// it grows with the longest message written so far and never shrinks).
func (d *c16) nearRoom() int {
	room := d.ws.VerifWriteRoom()
	size := room - d.w.Range(0, 20)
	if size < 0 || size > d.max {
		size = 4096 - d.w.Range(0, 20)
	}
	if size > d.max {
		size = d.max
	}
	d.w.Stat(c16pNearRoom)
	return size
}

func (d *c16) writeMsg(size int, async bool) {
	c, w := d.c, d.w
	if d.lastSize >= 0 {
		if size < d.lastSize {
			w.Stat(c16pReuseLonger)
		} else if size > d.lastSize {
			w.Stat(c16pReuseShorter)
		}
	}
	d.lastSize = size
	if size > 65535 {
		w.Stat(c16p64)
	}
	p := d.payload(size)
	mt := websocket.TypeBinary
	op := byte(wsBinary)
	if w.Chance(1, 2) {
		mt, op = websocket.TypeText, wsText
	}
	if size > d.max {
		d.settleWire()
	}
	before := len(d.wire())
	var err error
	if async {
		w.Stat(c16pAsync)
		done := false
		d.ws.AsyncWrite(p, mt, func(e error) { err, done = e, true })
		if !d.waitFor(&done) {
			c.Failf("async-write-never-completes", "AsyncWrite of %d bytes: the callback was never invoked", size)
		}
	} else {
		err = d.ws.Write(p, mt)
	}
	if size > d.max {
		w.Stat(c16pOversize)
		if err == nil {
			c.Failf("oversize-message-accepted", "a message of %d bytes (maximum %d) was accepted", size, d.max)
		}
		d.settleWire()
		if len(d.wire()) != before {
			c.Failf("oversize-message-wrote-bytes", "refusing a message of %d bytes still put %d bytes on the wire", size, len(d.wire())-before)
		}
		return
	}
	if err != nil {
		c.Failf("write-failed", "writing a %d-byte message (maximum %d) on a healthy transport failed: %v", size, d.max, err)
	}
	d.expected = append(d.expected, wsFrame{Fin: true, Opcode: op, Payload: p})
}

// writeChain: a send loop - each completion handler submits the next message itself.
func (d *c16) writeChain() {
	c, w := d.c, d.w
	n := w.Range(2, 5)
	w.Stat(c16pChain)
	finished := false
	var step func(i int)
	step = func(i int) {
		size := w.Pick(10, 0, 125, 126, 3000, 65536)
		if size > d.max {
			size = d.max
		}
		if w.Chance(1, 4) {
			size = d.nearRoom()
		}
		if d.lastSize >= 0 && size < d.lastSize {
			w.Stat(c16pReuseLonger)
		}
		d.lastSize = size
		p := d.payload(size)
		d.expected = append(d.expected, wsFrame{Fin: true, Opcode: wsBinary, Payload: p})
		d.ws.AsyncWrite(p, websocket.TypeBinary, func(e error) {
			if e != nil {
				c.Failf("write-failed", "AsyncWrite of %d bytes, started from the previous write's completion, failed on a healthy transport: %v", size, e)
			}
			if i+1 < n {
				step(i + 1)
			} else {
				finished = true
			}
		})
	}
	step(0)
	if !d.waitFor(&finished) {
		c.Failf("async-write-never-completes", "a chain of %d AsyncWrite calls, each started from the previous completion: a callback was never invoked", n)
	}
}

// writeBurst: several messages are submitted back to back, none waited for: whatever piles up behind the write in
// flight must still leave in submission order.
func (d *c16) writeBurst() {
	c, w := d.c, d.w
	n := w.Range(3, 6)
	w.Stat(c16pBurst)
	completed := 0
	all := false
	for i := 0; i < n; i++ {
		size := w.Pick(10, 0, 125, 126, 3000, 65536)
		if size > d.max {
			size = d.max
		}
		if w.Chance(1, 4) {
			size = d.nearRoom()
		}
		d.lastSize = size
		p := d.payload(size)
		d.expected = append(d.expected, wsFrame{Fin: true, Opcode: wsBinary, Payload: p})
		d.ws.AsyncWrite(p, websocket.TypeBinary, func(e error) {
			if e != nil {
				c.Failf("write-failed", "AsyncWrite of %d bytes, submitted while earlier writes were still in flight, failed on a healthy transport: %v", size, e)
			}
			completed++
			all = completed == n
		})
	}
	if !d.waitFor(&all) {
		c.Failf("async-write-never-completes", "%d AsyncWrite calls submitted back to back: only %d callbacks were invoked", n, completed)
	}
}

// writeFailsOnce: the transport fails one asynchronous write with a transient error and stays usable.
func (d *c16) writeFailsOnce() {
	if d.mem == nil || d.mem.pw != nil {
		return
	}
	w := d.w
	w.Stat(c16pTransient)
	d.lossy = true
	p := d.payload(w.Pick(10, 0, 200))
	d.expected = append(d.expected, wsFrame{Fin: true, Opcode: wsBinary, Payload: p})
	d.mem.wrErrOnce = syscall.ENOBUFS
	done := false
	d.ws.AsyncWrite(p, websocket.TypeBinary, func(error) { done = true })
	if !d.waitFor(&done) {
		d.c.Failf("async-write-never-completes", "AsyncWrite never completed after a transient transport error")
	}
	d.mem.wrErrOnce = nil
}

func (d *c16) writeFrame(async bool) {
	c, w := d.c, d.w
	f := d.ws.AcquireFrame()
	exp := wsFrame{Fin: true}
	switch w.Choose(6) {
	case 0: // bare ping: the caller never calls SetPayload
		f.SetFIN().SetPing()
		exp.Opcode = wsPing
		w.Stat(c16pBare)
	case 1:
		f.SetFIN().SetPong()
		exp.Opcode = wsPong
		w.Stat(c16pBare)
	case 2:
		p := d.payload(w.Pick(4, 0, 1, 125))
		f.SetFIN().SetPing().SetPayload(p)
		exp.Opcode, exp.Payload = wsPing, p
	case 3:
		p := d.payload(w.Pick(10, 0, 126, 300, 70000))
		if len(p) > d.max {
			p = p[:d.max]
		}
		f.SetFIN().SetText().SetPayload(p)
		exp.Opcode, exp.Payload = wsText, p
	case 4: // first fragment of a message
		p := d.payload(w.Pick(3, 0, 200))
		f.SetBinary().SetPayload(p)
		exp.Fin, exp.Opcode, exp.Payload = false, wsBinary, p
		// its final fragment follows immediately
		defer func() {
			g := d.ws.AcquireFrame()
			q := d.payload(w.Pick(2, 0, 130))
			g.SetFIN().SetContinuation().SetPayload(q)
			if err := d.ws.WriteFrame(g); err != nil {
				c.Failf("write-failed", "WriteFrame(continuation): %v", err)
			}
			d.expected = append(d.expected, wsFrame{Fin: true, Opcode: wsCont, Payload: q})
		}()
	case 5: // empty text frame without SetPayload
		f.SetFIN().SetText()
		exp.Opcode = wsText
		w.Stat(c16pBare)
	}
	var err error
	if async {
		w.Stat(c16pAsync)
		done := false
		d.ws.AsyncWriteFrame(f, func(e error) { err, done = e, true })
		if !d.waitFor(&done) {
			c.Failf("async-write-never-completes", "AsyncWriteFrame: the callback was never invoked")
		}
	} else {
		err = d.ws.WriteFrame(f)
	}
	if err != nil {
		c.Failf("write-failed", "WriteFrame on a healthy transport failed: %v", err)
	}
	d.expected = append(d.expected, exp)
}

// pingFromServer: the server pings, the client reads the frame; the Pong the
// read path queues is submitted at that moment.
func (d *c16) pingFromServer(async bool) {
	c, w := d.c, d.w
	n := w.Pick(3, 0, 1, 125)
	if n > d.max {
		n = d.max // the configured maximum bounds incoming frames too
	}
	p := d.payload(n)
	d.feed(wsEncode(wsFrame{Fin: true, Opcode: wsPing, Payload: p}, -1, -1), nil)
	var (
		f   websocket.Frame
		err error
	)
	if async {
		done := false
		d.ws.AsyncNextFrame(func(e error, fr websocket.Frame) { err, f, done = e, fr, true })
		if !d.waitFor(&done) {
			c.Failf("read-never-completes", "AsyncNextFrame never delivered the server's ping")
		}
	} else {
		if d.mem == nil {
			d.w.Drain(1_000_000_000)
		}
		f, err = d.ws.NextFrame()
	}
	if err != nil || !f.Opcode().IsPing() {
		c.Failf("ping-not-delivered", "reading the server's ping: err=%v", err)
	}
	d.expected = append(d.expected, wsFrame{Fin: true, Opcode: wsPong, Payload: p})
	w.Stat(c16pAutoPong)
}

func (d *c16) settleWire() {
	for i := 0; i < 4; i++ {
		d.pump()
	}
	if d.mem == nil {
		d.w.Drain(5_000_000_000)
	}
}

func (d *c16) verify() {
	c := d.c
	// control replies queued by the read path go out with the next flush
	if err := d.ws.Flush(); err != nil {
		c.Failf("write-failed", "Flush on a healthy transport failed: %v", err)
	}
	d.settleWire()
	wire := d.wire()
	frames, rest, err := wsParseAll(wire)
	if err != nil {
		c.Failf("wire-does-not-parse", "the client's byte stream does not parse as RFC 6455 frames: %v", err)
	}
	if d.lossy {
		j := 0
		for i, f := range frames {
			what := fmt.Sprintf("frame %d on the wire (opcode=%d fin=%v payload=%d bytes)", i, f.Opcode, f.Fin, len(f.Payload))
			if !f.Masked {
				c.Failf("frame-not-masked", "%s is not masked", what)
			}
			if f.NonMinimal {
				c.Failf("length-not-minimal", "%s uses a %d-byte extended length", what, f.LenBytes)
			}
			for j < len(d.expected) && !(d.expected[j].Opcode == f.Opcode && d.expected[j].Fin == f.Fin && bytes.Equal(d.expected[j].Payload, f.Payload)) {
				j++
			}
			if j >= len(d.expected) {
				c.Failf("frame-invented-or-repeated-after-transient-error", "%s is not the next of the submitted frames (each at most once, in order)", what)
			}
			j++
		}
		if len(rest) != 0 {
			c.Failf("trailing-bytes-on-wire", "the wire holds %d bytes that are not a whole frame (% x...)", len(rest), head4(rest))
		}
		return
	}
	for i, e := range d.expected {
		if i >= len(frames) {
			c.Failf("frame-missing-on-wire", "%d frames were submitted, the wire holds %d whole frames (+%d trailing bytes); missing: opcode %d, %d payload bytes", len(d.expected), len(frames), len(rest), e.Opcode, len(e.Payload))
		}
		f := frames[i]
		what := fmt.Sprintf("frame %d (submitted opcode=%d fin=%v payload=%d bytes)", i, e.Opcode, e.Fin, len(e.Payload))
		if !f.Masked {
			c.Failf("frame-not-masked", "%s is not masked on the wire", what)
		}
		if f.Opcode != e.Opcode || f.Fin != e.Fin || f.Rsv != 0 {
			c.Failf("frame-header-differs", "%s reached the wire as opcode=%d fin=%v rsv=%d", what, f.Opcode, f.Fin, f.Rsv)
		}
		if len(f.Payload) != len(e.Payload) {
			c.Failf("frame-length-differs", "%s declares %d payload bytes on the wire", what, len(f.Payload))
		}
		if !bytes.Equal(f.Payload, e.Payload) {
			c.Failf("unmasked-payload-differs", "%s: un-masking the wire payload with the frame's key does not give the caller's bytes", what)
		}
		if f.NonMinimal {
			c.Failf("length-not-minimal", "%s uses a %d-byte extended length for %d bytes", what, f.LenBytes, len(f.Payload))
		}
	}
	if len(frames) > len(d.expected) {
		x := frames[len(d.expected)]
		c.Failf("extra-frame-on-wire", "%d frames were submitted, the wire holds %d; first extra: %v", len(d.expected), len(frames), x)
	}
	if len(rest) != 0 {
		c.Failf("trailing-bytes-on-wire", "after the %d submitted frames the wire holds %d more bytes (% x...)", len(d.expected), len(rest), head4(rest))
	}
}

func runC16(c *Ctx, variant int) {
	w := c.W
	d := &c16{wsSess: newWsSess(c), lastSize: -1}
	defer d.close()
	transport := w.Pick(2, 0)
	if variant < 0 {
		w.EnableFaults(sim.FSegment, sim.FShortWrite, sim.FPoolEmpty, sim.FDelay)
		w.TCPSndCap = w.Pick(1<<20, 64, 1500, 70000)
	}
	d.max = w.Pick(100000, 1000, 70000, 4321, 126, 125, 7)
	if variant >= 0 {
		d.max = 100000
		transport = 2 * (variant % 2)
	}
	d.ws.SetMaxMessageSize(d.max)
	if transport == 0 {
		d.connect()
		if variant < 0 && w.Chance(1, 3) {
			// after the handshake (net/http rightly refuses a writer that accepts a prefix without an error): the
			// transport under the adapter accepts writes in parts
			shimnet.ShortWrites = true
		}
		d.srv.end.SetCaps(1<<30, 1<<30)
	} else {
		d.attach()
		d.mem.Partial = w.Chance(2, 3)
		d.mem.Defer = w.Chance(1, 3)
	}
	c.Notef("transport=%d max=%d", transport, d.max)
	if variant >= 0 {
		a, b := c16Sizes[variant%len(c16Sizes)], c16Sizes[(variant/len(c16Sizes))%len(c16Sizes)]
		d.writeMsg(a, false)
		d.writeMsg(b, variant%3 == 0)
		d.writeMsg(a, true)
		d.verify()
		return
	}
	steps := w.Range(2, c.Deep(12))
	for i := 0; i < steps; i++ {
		async := w.Chance(1, 2)
		switch w.Choose(11) {
		case 10:
			d.writeFailsOnce()
		case 9:
			d.writeBurst()
		case 8:
			d.writeChain()
		case 0, 1, 2, 3:
			var size int
			switch w.Choose(11) {
			case 9, 10:
				size = d.nearRoom()
			case 0:
				size = 0
			case 1:
				size = 1
			case 2:
				size = 125
			case 3:
				size = 126
			case 4:
				size = 65535
			case 5:
				size = 65536
			case 6:
				size = d.max
			case 7:
				size = d.max + 1
			default:
				size = w.Range(2, 3000)
			}
			d.writeMsg(size, async)
		case 4, 5:
			d.writeFrame(async)
		case 6:
			d.pingFromServer(async)
		case 7:
			d.settleWire()
		}
	}
	// orderly close started by the client
	if w.Chance(1, 2) {
		if err := d.ws.Close(websocket.CloseNormal, "bye"); err != nil {
			c.Failf("write-failed", "Close: %v", err)
		}
		d.expected = append(d.expected, wsFrame{Fin: true, Opcode: wsClose, Payload: wsClosePayload(1000, "bye")})
	}
	d.verify()
}
