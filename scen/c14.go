package scen

import (
	"github.com/talostrading/sonic"

	"sonicverif/sim"
)

// C14 Inline completions never nest deeper than the dispatch limit.

func init() {
	Register("C14", &Scenario{Name: "chains-random", Weight: 10, Run: func(c *Ctx, v int) { runC14(c, -1) }})
	Register("C14", &Scenario{Name: "chains-per-kind", Directed: len(c14Kinds) * 2, Run: func(c *Ctx, v int) { runC14(c, v) }})
}

var c14Kinds = []lKind{lkConnDial, lkConnAcc, lkFifoR, lkFifoW, lkRegular, lkListener, lkPacket, lkPeer}

var (
	c14pStarved  = sim.RegStat("probe:c14-chain-runs-dry-and-resumes-from-the-poller")
	c14pDeferred = sim.RegStat("probe:c14-op-deferred-at-the-bound")
	c14pDepthMax = sim.RegStat("probe:c14-depth-reached-limit+1")
	c14pCross    = sim.RegStat("probe:c14-chain-hopped-between-objects")
	c14pAll      = sim.RegStat("probe:c14-readall-or-writeall-in-the-chain")
)

type c14 struct {
	*loop
	chain        int
	kindsAtBound map[lKind]bool
}

// keepCompletable makes every object immediately completable for a long chain.
func (d *c14) keepCompletable(o *lObj) {
	w := d.w
	switch o.kind {
	case lkConnDial, lkConnAcc:
		d.peerSend(o, 400*16)
	case lkFifoR:
		d.peerSend(o, 400*16)
	case lkListener:
		for i := 0; i < 340; i++ {
			d.peerConnect(o)
		}
	case lkPacket, lkPeer:
		for i := 0; i < 340; i++ {
			d.peerDatagram(o, 12)
		}
	}
	w.Drain(5_000_000_000)
}

func (d *c14) hop(op *lOp) *lObj {
	w := d.w
	if len(d.objs) > 1 && w.Chance(1, 3) {
		t := d.objs[w.Choose(len(d.objs))]
		if t != op.obj {
			w.Stat(c14pCross)
		}
		return t
	}
	return op.obj
}

func (d *c14) startOn(o *lObj) bool {
	w := d.w
	// on streams a third of the operations are the *All variants: with short reads and writes in the kernel they are
	// completed inline by their second or later system call, which must count like any other inline completion
	all := o.kind.stream() && w.Chance(1, 3)
	if all {
		w.Stat(c14pAll)
	}
	switch {
	case d.canRead(o) && (o.kind == lkFifoR || o.kind == lkRegular || o.kind == lkListener || w.Chance(2, 3)):
		d.startRead(o, all, 16, 1)
	case d.canWrite(o):
		d.startWrite(o, all, 16, 1)
	case d.canRead(o):
		d.startRead(o, all, 16, 1)
	default:
		return false
	}
	return true
}

func (d *c14) behave(s *loop, op *lOp) {
	c := d.c
	limit := sonic.MaxCallbackDispatch
	if op.atLimit {
		d.w.Stat(c14pDeferred)
		d.kindsAtBound[op.obj.kind] = true
		if op.inline {
			c.FailOrTolerate("completed-inline-at-the-bound/"+op.obj.kind.String(), "operation %d (%s on %s) was started with the dispatch counter at its limit and still completed inline (err=%v): it was not deferred to the poller and did not get the result it would have had inline", op.id, lOpNames[op.kind], op.obj.kind, op.err)
			return
		}
		if op.err != nil {
			c.Failf("deferred-result-differs/"+op.obj.kind.String()+"/"+lOpNames[op.kind], "operation %d (%s on %s) was deferred at the bound and completed with err=%v; inline it would have succeeded (the object was immediately completable)", op.id, lOpNames[op.kind], op.obj.kind, op.err)
		}
	}
	if d.depth > limit+1 {
		c.Failf("nesting-exceeds-limit/"+op.obj.kind.String(), "%d completion callbacks are nested on the stack (limit %d + the one dispatched by the poller)", d.depth, limit)
	}
	if d.depth == limit+1 {
		d.w.Stat(c14pDepthMax)
	}
	if op.err != nil {
		c.Failf("unexpected-error/"+op.obj.kind.String()+"/"+lOpNames[op.kind], "operation %d (%s on %s) failed with %v although the object was immediately completable", op.id, lOpNames[op.kind], op.obj.kind, op.err)
	}
	if (op.kind == opRead || op.kind == opReadAll) && op.obj.kind != lkListener {
		for i := 0; i < op.n; i++ {
			if want := d.g(d.inStream(op.obj), op.obj.inOff-int64(op.n)+int64(i)); op.buf[i] != want {
				c.Failf("chain-read-data-mismatch/"+op.obj.kind.String(), "operation %d read %#x at stream offset %d, expected %#x", op.id, op.buf[i], op.obj.inOff-int64(op.n)+int64(i), want)
			}
		}
	}
	if d.chain <= 0 {
		return
	}
	d.chain--
	t := d.hop(op)
	if !d.startOn(t) && !d.startOn(op.obj) {
		for _, o := range d.objs {
			if d.startOn(o) {
				break
			}
		}
	}
}

func runC14(c *Ctx, variant int) {
	w := c.W
	if variant < 0 {
		w.EnableFaults(sim.FEpollPermute, sim.FEpollTruncate, sim.FShortRead, sim.FShortWrite)
		if w.Chance(1, 8) {
			w.K.FdBase = 4090 + w.Choose(10)
		}
	}
	w.UDPQueueCap = 4096
	d := &c14{loop: newLoop(c), kindsAtBound: map[lKind]bool{}}
	d.fifoCap = 65536
	d.behaviours = d.behave
	defer d.closeAll()
	limit := sonic.MaxCallbackDispatch
	starved := false
	if variant >= 0 {
		k := c14Kinds[variant%len(c14Kinds)]
		if k == lkRegular {
			// demonstrate the (open) finding instead of avoiding it
			d.ignoreAvoid = true
		}
		o := d.addObj(k)
		if variant >= len(c14Kinds) {
			d.addObj(c14Kinds[(variant+3)%len(c14Kinds)])
		}
		for _, x := range d.objs {
			d.keepCompletable(x)
		}
		d.chain = 10 * limit
		d.startOn(o)
	} else {
		n := w.Range(1, 5)
		for i := 0; i < n; i++ {
			d.addObj(c14Kinds[w.Choose(len(c14Kinds))])
		}
		starved = w.Chance(1, 3)
		for _, x := range d.objs {
			if starved {
				// little at a time: see below
				switch x.kind {
				case lkConnDial, lkConnAcc, lkFifoR:
					d.peerSend(x, w.Pick(16, 1, 48))
				case lkListener:
					d.peerConnect(x)
				case lkPacket, lkPeer:
					d.peerDatagram(x, 12)
				}
				w.Drain(5_000_000_000)
				continue
			}
			d.keepCompletable(x)
		}
		d.chain = w.Pick(10*limit, limit, limit+1, 2*limit+3, 5*limit)
		d.startOn(d.objs[w.Choose(len(d.objs))])
	}
	if d.ioc.Dispatched != 0 {
		c.Failf("dispatched-not-zero", "IO.Dispatched=%d with the stack unwound", d.ioc.Dispatched)
	}
	// starved: the peers deliver little at a time, so a chain runs dry in the middle - the operation re-issued
	// from inside a completion is deferred (would-block) and completes later from the poller, at depth one
	if starved {
		w.Stat(c14pStarved)
	}
	rounds := 200
	if starved {
		rounds = 600
	}
	for round := 0; round < rounds && (d.chain > 0 || len(d.inFlight()) > 0); round++ {
		for _, o := range d.objs {
			if o.kind == lkFifoW || o.kind.stream() {
				d.peerDrain(o, 1<<20)
			}
			if starved {
				switch {
				case (o.kind == lkFifoR || o.kind.stream()) && o.peerSent-o.inOff == 0:
					d.peerSend(o, w.Pick(1, 7, 40))
				case o.kind == lkListener && w.K.ListenQueueLen(o.rawFd) == 0:
					for i, n := 0, w.Pick(1, 2, 3); i < n; i++ {
						d.peerConnect(o)
					}
				case (o.kind == lkPacket || o.kind == lkPeer) && w.K.UDPQueued(o.rawFd) == 0:
					for i, n := 0, w.Pick(1, 2, 3); i < n; i++ {
						d.peerDatagram(o, 12)
					}
				}
				continue
			}
			if (o.kind == lkFifoR || o.kind.stream()) && o.peerSent-o.inOff < 2000 {
				d.peerSend(o, 6000)
			}
			if o.kind == lkListener && w.K.ListenQueueLen(o.rawFd) < 40 {
				for i := 0; i < 100; i++ {
					d.peerConnect(o)
				}
			}
			if (o.kind == lkPacket || o.kind == lkPeer) && w.K.UDPQueued(o.rawFd) < 40 {
				for i := 0; i < 100; i++ {
					d.peerDatagram(o, 12)
				}
			}
		}
		w.Drain(1_000_000_000)
		_, _, ran := d.poll(0)
		if d.ioc.Dispatched != 0 {
			c.Failf("dispatched-not-zero", "IO.Dispatched=%d with the stack unwound", d.ioc.Dispatched)
		}
		if !ran && len(d.inFlight()) == 0 {
			break
		}
	}
	d.settle()
	if variant >= 0 && d.chain > 0 && len(c.KnownHit) == 0 {
		sim.Bug("c14: directed chain did not finish (%d left after %d ops)", d.chain, len(d.ops))
	}
	if d.ioc.Dispatched != 0 {
		c.Failf("dispatched-not-zero", "IO.Dispatched=%d with the stack unwound", d.ioc.Dispatched)
	}
}
