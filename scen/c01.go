package scen

import (
	"syscall"

	"sonicverif/sim"
)

// C01 Exactly-once completion of every asynchronous operation.

var c01pTwoActs = sim.RegStat("probe:c01-handler-did-two-things")
var c01pStolen = sim.RegStat("probe:c01-handler-took-a-queued-connection-with-blocking-accept")
var c01pRefused = sim.RegStat("probe:c01-registration-refused-by-epoll_ctl-object-used-again")

var c01Kinds = []lKind{lkConnDial, lkConnAcc, lkAdapter, lkFifoR, lkFifoW, lkRegular, lkListener, lkPacket, lkPeer, lkConnUDP}

func init() {
	Register("C01", &Scenario{Name: "mix-random", Weight: 10, Run: func(c *Ctx, v int) { runC01(c, -1) }})
	Register("C01", &Scenario{Name: "pair-directed", Directed: c01DirectedCount, Run: func(c *Ctx, v int) { runC01(c, v) }})
}

type c01 struct {
	*loop
	chain int
}

func (d *c01) pickObj() *lObj { return d.objs[d.w.Choose(len(d.objs))] }

func (d *c01) size() int {
	if (d.w.TCPRcvCap > 0 && d.w.TCPRcvCap <= 16) || (d.w.TCPSndCap > 0 && d.w.TCPSndCap <= 16) {
		return d.w.Pick(16, 1, 2, 7, 64, 300)
	}
	return d.w.Pick(16, 1, 2, 7, 64, 300, 4096, 20000)
}

// startSomething starts an operation on o if the direction is free.
func (d *c01) startSomething(o *lObj, preferRead bool, beh int) bool {
	w := d.w
	if o.closed {
		return false
	}
	tryRead := func() bool {
		if !d.canRead(o) {
			return false
		}
		d.startRead(o, w.Chance(1, 3), d.size(), beh)
		return true
	}
	tryWrite := func() bool {
		if !d.canWrite(o) {
			return false
		}
		d.startWrite(o, w.Chance(1, 3), d.size(), beh)
		return true
	}
	if preferRead {
		return tryRead() || tryWrite()
	}
	return tryWrite() || tryRead()
}

var c01Acts = []int{1, 2, 3, 4, 5, 6, 7, 9}

func (d *c01) behave(s *loop, op *lOp) { d.act(op, op.beh) }

func (d *c01) act(op *lOp, beh int) {
	w := d.w
	o := op.obj
	switch beh {
	case 0:
	case 8: // a handler that does two things (cancel and re-arm, close one object and start on another, ...)
		w.Stat(c01pTwoActs)
		d.act(op, c01Acts[w.Choose(len(c01Acts))])
		d.act(op, c01Acts[w.Choose(len(c01Acts))])
	case 1: // re-issue the same kind on the same object
		if d.chain > 0 && !o.closed {
			d.chain--
			nb := 1
			if w.Chance(1, 8) {
				nb = w.Choose(10)
			}
			if op.kind.isRead() && d.canRead(o) {
				d.startRead(o, op.kind == opReadAll, len(op.buf)+boolInt(op.kind == opAccept)*0+boolInt(len(op.buf) == 0 && op.kind != opAccept), nb)
			} else if !op.kind.isRead() && d.canWrite(o) {
				d.startWrite(o, op.kind == opWriteAll, max1(len(op.buf)), nb)
			}
		}
	case 2: // start the other direction on the same object
		d.startSomething(o, !op.kind.isRead(), w.Choose(3))
	case 3: // cancel itself
		d.doCancel(o)
	case 4: // close itself
		d.doClose(o)
	case 5: // cancel another object
		t := d.pickObj()
		if t != o {
			w.Stat(lpCrossCancel)
		}
		d.doCancel(t)
	case 6: // close another object
		t := d.pickObj()
		if t != o {
			w.Stat(lpCrossClose)
		}
		d.doClose(t)
	case 7: // re-arm another object
		d.startSomething(d.pickObj(), w.Chance(1, 2), w.Choose(4))
	case 9: // take a queued connection with a listener's blocking Accept: a deferred AsyncAccept of the same batch then finds the queue empty
		for _, t := range d.objs {
			if t.kind == lkListener && !t.closed {
				if conn, err := t.lis.Accept(); err == nil {
					w.Stat(c01pStolen)
					conn.Close()
				}
				break
			}
		}
	}
}

func boolInt(b bool) int {
	if b {
		return 1
	}
	return 0
}
func max1(n int) int {
	if n < 1 {
		return 1
	}
	return n
}

func (d *c01) peerAct(o *lObj) {
	w := d.w
	switch o.kind {
	case lkListener:
		d.peerConnect(o)
		return
	case lkPacket, lkPeer:
		if w.Chance(1, 6) && o.rawFd > 0 && !o.closed {
			// announced readable, nothing to read (select(2) BUGS): a deferred read must simply stay pending
			w.K.UDPSpurious(o.rawFd)
			return
		}
		d.peerDatagram(o, w.Pick(8, 1, 100, 1400))
		return
	case lkRegular:
		return
	case lkConnUDP:
		switch w.Choose(6) {
		case 0, 1, 2:
			d.peerSend(o, w.Pick(16, 1, 100, 1400))
		case 3, 4:
			d.peerDrain(o, 1<<20)
		case 5:
			d.peerClose(o)
		}
		return
	}
	switch w.Choose(10) {
	case 0, 1, 2, 3:
		d.peerSend(o, w.Pick(16, 1, 3, 100, 5000, 70000))
	case 4, 5, 6:
		d.peerDrain(o, w.Pick(1<<20, 1, 10, 1000))
	case 7:
		d.peerHalfClose(o)
	case 8:
		d.peerClose(o)
	case 9:
		d.peerReset(o)
	}
}

const c01DirectedKinds = 7
const c01DirectedCount = c01DirectedKinds * c01DirectedKinds * 3 * 2

var c01DirKinds = [c01DirectedKinds]lKind{lkConnDial, lkFifoR, lkListener, lkPacket, lkAdapter, lkConnAcc, lkPeer}

func runC01(c *Ctx, variant int) {
	w := c.W
	if variant < 0 {
		w.EnableFaults(sim.FEpollPermute, sim.FEpollTruncate, sim.FEintr, sim.FSegment, sim.FDelay, sim.FShortRead, sim.FShortWrite)
		w.TCPSndCap = w.Pick(1<<20, 1, 16, 256, 4096)
		w.TCPRcvCap = w.Pick(1<<20, 1, 16, 256, 4096)
		if w.Chance(1, 8) {
			w.K.FdBase = 4090 + w.Choose(10)
		}
	}
	d := &c01{loop: newLoop(c)}
	d.behaviours = d.behave
	defer d.closeAll()

	if variant >= 0 {
		d.directed(variant)
		d.settle()
		return
	}
	nObj := w.Range(2, 6)
	for i := 0; i < nObj; i++ {
		d.addObj(c01Kinds[w.Choose(len(c01Kinds))])
	}
	d.chain = w.Pick(5, 0, 40, 70)
	steps := w.Range(8, c.Deep(40))
	for i := 0; i < steps; i++ {
		switch w.Choose(13) {
		case 12:
			// the kernel refuses one registration (epoll_ctl: ENOMEM, ENOSPC): that operation completes once with the
			// error, and the object is as usable as before - what is started on it afterwards (same direction
			// included) completes, and a Cancel completes nothing a second time
			o := d.pickObj()
			w.FailNth(sim.CkEpollCtl, 1, syscall.Errno(w.Pick(int(syscall.ENOMEM), int(syscall.ENOSPC))))
			before := d.cbRuns
			started := d.startSomething(o, w.Chance(1, 2), 0)
			w.FailNth(sim.CkEpollCtl, 0, 0)
			if started && d.cbRuns > before && d.ops[len(d.ops)-1].err != nil {
				w.Stat(c01pRefused)
				switch w.Choose(3) {
				case 0:
					d.doCancel(o)
				case 1:
					d.startSomething(o, true, 0)
					d.startSomething(o, false, 0)
				}
			}
		case 0, 1, 2, 3:
			d.startSomething(d.pickObj(), w.Chance(2, 3), w.Choose(10))
		case 4, 5, 6:
			d.peerAct(d.pickObj())
		case 7, 8:
			w.RunDue()
			d.poll(w.Choose(3))
		case 9:
			w.Advance(int64(w.Pick(1_000, 0, 1_000_000, 2_000_000_000)))
		case 10:
			d.doCancel(d.pickObj())
		case 11:
			if w.Chance(1, 3) {
				d.doClose(d.pickObj())
			} else {
				w.RunDue()
			}
		}
	}
	d.settle()
}

// directed: two objects with a pending read become ready in the same batch;
// the first handler cancels / closes / re-arms the second.
func (d *c01) directed(v int) {
	w := d.w
	ka := c01DirKinds[v%c01DirectedKinds]
	kb := c01DirKinds[(v/c01DirectedKinds)%c01DirectedKinds]
	act := (v / (c01DirectedKinds * c01DirectedKinds)) % 3
	permute := (v / (c01DirectedKinds * c01DirectedKinds * 3)) % 2
	if permute == 1 {
		w.ForceFault(sim.FEpollPermute, 1)
	}
	a := d.addObj(ka)
	b := d.addObj(kb)
	behA := []int{5, 6, 7}[act]
	d.startRead(a, false, 32, behA)
	if d.canRead(b) {
		d.startRead(b, false, 32, 0)
	}
	// make both ready before the poll
	for _, o := range []*lObj{a, b} {
		switch o.kind {
		case lkListener:
			d.peerConnect(o)
		case lkPacket, lkPeer:
			d.peerDatagram(o, 16)
		default:
			d.peerSend(o, 16)
		}
	}
	w.Advance(1_000_000)
	d.poll(0)
	w.Advance(1_000_000)
	d.poll(0)
}
