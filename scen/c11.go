package scen

import (
	"encoding/binary"
	"fmt"
	"syscall"

	"github.com/talostrading/sonic"
	sbytes "github.com/talostrading/sonic/bytes"

	"sonicverif/sim"
)

// C11 MirroredBuffer is a contiguous-claim ring for every accepted size.
//
// System: a stream receiver (length-prefixed messages over simulated TCP with
// arbitrary segmentation) that claims free space, reads asynchronously into
// the claim, commits, parses and consumes - on a REAL mirrored mapping (the
// MMU aliasing is the property; mmap is the real kernel's, the simulator
// supplies the stream, the schedule and the injected failures).

func init() {
	Register("C11", &Scenario{Name: "stream-receiver", Weight: 10, Directed: len(c11Sizes), Run: func(c *Ctx, v int) { runC11(c, v) }})
	Register("C11", &Scenario{Name: "constructor-fault-enumeration", Directed: 1, Run: func(c *Ctx, v int) {
		for i, cs := range c13Cases {
			if cs.name == "NewMirroredBuffer" {
				runC13Enum(c, i)
			}
		}
	}})
}

var c11Sizes = []int{1, 4095, 4096, 4097, 8192, 12288, 20480, 32768, 131072}

var (
	c11pCross    = sim.RegStat("probe:c11-claim-crosses-end-of-ring")
	c11pNonPow2  = sim.RegStat("probe:c11-non-power-of-two-size")
	c11pRounded  = sim.RegStat("probe:c11-size-rounded-up")
	c11pOverFree = sim.RegStat("probe:c11-claim-or-commit-above-free-space")
	c11pOverUsed = sim.RegStat("probe:c11-consume-above-used-space")
	c11pWrapped  = sim.RegStat("probe:c11-tail-wrapped")
	c11pFull     = sim.RegStat("probe:c11-buffer-full")
	c11pReset    = sim.RegStat("probe:c11-reset")
)

type c11 struct {
	c    *Ctx
	w    *sim.World
	b    *sbytes.MirroredBuffer
	base []byte // the first mapping, obtained from the very first claim
	size int
	head int // model: ring offset of the oldest byte
	used int
	pos  int64 // stream offset of the oldest queued byte
}

func c11Byte(off int64) byte { return byte((off*2654435761)>>7) ^ byte(off) }

func (d *c11) tail() int { return (d.head + d.used) % d.size }

func (d *c11) check(where string) {
	c, b := d.c, d.b
	if b.UsedSpace() != d.used || b.FreeSpace() != d.size-d.used {
		c.Failf("used-free-accounting", "%s: UsedSpace()=%d FreeSpace()=%d, model used=%d of %d", where, b.UsedSpace(), b.FreeSpace(), d.used, d.size)
	}
	if b.UsedSpace()+b.FreeSpace() != b.Size() {
		c.Failf("used-plus-free", "%s: used %d + free %d != size %d", where, b.UsedSpace(), b.FreeSpace(), b.Size())
	}
	if b.Full() != (d.used == d.size) {
		c.Failf("full-flag", "%s: Full()=%v with %d of %d bytes used", where, b.Full(), d.used, d.size)
	}
	// every queued byte, read through the first mapping, is what the stream carried
	for i := 0; i < d.used; i++ {
		if got, want := d.base[(d.head+i)%d.size], c11Byte(d.pos+int64(i)); got != want {
			c.Failf("queued-byte-corrupted", "%s: the queued byte at ring offset %d (stream offset %d) reads %#x, the stream carried %#x", where, (d.head+i)%d.size, d.pos+int64(i), got, want)
		}
	}
}

// claim checks the layout of a claim of n bytes.
func (d *c11) claim(n int) []byte {
	c, w := d.c, d.w
	free := d.size - d.used
	cl := d.b.Claim(n)
	want := n
	if want > free {
		want = free
		w.Stat(c11pOverFree)
	}
	if want < 0 {
		want = 0
	}
	if len(cl) != want {
		c.Failf("claim-length", "Claim(%d) with %d bytes free returned %d bytes", n, free, len(cl))
	}
	if len(cl) == 0 {
		return nil
	}
	off := int(addr(cl) - addr(d.base))
	if addr(cl) < addr(d.base) || off > 2*d.size {
		c.Failf("claim-outside-the-mapping", "Claim(%d) returned a slice that does not lie in the buffer's mapping", n)
	}
	if off != d.tail() {
		c.Failf("claim-not-at-tail", "Claim(%d) starts at offset %d of the mapping; %d bytes are queued from offset %d, so successive commits must continue at offset %d (size %d)", n, off, d.used, d.head, d.tail(), d.size)
	}
	if off+len(cl) > d.size {
		w.Stat(c11pCross)
	}
	return cl
}

func runC11(c *Ctx, variant int) {
	w := c.W
	d := &c11{c: c, w: w}
	req := c11Sizes[w.Choose(len(c11Sizes))]
	if variant >= 0 {
		req = c11Sizes[variant]
	}
	before := realCensus()
	b, err := sbytes.NewMirroredBuffer(req, w.Chance(1, 2))
	if err != nil {
		sim.Bug("NewMirroredBuffer(%d): %v", req, err)
	}
	d.b = b
	page := syscall.Getpagesize()
	d.size = b.Size()
	if d.size < req || d.size%page != 0 || d.size-req >= page {
		c.Failf("size-rounding", "NewMirroredBuffer(%d) has Size()=%d (page %d)", req, d.size, page)
	}
	if d.size != req {
		w.Stat(c11pRounded)
	}
	if d.size&(d.size-1) != 0 {
		w.Stat(c11pNonPow2)
	}
	destroyed := false
	defer func() {
		if !destroyed {
			b.Destroy()
		}
	}()
	first := b.Claim(d.size)
	if len(first) != d.size {
		c.Failf("claim-length", "a new buffer of size %d grants Claim(%d) of %d bytes", d.size, d.size, len(first))
	}
	d.base = first
	// the double mapping: what is written past the end of the ring is the start of the ring
	two := first[:d.size:d.size]
	_ = two
	d.check("new")

	// --- the stream
	ioc, err := sonic.NewIO()
	if err != nil {
		sim.Bug("NewIO: %v", err)
	}
	defer ioc.Close()
	w.EnableFaults(sim.FSegment, sim.FShortRead, sim.FDelay)
	w.TCPRcvCap = w.Pick(1<<20, 100, 5000)
	al := w.K.ActorListen(loopIP, 6300, sim.ConnAccept)
	var end *sim.TCPEnd
	al.OnConn(func(e *sim.TCPEnd) { end = e })
	conn, err := sonic.Dial(ioc, "tcp", "127.0.0.1:6300")
	if err != nil {
		sim.Bug("Dial: %v", err)
	}
	defer conn.Close()
	al.Close()
	// messages: 4-byte length + body, the whole stream is c11Byte(offset) except the prefixes
	var sent int64
	total := int64(w.Pick(3*d.size, d.size/2, 2*d.size+17, 6*d.size))
	if total > 600000 {
		total = 600000
	}
	reading := false
	var pendingClaim []byte
	var arm func()
	arm = func() {
		if reading {
			return
		}
		want := w.Pick(d.size, 1, 100, 4096, d.size+1, 3*d.size)
		cl := d.claim(want)
		if cl == nil {
			w.Stat(c11pFull)
			return
		}
		reading = true
		pendingClaim = cl
		conn.AsyncRead(cl, func(err error, n int) {
			reading = false
			if err != nil {
				c.Failf("read-failed", "stream read failed: %v", err)
			}
			free := d.size - d.used
			commit := n
			if n == free && w.Chance(1, 3) {
				commit = n + w.Pick(1, 100000) // commits above the free space are clamped
			}
			got := d.b.Commit(commit)
			want := commit
			if want > free {
				want = free
				w.Stat(c11pOverFree)
			}
			if got != want {
				c.Failf("commit-result", "Commit(%d) with %d bytes free returned %d", commit, free, got)
			}
			if got > n {
				// the clamped surplus never was stream data: give it back by treating it as filler is not possible,
				// so such commits are only issued when they clamp to exactly n
				sim.Bug("c11: over-commit was not clamped to what was read")
			}
			if (d.head+d.used)%d.size+got >= d.size {
				w.Stat(c11pWrapped)
			}
			d.used += got
			_ = pendingClaim
			d.check("after Commit")
		})
	}
	consume := func() {
		if d.used == 0 {
			return
		}
		n := w.Pick(d.used, 1, d.used/2+1, d.used+1, d.used+100000)
		got := d.b.Consume(n)
		want := n
		if want > d.used {
			want = d.used
			w.Stat(c11pOverUsed)
		}
		if got != want {
			c.Failf("consume-result", "Consume(%d) with %d bytes used returned %d", n, d.used, got)
		}
		d.head = (d.head + got) % d.size
		d.used -= got
		d.pos += int64(got)
		d.check("after Consume")
	}
	for round := 0; round < 20000; round++ {
		if sent < total {
			n := w.Pick(1000, 1, 7, 4096, d.size, 70000)
			if int64(n) > total-sent {
				n = int(total - sent)
			}
			p := make([]byte, n)
			for i := range p {
				p[i] = c11Byte(sent + int64(i))
			}
			sent += int64(end.ActorSend(p))
		}
		// an over-commit is only legal to test when it clamps to what was read: keep such claims full-sized
		arm()
		w.Advance(int64(w.Pick(100_000, 0, 2_000_000)))
		for k := 0; k < 4; k++ {
			if _, err := ioc.PollOne(); err != nil {
				break
			}
		}
		if w.Chance(2, 3) {
			consume()
		}
		if w.Chance(1, 300) && !reading {
			w.Stat(c11pReset)
			d.b.Reset()
			d.pos += int64(d.used)
			d.head, d.used = 0, 0
			d.check("after Reset")
		}
		if sent >= total && !end.InFlight() && w.K.EndOf(conn.RawFd()).RecvQueued() == 0 && d.pos+int64(d.used) >= total {
			break
		}
	}
	// quiescence: the rest of the stream is received and consumed without further choices
	w.StopFaults()
	for idle := 0; d.pos < total && idle < 200; {
		before := d.pos + int64(d.used)
		if sent < total {
			p := make([]byte, total-sent)
			for i := range p {
				p[i] = c11Byte(sent + int64(i))
			}
			sent += int64(end.ActorSend(p))
		}
		arm()
		w.Drain(5_000_000_000)
		w.Advance(2_000_000)
		for k := 0; k < 4; k++ {
			if _, err := ioc.PollOne(); err != nil {
				break
			}
		}
		for d.used > 0 {
			consume()
		}
		if d.pos+int64(d.used) == before {
			idle++
		} else {
			idle = 0
		}
	}
	if d.pos != total {
		c.Failf("stream-incomplete", "the receiver consumed %d of %d stream bytes", d.pos, total)
	}
	// bytes written through a claim that crosses the end of the ring are the start of the ring
	if !reading {
		d.b.Reset()
		d.head, d.used = 0, 0
		k := d.size - 3
		if got := d.b.Commit(k); got != k {
			c.Failf("commit-result", "Commit(%d) on an empty buffer of size %d returned %d", k, d.size, got)
		}
		d.used = k
		if got := d.b.Consume(k - 1); got != k-1 {
			c.Failf("consume-result", "Consume(%d) returned %d", k-1, got)
		}
		d.head, d.used = k-1, 1
		cl := d.b.Claim(10)
		if len(cl) == 10 {
			binary.BigEndian.PutUint64(cl[2:], 0x1122334455667788)
			// cl[3:10] lies beyond the end of the first mapping: it must be base[0:7]
			for i := 3; i < 10; i++ {
				if d.base[i-3] != cl[i] {
					c.Failf("mirror-not-aliased", "byte %d written through a claim that crosses the end of the ring (size %d) does not appear at offset %d of the ring's start", i, d.size, i-3)
				}
			}
			w.Stat(c11pCross)
		} else {
			c.Failf("claim-length", "Claim(10) with %d bytes free returned %d bytes", d.size-1, len(cl))
		}
	}
	if err := b.Destroy(); err != nil {
		c.Failf("destroy-failed", "Destroy: %v", err)
	}
	destroyed = true
	if after := realCensus(); after != before {
		c.Failf("resources-left-after-destroy", "creating and destroying a buffer of size %d left resources behind: descriptors %+d, mappings %+d, backing files %+d", d.size, after[0]-before[0], after[1]-before[1], after[2]-before[2])
	}
	_ = fmt.Sprint
}
