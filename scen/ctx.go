// Package scen holds the per-property scenarios: workloads that drive the
// rewritten sonic through its public API inside a sim.World, the actors that
// play its peers, and the oracles.
package scen

import (
	"fmt"
	"runtime/debug"
	"sort"
	"strings"

	"os"
	"path/filepath"
	shimnet "sonicverif/shim/net"
	"sonicverif/sim"
	"syscall"
)

// Failure describes one oracle violation. Sig identifies the violation class
// (oracle id + the facts that characterise it); minimisation keeps a candidate
// only if it fails with the same Sig, and known findings are matched on it.
type Failure struct {
	Property string `json:"property"`
	Scenario string `json:"scenario"`
	Sig      string `json:"signature"`
	Msg      string `json:"message"`
}

type stopRun struct{}

// Ctx is what a scenario gets.
type Ctx struct {
	W        *sim.World
	Prop     string
	Scenario string
	Thorough bool
	Fail     *Failure
	// Avoid lists input classes switched off because an open known finding
	// would otherwise end most runs at their first step (DESIGN.md §8 (b)).
	Avoid map[string]bool
	// Notes are scenario-chosen knobs recorded for the sample/replay file.
	Notes []string
	// KnownHit counts oracle hits that matched an open known finding and were
	// therefore tolerated inside the run (only where the scenario can go on).
	KnownHit []string
	Known    func(sig string) bool
}

// Failf records the first violation of the run and stops the run.
func (c *Ctx) Failf(sig string, format string, a ...any) {
	if c.Fail == nil {
		c.Fail = &Failure{Property: c.Prop, Scenario: c.Scenario, Sig: c.Prop + "/" + sig, Msg: fmt.Sprintf(format, a...)}
		c.W.Tracef("VIOLATION %s: %s", c.Fail.Sig, c.Fail.Msg)
	}
	panic(stopRun{})
}

// Tolerate reports whether sig is an open known finding that the scenario may
// step over (the hit is recorded). If it is not known, the run fails.
func (c *Ctx) FailOrTolerate(sig string, format string, a ...any) {
	full := c.Prop + "/" + sig
	if c.Known != nil && c.Known(full) {
		c.KnownHit = append(c.KnownHit, full)
		c.W.Tracef("known-finding %s", full)
		return
	}
	c.Failf(sig, format, a...)
}

func (c *Ctx) Notef(format string, a ...any) {
	c.Notes = append(c.Notes, fmt.Sprintf(format, a...))
}

// Assert is for harness-internal expectations (not properties of sonic).
func (c *Ctx) Assert(ok bool, format string, a ...any) {
	if !ok {
		sim.Bug(format, a...)
	}
}

// Scenario is one workload+oracle for a property.
type Scenario struct {
	Name     string
	Weight   int // relative share of random runs (0 = directed only)
	Directed int // number of directed variants (run with Variant=0..Directed-1 before random ones)
	Run      func(c *Ctx, variant int)
	Thorough bool // only in the thorough tier
}

var registry = map[string][]*Scenario{}

func Register(prop string, s *Scenario) {
	registry[prop] = append(registry[prop], s)
}

func Properties() []string {
	var out []string
	for k := range registry {
		out = append(out, k)
	}
	sort.Strings(out)
	return out
}

func Scenarios(prop string) []*Scenario { return registry[prop] }

// Outcome of one run.
type Outcome struct {
	Prop      string
	Scenario  string
	Variant   int
	Seed      uint64
	Fail      *Failure
	Harness   string // non-empty: harness problem (inconclusive)
	Tape      []uint32
	TraceHash uint64
	Trace     []string
	Stats     []int
	Steps     int
	SimNs     int64
	Notes     []string
	KnownHit  []string
}

// RunOne executes one scenario run. variant<0: random run.
// WaitHook is called after a run had to wait for other worker processes (not
// for anything it simulates): the driver restarts its hang watchdog's clock.
var WaitHook func()

// Exclusive serialises, across the worker processes of one check, a step in
// which a defective sonic may allocate gigabytes (a dropped length limit):
// sixteen workers doing that side by side would make every run crawl. On
// correct code the lock is held for microseconds. It does not influence what
// a run does, only when.
func Exclusive(name string) (unlock func()) {
	exe, err := os.Executable()
	if err != nil {
		return func() {}
	}
	f, err := os.OpenFile(filepath.Join(filepath.Dir(exe), name+".lock"), os.O_CREATE|os.O_RDWR, 0o644)
	if err != nil {
		return func() {}
	}
	if err := syscall.Flock(int(f.Fd()), syscall.LOCK_EX); err != nil {
		f.Close()
		return func() {}
	}
	if WaitHook != nil {
		WaitHook()
	}
	return func() {
		syscall.Flock(int(f.Fd()), syscall.LOCK_UN)
		f.Close()
	}
}

// Deep scales an upper bound of a run (steps, objects, messages): the thorough
// tier explores histories three times as long as the quick tier's.
func (c *Ctx) Deep(hi int) int {
	if c.Thorough {
		return hi * 3
	}
	return hi
}

func RunOne(prop string, sc *Scenario, variant int, seed uint64, replay []uint32, trace bool, thorough bool, known func(string) bool, avoid map[string]bool) (out Outcome) {
	shimnet.ResetRegistry()
	w := sim.NewWorld(seed, replay)
	w.TraceOn = trace
	c := &Ctx{W: w, Prop: prop, Scenario: sc.Name, Thorough: thorough, Known: known, Avoid: avoid}
	out = Outcome{Prop: prop, Scenario: sc.Name, Variant: variant, Seed: seed}
	func() {
		defer func() {
			r := recover()
			if r == nil {
				return
			}
			switch v := r.(type) {
			case stopRun:
			case sim.HarnessBug:
				out.Harness = v.Error() + "\n" + string(debug.Stack())
			case sim.BlockedForever:
				if c.Fail == nil {
					c.Fail = &Failure{Property: prop, Scenario: sc.Name, Sig: prop + "/blocked-forever/" + v.Where, Msg: v.Error()}
				}
			default:
				st := string(debug.Stack())
				if origin := panicOrigin(st); origin == "sonic" {
					if c.Fail == nil {
						c.Fail = &Failure{Property: prop, Scenario: sc.Name, Sig: prop + "/panic/" + panicSite(st), Msg: fmt.Sprintf("panic in sonic code: %v", r)}
						w.Tracef("VIOLATION panic %v", fmt.Sprint(r))
					}
				} else {
					out.Harness = fmt.Sprintf("panic in harness code: %v\n%s", r, st)
				}
			}
		}()
		sc.Run(c, variant)
	}()
	if len(w.TaskPanics) > 0 && c.Fail == nil && out.Harness == "" {
		msg := fmt.Sprint(w.TaskPanics[0])
		if strings.Contains(msg, "github.com/talostrading/sonic") && !strings.Contains(firstFrames(msg, 6), "sonicverif/") {
			c.Fail = &Failure{Property: prop, Scenario: sc.Name, Sig: prop + "/panic/task", Msg: msg}
		} else {
			out.Harness = "panic in task: " + msg
		}
	}
	out.Fail = c.Fail
	out.Tape = append([]uint32(nil), w.Tape()...)
	out.TraceHash = w.TraceHash()
	out.Trace = w.TraceLines()
	out.Stats = w.StatsSnapshot()
	out.Steps = w.Steps
	out.SimNs = w.Now
	out.Notes = c.Notes
	out.KnownHit = c.KnownHit
	w.Close()
	return out
}

// panicOrigin inspects a stack captured in a deferred recover and tells
// whether the innermost non-runtime frame of the panicking call chain belongs
// to sonic or to the harness.
func panicOrigin(stack string) string {
	lines := strings.Split(stack, "\n")
	seenPanic := false
	for _, l := range lines {
		if strings.HasPrefix(l, "panic(") || strings.HasPrefix(l, "runtime.gopanic") || strings.Contains(l, "runtime.panic") || strings.HasPrefix(l, "runtime.goPanic") || strings.HasPrefix(l, "runtime.sigpanic") {
			seenPanic = true
			continue
		}
		if !seenPanic || strings.HasPrefix(l, "\t") || strings.HasPrefix(l, "runtime.") || strings.HasPrefix(l, "runtime/") || l == "" {
			continue
		}
		if strings.HasPrefix(l, "github.com/talostrading/sonic") {
			return "sonic"
		}
		// standard library frames between the panic and sonic (e.g. encoding/binary
		// called by sonic) are skipped
		if strings.HasPrefix(l, "sonicverif/shim/") || strings.HasPrefix(l, "sonicverif/sim.") || strings.HasPrefix(l, "sonicverif/sim/") {
			// a panic raised inside the simulator on behalf of sonic: look at who called it
			continue
		}
		if strings.HasPrefix(l, "sonicverif/") {
			return "harness"
		}
	}
	return "harness"
}

func panicSite(stack string) string {
	lines := strings.Split(stack, "\n")
	for _, l := range lines {
		if strings.HasPrefix(l, "github.com/talostrading/sonic") {
			if i := strings.Index(l, "("); i > 0 {
				l = l[:i]
			}
			l = strings.TrimPrefix(l, "github.com/talostrading/sonic")
			return strings.Trim(l, "/.")
		}
	}
	return "unknown"
}

func firstFrames(s string, n int) string {
	lines := strings.Split(s, "\n")
	if len(lines) > 2*n {
		lines = lines[:2*n]
	}
	return strings.Join(lines, "\n")
}
