package scen

import (
	"syscall"
	"time"

	"github.com/talostrading/sonic"
	"github.com/talostrading/sonic/sonicerrors"

	"sonicverif/sim"
)

// C03 Event-loop accounting and RunPending termination.

func init() {
	Register("C03", &Scenario{Name: "accounting-random", Weight: 10, Run: func(c *Ctx, v int) { runC03(c) }})
}

type c03Timer struct {
	t      *sonic.Timer
	armed  bool
	closed bool
}

type c03 struct {
	*loop
	timers   []*c03Timer
	posted   int // posted, not yet run
	postRuns int
	chain    int
}

var (
	c03pRunPending = sim.RegStat("probe:c03-RunPending-called-with-work-in-flight")
	c03pRegFail    = sim.RegStat("probe:c03-registration-failed")
	c03pUnder      = sim.RegStat("probe:c03-descriptor-closed-underneath")
	c03pNothing    = sim.RegStat("probe:c03-PollOne-with-nothing-ready")
	c03pEintrWait  = sim.RegStat("probe:c03-blocking-wait-under-eintr")
	c03pSibling    = sim.RegStat("probe:c03-timer-callback-cancelled-and-rearmed-a-sibling-timer")
	c03pTwice      = sim.RegStat("probe:c03-interest-set-or-unset-twice")
)

func (d *c03) ledger() int {
	n := d.expectedPending() + d.posted
	for _, t := range d.timers {
		if t.armed {
			n++
		}
	}
	return n
}

func (d *c03) checkPending(where string) {
	if d.depth != 0 {
		return
	}
	got := int(d.ioc.Pending())
	want := d.ledger()
	if got != want {
		d.c.Failf("pending-mismatch", "%s: Pending()=%d, operations in flight=%d (deferred ops %d, posted %d, armed timers %d)", where, got, want, d.expectedPending(), d.posted, want-d.expectedPending()-d.posted)
	}
	if d.ioc.Posted() != d.posted {
		d.c.Failf("posted-mismatch", "%s: Posted()=%d, handlers posted and not yet run=%d", where, d.ioc.Posted(), d.posted)
	}
}

func (d *c03) pickObj() *lObj { return d.objs[d.w.Choose(len(d.objs))] }

func (d *c03) size() int {
	if (d.w.TCPRcvCap > 0 && d.w.TCPRcvCap <= 16) || (d.w.TCPSndCap > 0 && d.w.TCPSndCap <= 16) {
		return d.w.Pick(16, 1, 2, 7, 64)
	}
	return d.w.Pick(16, 1, 7, 64, 300, 4096)
}

func (d *c03) startOn(o *lObj, beh int) {
	w := d.w
	if o.closed {
		return
	}
	if w.Chance(2, 3) && d.canRead(o) {
		d.startRead(o, w.Chance(1, 3), d.size(), beh)
	} else if d.canWrite(o) {
		d.startWrite(o, w.Chance(1, 3), d.size(), beh)
	}
}

// the object kinds of C03's histories (the connected-datagram conn of C01 is not among them: its reads cannot be
// made completable once the remote port is closed, which RunPending's liveness oracle needs)
var c03Kinds = []lKind{lkConnDial, lkConnAcc, lkAdapter, lkFifoR, lkFifoW, lkRegular, lkListener, lkPacket, lkPeer}

func (d *c03) behave(s *loop, op *lOp) {
	w := d.w
	if op.err != nil {
		return
	}
	switch op.beh {
	case 1:
		if d.chain > 0 {
			d.chain--
			d.startOn(op.obj, 1)
		}
	case 2:
		d.startOn(d.pickObj(), 0)
	case 3:
		d.post(w.Choose(2))
	case 4:
		d.doCancel(op.obj)
	}
}

func (d *c03) post(beh int) {
	d.posted++
	err := d.ioc.Post(func() {
		d.posted--
		d.postRuns++
		d.cbRuns++
		d.depth++
		if beh == 1 && !d.quiesce {
			d.startOn(d.pickObj(), 0)
		}
		d.depth--
	})
	if err != nil {
		d.c.Failf("post-error", "Post: %v", err)
	}
}

func (d *c03) armTimer(t *c03Timer) {
	if t.closed || t.armed {
		return
	}
	dur := time.Duration(d.w.Pick(1_000_000, 1_000, 50_000_000, 2_000_000_000))
	t.armed = true
	err := t.t.ScheduleOnce(dur, func() {
		t.armed = false
		d.cbRuns++
		if len(d.timers) > 1 && !d.quiesce && d.w.Chance(1, 3) {
			// a timer's callback cancels and re-arms a sibling - which may have expired in the same poll cycle, its
			// entry still further down the batch
			if sib := d.timers[d.w.Choose(len(d.timers))]; sib != t && !sib.closed {
				d.w.Stat(c03pSibling)
				if sib.t.Cancel() == nil {
					sib.armed = false
				}
				d.armTimer(sib)
			}
		}
	})
	if err != nil {
		// registration failed (injected): nothing is in flight
		t.armed = false
		d.w.Stat(c03pRegFail)
	}
}

// pollChecked runs one poll cycle and judges its return value.
func (d *c03) pollChecked(variant int) {
	w, c := d.w, d.c
	w.RunDue()
	before := d.cbRuns
	switch variant {
	case 0:
		ready := w.K.EpollReadyCount(3 + boolInt(w.K.FdBase > 3)*(w.K.FdBase-3)) // the epoll instance is the world's first descriptor
		n, err := d.ioc.PollOne()
		ran := d.cbRuns > before
		if err != nil && err != sonicerrors.ErrTimeout {
			c.Failf("poll-error/PollOne", "PollOne returned %v", err)
		}
		if ran && !(n > 0 && err == nil) {
			c.Failf("pollone-dispatched-but-reported-none", "PollOne dispatched a handler but returned n=%d err=%v", n, err)
		}
		if ready == 0 {
			w.Stat(c03pNothing)
			if err != sonicerrors.ErrTimeout || n != 0 {
				c.Failf("pollone-nothing-ready-not-timeout", "nothing was ready, PollOne returned n=%d err=%v (want 0, ErrTimeout)", n, err)
			}
		}
	case 1:
		if w.FaultEnabled(sim.FEintr) {
			w.Stat(c03pEintrWait)
		}
		err := d.ioc.RunOneFor(time.Duration(w.Pick(1, 3, 40, 3000)) * time.Millisecond)
		if err != nil && err != sonicerrors.ErrTimeout {
			c.Failf("poll-error/RunOneFor", "RunOneFor returned %v", err)
		}
	case 2:
		// RunOne blocks until an event: only when the ledger says something will come
		if d.willProgress() {
			if w.FaultEnabled(sim.FEintr) {
				w.Stat(c03pEintrWait)
			}
			if err := d.ioc.RunOne(); err != nil && err != sonicerrors.ErrTimeout {
				c.Failf("poll-error/RunOne", "RunOne returned %v", err)
			}
		}
	}
}

// willProgress: an armed timer or a posted handler guarantees that a blocking
// wait returns.
func (d *c03) willProgress() bool {
	if d.posted > 0 {
		return true
	}
	for _, t := range d.timers {
		if t.armed {
			return true
		}
	}
	return false
}

// runPending arranges for every in-flight operation to become completable
// (actors act at future virtual instants) and calls RunPending.
func (d *c03) runPending() {
	w, c := d.w, d.c
	d.quiesce = true
	defer func() { d.quiesce = false }()
	for _, op := range d.inFlight() {
		o := op.obj
		op := op
		delay := int64(w.Pick(1_000, 0, 1_000_000, 300_000_000))
		switch op.kind {
		case opRead, opReadAll:
			if o.kind == lkRegular {
				continue
			}
			w.After(delay, "actor-send", func() {
				if need := int64(len(op.buf)) - (o.peerSent - o.inOff); need > 0 {
					d.peerSend(o, int(need))
				}
				if o.peerSent-o.inOff < int64(len(op.buf)) && o.fifo != nil {
					// tiny FIFO: keep topping it up
					var again func()
					again = func() {
						if op.completions == 0 && !o.closed {
							d.peerSend(o, len(op.buf))
							w.After(1_000_000, "actor-send", again)
						}
					}
					w.After(1_000_000, "actor-send", again)
				}
			})
		case opWrite, opWriteAll:
			var drain func()
			drain = func() {
				d.peerDrain(o, 1<<20)
				if op.completions == 0 && !o.closed {
					w.After(1_000_000, "actor-drain", drain)
				}
			}
			w.After(delay, "actor-drain", drain)
		case opAccept:
			if w.K.ListenQueueLen(o.rawFd) == 0 {
				w.After(delay, "actor-connect", func() { d.peerConnect(o) })
			}
		case opReadFrom:
			if w.K.UDPQueued(o.rawFd) == 0 {
				var send func()
				send = func() {
					if op.completions == 0 && !o.closed {
						d.peerDatagram(o, 8)
						w.After(5_000_000, "actor-dgram", send) // loss may be on
					}
				}
				w.After(delay, "actor-dgram", send)
			}
		}
	}
	if d.ledger() > 0 {
		w.Stat(c03pRunPending)
	}
	if w.FaultEnabled(sim.FEintr) {
		w.Stat(c03pEintrWait)
	}
	var err error
	blocked := false
	func() {
		defer func() {
			if r := recover(); r != nil {
				if bf, ok := r.(sim.BlockedForever); ok {
					blocked = true
					_ = bf
					return
				}
				panic(r)
			}
		}()
		err = d.ioc.RunPending()
	}()
	if blocked {
		if d.ledger() == 0 {
			c.Failf("runpending-blocks-with-nothing-in-flight", "RunPending blocked forever although no operation is in flight (Pending()=%d)", d.ioc.Pending())
		}
		op := "?"
		if fl := d.inFlight(); len(fl) > 0 {
			op = lOpNames[fl[0].kind] + " on " + fl[0].obj.kind.String()
		}
		c.Failf("runpending-never-returns/"+op, "RunPending blocked forever with %d operations in flight that their peers had made completable (first: %s)", d.ledger(), op)
	}
	if err != nil {
		c.Failf("runpending-error", "RunPending returned %v", err)
	}
	if l := d.ledger(); l != 0 {
		c.Failf("runpending-returned-early", "RunPending returned while %d operations were still in flight", l)
	}
	d.checkPending("after RunPending")
}

func runC03(c *Ctx) {
	w := c.W
	w.EnableFaults(sim.FEpollPermute, sim.FEpollTruncate, sim.FEintr, sim.FSegment, sim.FDelay, sim.FShortRead, sim.FShortWrite)
	w.TCPSndCap = w.Pick(1<<20, 1, 16, 256, 4096)
	w.TCPRcvCap = w.Pick(1<<20, 1, 16, 256, 4096)
	d := &c03{loop: newLoop(c)}
	d.behaviours = d.behave
	defer d.closeAll()
	nObj := w.Range(1, 5)
	for i := 0; i < nObj; i++ {
		d.addObj(c03Kinds[w.Choose(len(c03Kinds))])
	}
	for i, n := 0, w.Range(0, 3); i < n; i++ {
		t, err := sonic.NewTimer(d.ioc)
		if err != nil {
			sim.Bug("NewTimer: %v", err)
		}
		d.timers = append(d.timers, &c03Timer{t: t})
	}
	d.chain = w.Pick(3, 0, 40)
	d.checkPending("start")
	steps := w.Range(6, c.Deep(50))
	for i := 0; i < steps; i++ {
		switch w.Choose(16) {
		case 0, 1, 2, 3:
			d.startOn(d.pickObj(), w.Choose(5))
		case 4, 5:
			o := d.pickObj()
			switch o.kind {
			case lkListener:
				d.peerConnect(o)
			case lkPacket, lkPeer:
				d.peerDatagram(o, w.Pick(8, 1, 100))
			case lkRegular:
			default:
				switch w.Choose(8) {
				case 0, 1, 2:
					d.peerSend(o, w.Pick(16, 1, 3, 100, 5000))
				case 3, 4:
					d.peerDrain(o, w.Pick(1<<20, 1, 10))
				case 5:
					d.peerHalfClose(o)
				case 6:
					d.peerClose(o)
				case 7:
					d.peerReset(o)
				}
			}
		case 6, 7, 8:
			d.pollChecked(w.Choose(3))
		case 9:
			w.Advance(int64(w.Pick(1_000, 0, 1_000_000, 2_000_000_000)))
		case 10:
			d.doCancel(d.pickObj())
		case 11:
			switch w.Choose(4) {
			case 0:
				d.doClose(d.pickObj())
			case 1:
				// the descriptor is closed underneath the object
				o := d.pickObj()
				if !o.closed && o.kind != lkAdapter {
					w.Stat(c03pUnder)
					o.fdGone = true
					w.K.Close(o.rawFd)
					// operations that were deferred can no longer complete by themselves;
					// Cancel (where there is one) or Close ends them
					if o.fd != nil && w.Chance(1, 2) {
						d.doCancel(o)
					}
					d.doClose(o)
				}
			case 2:
				// the next epoll_ctl fails
				w.FailNth(sim.CkEpollCtl, 1, syscall.ENOMEM)
				before := len(d.ops)
				d.startOn(d.pickObj(), 0)
				if len(d.ops) > before {
					w.Stat(c03pRegFail)
				}
				w.FailNth(sim.CkEpollCtl, 0, 0)
			case 3:
				d.post(w.Choose(2))
			}
			// "It is safe to call this method multiple times": registering or
			// removing an interest twice changes nothing
			for _, o := range d.objs {
				if a, ok := o.fd.(*sonic.AsyncAdapter); ok && !o.closed && !o.fdGone {
					w.Stat(c03pTwice)
					if o.rd != nil && o.rd.completions == 0 {
						_ = d.ioc.SetRead(a.Slot())
					} else {
						_ = d.ioc.UnsetRead(a.Slot())
					}
					if o.wr != nil && o.wr.completions == 0 {
						_ = d.ioc.SetWrite(a.Slot())
					} else {
						_ = d.ioc.UnsetWrite(a.Slot())
					}
				}
			}
		case 12:
			if len(d.timers) > 0 {
				t := d.timers[w.Choose(len(d.timers))]
				switch w.Choose(4) {
				case 0, 1:
					d.armTimer(t)
				case 2:
					if !t.closed {
						if err := t.t.Cancel(); err == nil {
							t.armed = false
						}
					}
				case 3:
					if !t.closed && w.Chance(1, 3) {
						if err := t.t.Close(); err == nil {
							t.closed, t.armed = true, false
						}
					}
				}
			}
		case 13:
			d.post(w.Choose(2))
		case 14, 15:
			if w.Chance(1, 3) {
				d.runPending()
			}
		}
		d.checkPending("after step")
	}
	d.runPending()
	d.settle()
	d.checkPending("at quiescence")
	if d.ioc.Dispatched != 0 {
		c.Failf("dispatched-not-zero", "IO.Dispatched=%d with the stack unwound", d.ioc.Dispatched)
	}
}
