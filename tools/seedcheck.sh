#!/bin/bash
# seedcheck.sh <seed-name> <worktree> <demo-test-regex> <pkg> <props...>
# Confirms an independently written breaking change (made by a sub-agent in a
# scratch worktree): demo fails with it / passes without it, the repository's
# suite still passes with it; stores it under /verif/seeded/<name>/ and runs
# the named checks against /repo with the patch applied (undone afterwards).
set -u
NAME=$1; WT=$2; DEMO=$3; PKG=$4; shift 4; PROPS="$@"
OUT=/verif/seeded/$NAME; mkdir -p $OUT
cd $WT || exit 2
unset GOFLAGS GOTOOLCHAIN GOSUMDB; export GOPROXY=off
cp patch.diff $OUT/patch.diff || exit 2
DEMOFILE=$(ls zz_seed_demo_test.go */zz_seed_demo_test.go */*/zz_seed_demo_test.go 2>/dev/null | head -1)
mkdir -p $OUT/demo; cp $DEMOFILE $OUT/demo/ ; cp NOTES.md $OUT/NOTES.agent.md 2>/dev/null
ONLY=${SEED_ONLY:-all}
with=-; without=-; suite=-; res=""
if [ $ONLY = all -o $ONLY = demo ]; then
echo "== demo WITH the change (must fail)"
timeout 300 go test -mod=mod -vet=off -count=1 -run "$DEMO" $PKG > $OUT/demo_with.txt 2>&1; with=$?
tail -3 $OUT/demo_with.txt
echo "== demo WITHOUT the change (must pass)"
# not git stash: the stash is shared by all worktrees of one repository, and sub-agents working in sibling worktrees use it too
git diff -- $(git diff --name-only | grep -v zz_seed_demo) > .seedcheck.saved.diff || exit 2
git apply -R .seedcheck.saved.diff || exit 2
timeout 300 go test -mod=mod -vet=off -count=1 -run "$DEMO" $PKG > $OUT/demo_without.txt 2>&1; without=$?
git apply .seedcheck.saved.diff && rm -f .seedcheck.saved.diff
tail -3 $OUT/demo_without.txt
fi
if [ $ONLY = all -o $ONLY = suite ]; then
echo "== repository suite WITH the change"
/verif/tools/baseline.sh $WT > $OUT/suite_with.txt 2>&1; suite=$?
tail -2 $OUT/suite_with.txt
fi
if [ $ONLY = all -o $ONLY = checks ]; then
echo "== checks against /repo with the patch applied"
git -C /repo apply $OUT/patch.diff || { echo "patch does not apply to /repo"; exit 2; }
for p in $PROPS; do
  /verif/check $p --budget ${SEED_BUDGET:-20} > $OUT/check_$p.txt 2>&1; rc=$?
  res="$res $p:$rc"
  grep -m2 "^  C\|VIOLATION\|INCONCLUSIVE" $OUT/check_$p.txt | head -3
done
git -C /repo checkout -- .
git -C /repo status --short | head -3
fi
if [ $ONLY = wtchecks ]; then
echo "== checks against a scratch copy of /repo's current tree with the patch applied (VERIF_REPO_DIR), /repo untouched"
SCR=$(mktemp -d /tmp/seedscr.XXXXXX)
rsync -a --exclude .git /repo/ $SCR/
if ! (cd $SCR && patch -p1 -s < $OUT/patch.diff); then echo "patch does not apply to the current /repo tree"; rm -rf $SCR; exit 2; fi
for p in $PROPS; do
  VERIF_REPO_DIR=$SCR /verif/check $p --budget ${SEED_BUDGET:-20} > $OUT/wtcheck_$p.txt 2>&1; rc=$?
  res="$res $p:$rc"
  grep -m2 "^  C\|VIOLATION\|INCONCLUSIVE" $OUT/wtcheck_$p.txt | head -3
done
rm -rf $SCR
fi
echo "RESULT $NAME demo_with=$with demo_without=$without suite=$suite checks=$res"
