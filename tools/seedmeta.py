#!/usr/bin/env python3
"""Writes /verif/seeded/<id>/meta.json for every entry of /verif/seeded/index.json
(the hand-kept table: property, what the change is, what it needs in order to
manifest, what was strengthened) and fills in, from the files tools/seedcheck.sh
left next to it, what was run and what came out.  With --appendix prints the
DESIGN.md Appendix D table."""
import json,os,re,sys
root='/verif/seeded'
idx=json.load(open(f'{root}/index.json'))
rows=[]
for e in idx:
    d=f"{root}/{e['id']}"
    def tail(f,n=3):
        p=f"{d}/{f}"
        return [l.rstrip() for l in open(p,errors='replace').read().splitlines()[-n:]] if os.path.exists(p) else None
    checks={}
    for f in sorted(os.listdir(d)):
        m=re.match(r'check_(C\d+)\.txt',f)
        if not m: continue
        txt=open(f"{d}/{f}",errors='replace').read()
        viol=[l.strip() for l in txt.splitlines() if l.startswith('  C')]
        checks[m.group(1)]={"caught":'VIOLATION property=' in txt,"first_violation":viol[0][:300] if viol else None}
    if e['id'][0]=='w':
        # round 6: the runs after strengthening were made against a scratch copy of /repo's tree with the patch
        # applied (SEED_ONLY=wtchecks, VERIF_REPO_DIR): where one exists it is the later run and is what counts
        for f in sorted(os.listdir(d)):
            m=re.match(r'wtcheck_(C\d+)\.txt',f)
            if not m: continue
            txt=open(f"{d}/{f}",errors='replace').read()
            viol=[l.strip() for l in txt.splitlines() if l.startswith('  C')]
            if 'VIOLATION property=' in txt:
                checks[m.group(1)]={"caught":True,"first_violation":viol[0][:300] if viol else None,"run":"scratch copy (wtcheck), after strengthening"+("; tree before the repair 559d0ff" if e['id'].startswith('w13') else "")}
    suite=tail('suite_with.txt',2)
    meta={
      "id":e['id'],"property":e['property'],"round":{"s":1,"r":2,"t":3,"u":4,"v":5,"w":6}[e["id"][0]],
      "origin":"independent sub-agent given only the property text and a scratch worktree"+(" plus one sentence naming the change an earlier sub-agent had already made to the same property (so as to get a different one) and a request for two conditions lining up" if e['id'][0] in 'rt' else " plus the changes three earlier sub-agents had made to the same property and a request for state that survives across operations or an entry point no existing test calls" if e['id'][0]=='u' else " plus the changes four earlier sub-agents had made to the same property and a request for an unusual but legal configuration value, call order, or boundary between two internal modes of one operation" if e['id'][0]=='v' else " plus the changes five earlier sub-agents had made to the same property and a request for two cooperating sites that each look fine alone, or a rarely taken error/return path (EINTR, EAGAIN or ENOBUFS at an unusual point, an error together with partial data, a second call after a failure, an object reused after an error)" if e['id'][0]=='w' else ""),
      "change":e['change'],"files":e['files'],"needs_to_manifest":e['needs'],
      "demonstration":sorted(os.listdir(f"{d}/demo")),
      "ran":[
        f"go test -run Seed (demo) with the change in the scratch worktree -> {'FAIL' if tail('demo_with.txt') and any('FAIL' in l for l in tail('demo_with.txt')) else '??'}",
        f"same with the change stashed -> {'ok' if tail('demo_without.txt') and any(l.startswith('ok') for l in tail('demo_without.txt')) else '??'}",
        f"tools/baseline.sh <worktree> (the repository's 204 stable tests, unedited, with the change) -> {suite[-1] if suite else '??'}",
        "git -C /repo apply patch.diff; ./check <prop> --budget 20; git -C /repo checkout -- .",
      ],
      "checks":checks,
      "strengthened":e.get('strengthened'),
    }
    json.dump(meta,open(f"{d}/meta.json",'w'),indent=1)
    caught=', '.join(f"{p} ({c['first_violation'].split(':')[0]})" for p,c in checks.items() if c['caught'])
    missed=', '.join(p for p,c in checks.items() if not c['caught'])
    rows.append(f"| {e['id']} | {e['property']} | {e['change']} | {e['needs']} | {caught or '-'}{' ; not by '+missed if missed else ''} | {e.get('strengthened') or '-'} |")
if '--appendix' in sys.argv:
    print("| seed | property | change | needs | caught by (first signature) | check strengthened |\n|---|---|---|---|---|---|")
    print('\n'.join(rows))
