#!/usr/bin/env python3
import json,sys
n=int(sys.argv[2]) if len(sys.argv)>2 else 40
r=json.load(open(sys.argv[1]))
print(r['scenario'],'variant',r['variant'],'seed',r['seed']); print(' SIG',r['signature']); print(' MSG',r['message']); print(' tape',(r.get('tape') or [])[:60],'len',len(r.get('tape') or []),'from',r['tape_len_before_minimisation'])
for l in (r.get('trace') or [])[-n:]: print('    ',l)
