#!/usr/bin/env python3
"""Sensitivity self-test: applies each mutant of selftest/mutants.json to a
scratch copy of /repo (never to /repo itself), runs the named checks against it
through VERIF_REPO_DIR and reports whether they fail (exit 1) as they must.
usage: mutate.py [name-substring] [--budget S]"""
import json,subprocess,sys,os,shutil,tempfile
args=[]
budget='8'
it=iter(sys.argv[1:])
for a in it:
    if a=='--budget': budget=next(it)
    elif not a.startswith('--'): args.append(a)
flt=args[0] if args else ''
muts=json.load(open('/verif/selftest/mutants.json'))
ok=True
results=[]
# one snapshot of /repo for the whole run: /repo may change (seed patches, fix commits) while this runs
base=tempfile.mkdtemp(prefix='mut.base.',dir='/tmp')
subprocess.run(['rsync','-a','--exclude','.git','/repo/',base+'/'],check=True)
import atexit
atexit.register(lambda: shutil.rmtree(base,ignore_errors=True))
for m in muts:
    if flt and flt not in m['name']: continue
    d=tempfile.mkdtemp(prefix='mut.',dir='/tmp')
    try:
        subprocess.run(['rsync','-a',base+'/',d+'/'],check=True)
        p=os.path.join(d,m['file']); s=open(p).read()
        if m['old'] not in s:
            print(f"{m['name']}: PATTERN NOT FOUND"); ok=False; continue
        open(p,'w').write(s.replace(m['old'],m['new'],1))
        for ex in m.get('extra',[]):
            p2=os.path.join(d,ex['file']); s2=open(p2).read()
            if ex['old'] not in s2: print(f"{m['name']}: EXTRA PATTERN NOT FOUND"); ok=False
            open(p2,'w').write(s2.replace(ex['old'],ex['new'],1))
        b=subprocess.run(['go','build','./...'],cwd=d,capture_output=True,text=True,env={**os.environ,'GOFLAGS':'-mod=mod','GOPROXY':'off'})
        for prop in m['props']:
            r=subprocess.run(['/verif/check',prop,'--budget',budget],capture_output=True,text=True,env={**os.environ,'VERIF_REPO_DIR':d})
            lines=[l for l in r.stdout.splitlines() if l.startswith('  C') or 'INCONCLUSIVE' in l]
            verdict={1:'CAUGHT',0:'MISSED',2:'INCONCLUSIVE'}.get(r.returncode,str(r.returncode))
            if r.returncode!=1: ok=False
            print(f"{m['name']:45s} {prop} {verdict} {lines[0][:150] if lines else ''}",flush=True)
            results.append({"mutant":m['name'],"file":m['file'],"property":prop,"verdict":verdict,"first_violation":(lines[0].strip()[:200] if lines else "")})
    finally:
        shutil.rmtree(d,ignore_errors=True)
if not flt:
    json.dump(results,open('/verif/selftest/results.json','w'),indent=1)
elif '--merge' in sys.argv and os.path.exists('/verif/selftest/results.json'):
    # a partial re-run replaces the verdicts of the mutants it ran
    old=json.load(open('/verif/selftest/results.json'))
    ran={r['mutant'] for r in results}
    names={m['name'] for m in muts}
    merged=[r for r in old if r['mutant'] not in ran and r['mutant'] in names]+results
    order={m['name']:i for i,m in enumerate(muts)}
    merged.sort(key=lambda r:(order.get(r['mutant'],1e9),r['property']))
    json.dump(merged,open('/verif/selftest/results.json','w'),indent=1)
sys.exit(0 if ok else 1)
