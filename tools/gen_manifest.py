#!/usr/bin/env python3
"""Regenerates /verif/MANIFEST.json from the table below (kept in one place so
that the manifest, the claimed list and the not_applicable list cannot drift)."""
import json

CLAIMED = {
 "C04": dict(
   technique="deterministic simulation: seeded schedule/fault search on a stub kernel with a virtual clock",
   text="Seeded search over timer/I-O histories on the rewritten sonic sources running on a simulated kernel with a virtual clock: "
        "every callback is checked at entry against a reference model (never early by exact virtual time, at most once, never after a Cancel/Close that returned nil, "
        "Scheduled() equals 'callback due', a closed timer stays closed), plus bounded liveness at quiescence. Batches with several expired timerfds and sockets, "
        "permuted/truncated batches and EINTR are injected; handlers cancel, close and re-schedule themselves and others, also with delay 0 nested up to 100 levels deep before stopping the timer. Sampling, not proof.",
   note="Trusts the stub timerfd/epoll semantics (notes/kernel_facts.txt: re-arm clears the expiration count, one-shot relative timers). The virtual clock never jumps backwards."),
}

CLAIMED.update({
 "C01": dict(
   technique="deterministic simulation: seeded schedule/fault search on a stub kernel, operation ledger",
   text="Seeded search over mixes of every object kind sharing one IO (dialed/accepted conns, AsyncAdapter, FIFO ends, regular file, listener, packet conn, multicast peer, a conn over a connected datagram socket) with an operation ledger: "
        "every completion callback is counted at entry (never twice, never after Close returned), Cancel must complete each deferred operation once with ErrCancelled, and at quiescence "
        "(faults off, peers satisfy every pending operation, loop polled) every operation on a never-closed object must have completed. Handlers cancel/close/re-arm themselves and other objects, "
        "including ones later in the same epoll batch; batches are composed, permuted and truncated by the tape; peers send, half-close, close, reset and hang up; a datagram socket is announced readable with nothing to read; a connected datagram socket learns of a closed remote port as an asynchronous error (EPOLLERR alone); handlers may do two things, among them taking a queued connection from a listener with the blocking Accept; IO.Dispatched must be 0 after every poll. Directed: all ordered pairs of 7 object kinds x 3 cross-object actions x 2 batch orders.",
   note="At most one read and one write in flight per object (sonic has one reactor per direction). Stub kernel semantics for epoll/pipe/TCP/UDP are compared with the live kernel by kconf (DESIGN 4.3). Regular files are not started at the dispatch limit while the C14 known finding is open."),
 "C02": dict(
   technique="deterministic simulation: seeded segmentation/partial-transfer search with a position-dependent byte generator",
   text="Stream objects (dialed, accepted, AsyncAdapter) against raw actor peers, both directions at once; socket buffer capacities drawn down to 1 byte, deliveries segmented, kernel short reads/writes, delays, peer FIN/close/RST in the middle of *All operations, Cancel of operations in flight (a cancelled operation reports exactly what it moved and the next one resumes from there). "
        "Oracle: per-direction offset ledger with a position-dependent generator (any slice identifies its own offset): delivered bytes equal what the peer wrote at that offset, counts equal the bytes the stub kernel moved for that operation, "
        "*All success implies the full length, on error n <= bytes moved and - for reads - n == bytes moved (bytes taken out of the stream and not reported are lost); the adapter's reader may hand the last bytes over together with io.EOF and its writer may accept a prefix, no error on a healthy stream, the peer verifies every byte it receives, conservation at quiescence. Second scenario (byte_buffer.go is an anchor): the stream is queued in a sonic.ByteBuffer and moved with WriteTo/AsyncWriteTo and ReadFrom/AsyncReadFrom over the same three connection kinds with kernel buffers of 7 B..64 KiB, so that would-block cuts a transfer and the buffer carries the rest into the next call; what a call reports must be what left (entered) the buffer and the peer must receive the stream exactly once.",
   note="The kernel's per-descriptor byte counters are the independent observer. AsyncAdapter's peer always drains (net.Conn.Write blocks the loop by design)."),
 "C03": dict(
   technique="deterministic simulation: seeded history search with an in-flight ledger, RunPending under a quiescence detector",
   text="Histories of start/complete/cancel/close/timer arm+disarm (also from a sibling timer's callback in the same poll cycle)/post over mixed objects with registrations that fail (injected epoll_ctl error, descriptor closed underneath) and EINTR in blocking waits. "
        "At every top-level point Pending() and Posted() must equal the ledger; RunPending is called at tape-chosen moments after actors have been scheduled to satisfy everything in flight: returning early is caught by the ledger, "
        "never returning by the world going quiescent with the driver blocked in epoll_wait(-1); PollOne must report n>0 when a handler ran and ErrTimeout when the stub kernel had nothing ready; no wait returns EINTR as an error.",
   note="EINTR is injected only where Linux can deliver it (a wait that would sleep). Posting from posted handlers is exercised under C05."),
 "C14": dict(
   technique="deterministic simulation: chains of immediately completable operations with a nesting counter",
   text="Chains (up to 10x the limit, hopping between objects) of operations that complete immediately on conns, FIFO ends, regular file, listener with queued connections, packet conn and multicast peer with queued datagrams; a third of the stream operations are the *All variants under short kernel reads and writes. "
        "The harness's own nesting counter must never exceed MaxCallbackDispatch+1, an operation started at the bound must be deferred and then complete with the data/connection it would have had inline, IO.Dispatched must be 0 whenever the stack is unwound. A third of the random runs are starved chains: the queues run dry, the operation re-issued from inside a completion is deferred and resumes from the poller.",
   note="No Cancel in these workloads. Regular files: open known finding (cannot be deferred through epoll)."),
})
CLAIMED["C05"] = dict(
   technique="deterministic simulation: seeded interleaving search with parked goroutines + race detector on the same schedules",
   text="1-4 posting goroutines and the loop goroutine run as scheduler-controlled tasks: every kernel call and every Mutex.Lock/Unlock is a yield point and the tape chooses who continues, "
        "which reaches the append/eventfd-write and drain/run windows. Oracle: every handler exactly once, on the loop task, per-poster FIFO order, Post always returns, the world never goes quiescent "
        "with a handler un-run (lost wake-up) or a task stuck on the mutex (deadlock, including handlers that post), Pending()/Posted() exact at quiescence, and Pending() read from inside every posted handler (the loop is then in the middle of a batch) within the bounds the ledger gives: Post calls returned/started minus handlers finished, plus loop operations armed; backlogs of up to 5000 handlers queued before one poll. Half of the workers run the same generator "
        "on a race-detector build in which only sonic is instrumented and the baton between tasks is a raw pipe the detector cannot see: a report is a violation with the tape attached.",
   note="The scheduler-aware sync.Mutex shim is backed by a real mutex so lock edges stay visible to the detector; the shim's Read/Write reproduce the acquire/release edges of syscall.Read/Write. checkptr is disabled in the race build (sonic's epoll user-data cast).")
CLAIMED["C18"] = dict(
   technique="deterministic simulation: grammar-generated server responses, seeded segmentation and server-close points, scheduled handshake goroutine",
   text="The real Handshake/AsyncHandshake run against a simulated server (stub net.Conn over the stub kernel; AsyncHandshake's goroutine is a scheduler-controlled task, half of the workers on the race build). "
        "Responses come from a grammar (status, reason phrase, header set/order/letter case/optional whitespace, right/wrong/missing accept key, missing or wrong Upgrade), are cut at tape-chosen offsets (directed: one cut walking through the whole response), "
        "carry 0-3 piggy-backed frames, and the server may close or reset after any byte. Oracle: the request parses (independent HTTP parser) with all mandated headers, a fresh 16-byte key and the caller's headers; success iff the independent evaluator of the three conditions says so; "
        "on failure State() is terminated, every read/write API refuses and nothing reaches the wire; after success the piggy-backed messages then later ones are delivered exactly; 1-3 handshakes per Stream with checks that nothing of an earlier session is read or written.",
   note="After a failed handshake the client's end of the TCP connection must be closed (the descriptor census is C13's). A reset during the response makes either outcome legitimate. The transport may hand the end of the response over together with the end of the stream; servers that answer and close at once are a regular case.")
CLAIMED["C06"] = dict(
   technique="deterministic simulation: generated conforming sessions under seeded fragmentation and segmentation, four read APIs, two transports",
   text="A simulated server (independent RFC 6455 encoder) sends message sequences with sizes spanning the 7/16/64-bit encodings up to the per-run maximum (which the reader may raise while an asynchronous read is pending), fragmented at tape-chosen points with ping/pong between fragments; "
        "the byte stream is cut at tape-chosen offsets (directed: one or two cuts walking through every offset of short sessions), also together with the handshake response, and further segmented by the stub kernel. "
        "Transports: production stack (real Handshake, stub net.Conn, AsyncAdapter, stub TCP) and a scripted in-memory sonic.Stream with partial/deferred completions. Oracle: the delivered (type, length, payload) sequence equals the sent one for NextMessage, AsyncNextMessage, NextFrame and AsyncNextFrame (frames reassembled by the harness); control frames surface in order; PayloadLength equals len(Payload).",
   note="Equality with the sent sequence under every API implies the differential clause. Sizes above 256 KiB are not generated. Asynchronous reads are also re-issued from inside the completion; in a third of the random runs the peer ends the stream right behind its last frame and the transport may report that end together with the last bytes (as tls.Conn does).")
CLAIMED["C07"] = dict(
   technique="deterministic simulation of the read path (CodecConn over a scripted transport) with in-transit corruption, differential against a reference decoder; plus exhaustive enumeration of the encoder/decoder product",
   text="Conforming frame streams are corrupted in transit (bit flips, rewritten length fields incl. 64-bit lengths with the top bit set and max+1, truncation, inserted garbage, pure random prefixes) and delivered under two tape-chosen segmentations (incl. byte-by-byte); a sixth of the frames end within 20 bytes of a size the read buffer has or grows to (4096, 8192, ...); maxima from 0 and 124 to 100000; "
        "an independent reference decoder applied to the post-fault bytes says frame / need-more / too-big for each position and sonic must agree on boundaries and contents, reject over-max declared lengths without buffering for them (source buffer capacity bounded), give the same outcomes under both segmentations and never panic. "
        "Directed run: all 5120 combinations FIN x RSV x opcode x mask x 10 length classes through Encode then Decode must be the identity (exhaustive enumeration, not simulation).",
   note="The decoder does not judge RFC conformance of opcodes/RSV (that is the stream layer, C15). After the first error outcome the run stops (decoder state after an error is unspecified).")
CLAIMED["C15"] = dict(
   technique="deterministic simulation: single-violation mutation of generated sessions, seeded position/segmentation, four read APIs, two transports",
   text="C06's generator plus exactly one mutation (RSV bit, reserved data/control opcode, masked frame, FIN-less control, control payload 126+, continuation with nothing to continue, data frame inside a fragmented message, frame over the maximum, message over the maximum) at a tape-chosen frame; in a quarter of the random runs and half of the directed ones the client has already sent its own Close and is reading for the peer's when the sequence arrives. "
        "Oracle: messages before it are delivered unchanged, the read that meets it reports an error, nothing of it is delivered as data, no panic; after a framing violation Write/AsyncWrite/WriteFrame are refused and the next flush puts a Close with status 1002 (checked with the independent parser, no data frame after it) on the wire - or, when the client's Close had gone out before, exactly that one Close frame.",
   note="Frames after the violating one are not judged (the statement does not). Fragmentation-rule violations are generated only for the message-level APIs.")
CLAIMED["C16"] = dict(
   technique="deterministic simulation: seeded write histories over transports with scripted partial-write behaviour, independent wire parser",
   text="Histories of Write/AsyncWrite (0,1,125,126,65535,65536,max,max+1,random sizes so pooled frames are reused after longer and shorter ones, and sizes that make the encoded frame end within 20 bytes of the end of the stream's write buffer, whatever it has grown to; directed: all ordered pairs of 6 size classes), WriteFrame/AsyncWriteFrame with caller-built frames with and without SetPayload, "
        "pings that elicit automatic Pongs, Close, with the deterministic frame pool emptied at tape-chosen moments; transports: production stack with small send buffers/short writes and the scripted stream accepting 1..n bytes or deferring. "
        "Oracle: the complete outgoing byte stream parses (independent RFC 6455 parser) into exactly the submitted frames in order: mask bit, 4-byte key, un-masked payload equal to the caller's bytes, minimal length encoding, no trailing bytes; an over-max message returns an error and writes nothing.",
   note="Besides single writes: chains started from the previous completion, bursts of 3-6 writes submitted back to back, writes accepted in parts by the transport, and one asynchronous write failing with a transient error (the wire is then judged as an in-order subsequence of well-formed masked frames). A would-block from a synchronous Write is not generated. An all-zero masking key is not judged (the statement does not require unpredictability).")
CLAIMED["C08"] = dict(
   technique="deterministic simulation: seeded histories of peer events and local calls checked against an executable RFC 6455 closing/ping state machine",
   text="Histories (<= 12 events, from every stage) of peer {data, ping, pong, valid close with/without code, close with invalid code / invalid UTF-8 / 1-byte payload, frame with reserved bits, transport EOF, reset} interleaved with local {NextFrame, AsyncNextFrame, NextMessage, AsyncNextMessage, Write, AsyncWrite, WriteFrame, Flush, Close, AsyncClose}, on both transports. "
        "A reference state machine consumes the same history (a frame counts when a read call consumes it) and says which frames must be on the wire: one Pong per Ping consumed while open, same payload, arrival order, ahead of later application frames; none for Pongs or after our Close; exactly one Close echoing the peer's code (1000 if none, 1002 if invalid) or ours; no data frame after it. "
        "Reads must report end-of-stream after the closing handshake and io.EOF + a 1006 Close frame on unexpected EOF; writes and second closes must be refused; a message that does not fit the reader's buffer while our Close is out is an error and adds no second Close; State() must lie in the set of stages the model allows - also while an AsyncClose is still being written (state, refusal of writes and of a second Close are probed before it completes). Transports may report the end of the stream together with the last bytes; on the scripted transport one flush is made to fail once with the transport staying usable, after which the wire is judged as an in-order subsequence of the expected frames, each at most once.",
   note="Peer frames are single-frame messages so that each read call consumes a known number of frames. After a connection reset nothing is judged except that calls return and the wire stays a prefix of what the history called for. Transport EOF is a half-close.")
CLAIMED["C17"] = dict(
   technique="deterministic simulation: seeded interleavings of peer events, application calls and poll cycles on the production transport stack, callback ledger + wire parser",
   text="Client Stream over the real AsyncAdapter on the stub kernel's TCP socket (send buffer capacity drawn per run). Tape-chosen interleavings of peer events (data, ping, pong, close) with AsyncNextFrame/AsyncNextMessage, AsyncWrite, AsyncWriteFrame, AsyncFlush, AsyncClose and poll cycles, "
        "in particular an application write started while the read path's automatic Pong/Close flush is still waiting for writability and a read started while a write is in flight (both counted by probes; 6 directed shapes). "
        "Oracle: every callback exactly once by quiescence, each read with the peer's next frame/message, writes complete in submission order without error, the wire parses into whole frames with every submitted frame and every owed Pong exactly once, IO.Pending() returns to 0. Up to four application writes are kept in flight, completion handlers start up to three further operations themselves, and a frame-carrying write may not complete before the transport has taken every application frame up to it; after the handshake the transport may accept writes in parts.",
   note="Completion order is required to follow submission order for operations not started from inside a handler (a nested flush with nothing pending legitimately completes before an earlier write's waiter is notified).")
CLAIMED["C19"] = dict(
   technique="deterministic simulation: seeded split/coalesce of a length-prefixed stream over the stub kernel's TCP, independent wire parser, hostile peer",
   text="CodecConn[[]byte,[]byte] with codec/frame.Codec over sonic conns: (a) an independent encoder writes and sonic reads with the stream cut at tape-chosen offsets (directed: one or two cuts walking through every offset of short streams, incl. inside the 4-byte prefix) and receive buffers down to 1 byte; "
        "(b) sonic writes (blocking and asynchronous, send buffers down to 7 bytes so would-block falls inside an item) and an independent parser reads the wire; (c) two CodecConns joined by simulated TCP; (d) a hostile peer sending conforming items followed by a declared length above the limit with no body, or junk. "
        "Oracle: exactly the written payloads, one per call, byte-identical, in order; the wire parses into exactly the written items once each; after a successful write the destination buffer is empty; an over-limit length yields an error while the source buffer has not grown toward it; no panic.",
   note="Hostile prefixes are either above the 1 GiB limit or small: a prefix just below the limit would make the codec legitimately reserve up to 1 GiB and is not generated in this sandbox. Half of the blocking-write runs use small send buffers: an item that hits would-block stays queued in the destination buffer, is not re-submitted, and must leave whole and once in front of the next item. Reads and writes are also chained from inside completion handlers.")
CLAIMED["C12"] = dict(
   technique="deterministic simulation: seeded traffic/membership histories on a stub kernel with an interface table and Linux multicast filtering, abstract membership model as oracle",
   text="Packet conns and multicast peers (bind forms: empty host, port 0, interface address, group address; several peers on one port) with sender actors on different simulated interfaces and addresses; datagram sizes 1..65507, buffers shorter and longer than the datagram, destination address objects allocated per write or re-pointed in place, "
        "loss, duplication, reordering, delay, small receive queues, EAGAIN/ENOBUFS on send; histories of Join/JoinOn/JoinSource/Leave/LeaveSource/BlockSource/UnblockSource/SetLoop/SetTTL/SetAll/SetOutboundIPv4/SetAsyncReadBuffer interleaved with traffic and pending reads, each option call failed once by injection. "
        "Oracle: one read completion per datagram the kernel queued, with exactly its bytes, n=min(len), the sender's IP and port; one emitted datagram per write with exactly the caller's bytes and destination (observed in the kernel); the datagrams the kernel queued for each socket equal what an abstract membership model (joined, not left, source admitted, not blocked, IP_MULTICAST_ALL) predicts; a re-designated read buffer receives the datagram; after every call each getter equals the kernel's option/name.",
   note="The delivery rule of the stub follows net/ipv4/igmp.c (ip_mc_sf_allow, ip_check_mc) for the generated histories: one membership per group per socket, membership changes only while no datagram is in flight, with several sources per source-specific membership, on any interface (the delivery rule was compared with the live kernel on two real interfaces: kconf). Reads are re-armed from inside the completion; a socket is announced readable with nothing queued while a read is pending. Unicast is not sent to a port several sockets share. Open known finding: Loop() getter.")
CLAIMED["C13"] = dict(
   category="fault_enumeration",
   technique="deterministic simulation with enumerated fault injection: every k-th kernel call of every kind of each constructor is failed; descriptor census by generation; GC injected at chosen instants",
   text="Fault enumeration over 12 constructors (NewIO, NewTimer, Dial tcp/udp, Listen, accept sync+async, NewPacketConn, NewUDPPeer, Open, websocket Handshake and AsyncHandshake, NewMirroredBuffer on the real kernel): the successful build is measured and every k-th call of every kind it makes is failed once (EMFILE at the k-th allocation for every k, realistic errnos otherwise), "
        "plus refused/unreachable/time-out/bind conflict/non-local bind/bad, truncated or wrong-key handshake response/server close or reset mid-handshake. The stub kernel's exact census (number:kind:generation) must be what it was before after a failure, and after Close of a success. Both handshake constructors repeat the whole enumeration on one Stream that has had a complete session before every failing attempt. "
        "Seeded exploration on top: repeated Close (and Cancel-after-Close, conn-close-after-adapter-close) on every object kind interleaved with creation of other objects so that numbers are reused - any close of a generation the object does not own is flagged, and a connection dialled after the first Close (it gets the released number) with a read parked on it and no reference kept must survive the repeated Closes and a forced collection and complete once; and GC at tape-chosen instants with reads and/or writes deferred after the program dropped every reference (weak pointer to a sentinel captured only by the callbacks), including between the completion of one direction and the other, with the completion required afterwards.",
   note="Fault points are enumerated over the kernel calls the stub sees, not over Go allocations. Constructors are built with options so that every socket option is a fault point; one scenario reconnects from inside a completion handler (close, dial, deferred read on the reused descriptor number, no reference kept) before the collection. The stub net.Conn models RawConn.Control's descriptor reference (a Close inside the callback blocks, as on the live runtime). A further scenario closes a connection with a read and/or a write registered with the poller while the deregistration fails (one epoll_ctl of Close refused with ENOMEM, or the IO closed before the connection): whatever Close returns, the census must return to what it was before NewIO (found and led to the repair 559d0ff).")
CLAIMED["C09"] = dict(
   technique="model conformance over seeded call histories, with simulated readers/writers for the I/O methods (short, zero-byte and failing reads, short and failing writes, deferred completions)",
   text="Call histories over the whole public API (Write/WriteByte/WriteString, Claim, ClaimFixed, Commit, Consume, Save, Discard, DiscardAll, Reserve, ShrinkBy, ShrinkTo, PrepareRead, Read, ReadByte, ReadFrom, WriteTo, AsyncReadFrom, AsyncWriteTo, Reset) with integer arguments from the classes {MinInt, <0, 0, 1, avail-1, avail, avail+1, large, MaxInt}, growth across reallocation, and simulated transports for the I/O methods. "
        "After every call Data(), Saved(), every live saved slot and the five length getters must equal a three-region reference model, returned values must equal the model's, and nothing may panic.",
   note="Honest scope: apart from the I/O methods (simulated transports with faults and deferred completions) this is sequential model conformance, not schedule exploration. Reserve is exercised up to 1 MiB. Slot arguments are always slots the buffer handed out. While an asynchronous transfer is in flight only getters are called. UnreadByte is not in the property's list and not exercised.")
CLAIMED["C20"] = dict(
   technique="deterministic simulation of a sequenced multicast feed (loss, duplication, reordering, delay, retransmission after a virtual time-out) driving the park/pop/discard pipeline, map model as oracle",
   text="1-3 channels of packets (seq, payload=g(channel, seq)) published over simulated multicast with loss, duplication, reordering and delay; a retransmission actor fills gaps later; the receiver parks every out-of-order packet in a ByteBuffer save area indexed by a SlotSequencer with a slot limit of 2, 4, 8, 32 or any number in 1..60 and a byte limit of 256 B..64 KiB or any number in 64..6000 (1 in 4 runs: bare SlotOffsetter), pops and discards when the gap closes, and expires tape-chosen parked packets in any order; slot and byte capacities are drawn small, and a long-lived gap keeps one sequencer non-empty while others drain repeatedly. "
        "Oracle after every call: Pop succeeds iff parked; the returned slot addresses exactly the bytes saved under that number before its Discard; afterwards Saved() is the concatenation of the remaining parked packets in save order; duplicates return (false, nil) and change nothing; capacity overruns return an error and change nothing; Bytes()/Size() equal the model; the application receives every sequence number once, in order, intact.",
   note="A Push refused with ErrNoSpaceLeftForSlot below the byte capacity is tolerated only when the bytes pushed since the sequencer was last empty reach maxBytes (the offsetter's index space), and counted by a probe.")
CLAIMED["C10"] = dict(
   technique="deterministic simulation of a packet-receive pipeline (asynchronous datagram reads into claims, timer-driven consumer) with a chunk-queue model and address-range checks",
   text="A receiver claims space in a BipBuffer (sizes 1..4096 drawn per run), starts an asynchronous datagram read into the claim on a simulated UDP socket and commits the received (usually shorter) length in the completion callback; a consumer driven by a repeating timer on the same IO takes Head(), verifies and consumes whole chunks, parts of chunks or more than the head holds, sometimes stalled; bursts, loss, reordering, small socket queues, abandoned claims (Commit(0)) and Reset. "
        "Because completion is asynchronous, claim -> consumer runs (possibly emptying the buffer) -> commit is an ordinary schedule. Oracle after every call: Head() is a whole number of chunks from the front of the queue in commit order, byte-identical; Committed() equals committed minus consumed; the address range of every claim is disjoint from every unconsumed committed byte (pointer arithmetic on the backing array, plus poisoning each claim and re-verifying all queued chunks, including those in the wrapped region, through their recorded addresses); an empty buffer grants min(n, Size()).",
   note="Reset is only issued while no claim is outstanding. Consume(n) is modelled as consuming min(n, len(Head())) bytes, which is what the documented behaviour (the first contiguous region) implies.")
CLAIMED["C11"] = dict(
   technique="deterministic simulation of a stream receiver (segmented TCP stream read into claims of a real mirrored mapping) with a ring model; constructor fault enumeration on the real kernel",
   text="A stream of position-dependent bytes arrives over simulated TCP with arbitrary segmentation and small receive windows; the receiver claims free space in a REAL MirroredBuffer (sizes: 1, 4095, 4096, 4097 bytes, 2, 3, 5, 8 and 32 pages; prefault on/off), reads asynchronously into the claim, commits, and consumes tape-chosen amounts (also above the used space; claims and commits above the free space; Reset). "
        "Oracle: ring model of capacity Size(): each claim starts at offset (head+used) mod Size() of the mapping and has length min(n, free); used+free=size; every queued byte read through the first mapping equals the stream byte at that position after every commit and consume; bytes written through a claim that crosses the end appear at the start of the ring; after Destroy the process has no mapping, descriptor or backing file of the buffer left. Directed: every size once; plus the enumeration of failing CreateTemp/Truncate/mmap calls (fault enumeration, shared with C13).",
   note="mmap/munmap, /proc/self/maps and /proc/self/fd are the real kernel's (the MMU aliasing is the property): deterministic, but not simulated; the simulator supplies the stream, the schedule and the injected failures.")

NOT_YET = {
}

def main():
    props = [json.loads(l) for l in open('/verif/properties.jsonl')]
    checks = []
    na = []
    for p in props:
        pid = p['id']
        if pid in CLAIMED:
            c = CLAIMED[pid]
            checks.append({
                "property_id": pid,
                "quick_cmd": f"./check {pid} --tier quick",
                "thorough_cmd": f"./check {pid} --tier thorough",
                "evidence_file": f"/verif/evidence/{pid}.json",
                "replay_cmd_template": f"./check {pid} --replay {{path}}",
                "engine": "sonicverif-sim",
                "level_claimed": {"category": c.get("category", "exploration"), "text": c["text"], "design_ref": c.get("design_ref", f"DESIGN.md §6 {pid}")},
                "level_note": c["note"],
                "technique": c["technique"],
            })
        else:
            na.append({"property_id": pid, "reason": NOT_YET.get(pid, "check not built yet in this session (simulation scenario pending); not a claim that the technique does not apply")})
    m = {
        "version": 1,
        "setup_cmd": "./tools/setup.sh",
        "hooks": {
            "guard": "none (no hooks in /repo: the seam is a go build -overlay generated from the working tree)",
            "enable": "./check regenerates /verif/.work/<id>/overlay from /repo and builds cmd/simrun with go1.26.8 build -overlay",
            "baseline_off_cmd": "/verif/tools/baseline.sh",
            "source_commits": [],
            "add_only": True,
        },
        "engines": [{
            "name": "sonicverif-sim",
            "path": "/verif/sim, /verif/shim, /verif/scen, /verif/cmd",
            "serves_properties": sorted(CLAIMED.keys()),
            "kind_free_text": "deterministic simulation with fault injection: seeded scheduler + virtual clock + stub Linux kernel under the unmodified sonic sources (import-rewriting build overlay), tape replay and delta-debugging minimisation",
        }],
        "checks": checks,
        "not_applicable": na,
        "notes": "Exit codes: 0 held, 1 violation (VIOLATION line + replay file), 2 inconclusive (build/watchdog/harness), never reported as a violation. Known findings: /verif/known_findings.json.",
    }
    json.dump(m, open('/verif/MANIFEST.json', 'w'), indent=1)
    print("claimed:", sorted(CLAIMED.keys()), "unclaimed:", len(na))

main()
