#!/usr/bin/env python3
"""Regenerates /verif/MANIFEST.json from the table below (kept in one place so
that the manifest, the claimed list and the not_applicable list cannot drift)."""
import json

CLAIMED = {
 "C04": dict(
   technique="deterministic simulation: seeded schedule/fault search on a stub kernel with a virtual clock",
   text="Seeded search over timer/I-O histories on the rewritten sonic sources running on a simulated kernel with a virtual clock: "
        "every callback is checked at entry against a reference model (never early by exact virtual time, at most once, never after a Cancel/Close that returned nil, "
        "Scheduled() equals 'callback due', a closed timer stays closed), plus bounded liveness at quiescence. Batches with several expired timerfds and sockets, "
        "permuted/truncated batches and EINTR are injected. Sampling, not proof.",
   note="Trusts the stub timerfd/epoll semantics (notes/kernel_facts.txt: re-arm clears the expiration count, one-shot relative timers). The virtual clock never jumps backwards."),
}

NOT_YET = {
}

def main():
    props = [json.loads(l) for l in open('/verif/properties.jsonl')]
    checks = []
    na = []
    for p in props:
        pid = p['id']
        if pid in CLAIMED:
            c = CLAIMED[pid]
            checks.append({
                "property_id": pid,
                "quick_cmd": f"./check {pid} --tier quick",
                "thorough_cmd": f"./check {pid} --tier thorough",
                "evidence_file": f"/verif/evidence/{pid}.json",
                "replay_cmd_template": f"./check {pid} --replay {{path}}",
                "engine": "sonicverif-sim",
                "level_claimed": {"category": c.get("category", "exploration"), "text": c["text"], "design_ref": c.get("design_ref", f"DESIGN.md §6 {pid}")},
                "level_note": c["note"],
                "technique": c["technique"],
            })
        else:
            na.append({"property_id": pid, "reason": NOT_YET.get(pid, "check not built yet in this session (simulation scenario pending); not a claim that the technique does not apply")})
    m = {
        "version": 1,
        "setup_cmd": "./tools/setup.sh",
        "hooks": {
            "guard": "none (no hooks in /repo: the seam is a go build -overlay generated from the working tree)",
            "enable": "./check regenerates /verif/.work/<id>/overlay from /repo and builds cmd/simrun with go1.26.8 build -overlay",
            "baseline_off_cmd": "/verif/tools/baseline.sh",
            "source_commits": [],
            "add_only": True,
        },
        "engines": [{
            "name": "sonicverif-sim",
            "path": "/verif/sim, /verif/shim, /verif/scen, /verif/cmd",
            "serves_properties": sorted(CLAIMED.keys()),
            "kind_free_text": "deterministic simulation with fault injection: seeded scheduler + virtual clock + stub Linux kernel under the unmodified sonic sources (import-rewriting build overlay), tape replay and delta-debugging minimisation",
        }],
        "checks": checks,
        "not_applicable": na,
        "notes": "Exit codes: 0 held, 1 violation (VIOLATION line + replay file), 2 inconclusive (build/watchdog/harness), never reported as a violation. Known findings: /verif/known_findings.json.",
    }
    json.dump(m, open('/verif/MANIFEST.json', 'w'), indent=1)
    print("claimed:", sorted(CLAIMED.keys()), "unclaimed:", len(na))

main()
