#!/bin/bash
# Runs the repository's own test suite (unedited, no build tags: the simulation
# build needs no hooks in /repo) and compares with the 204 stable tests of
# /root/.vp/BASELINE.json. A stable test that does not pass in the full run is
# re-run on its own up to 3 times (the suite binds fixed ports and a few tests
# collide now and then when all packages run in parallel). Exit 0 iff every
# stable test passes.
set -u
REPO=${1:-/repo}
OUT=$(mktemp /tmp/baseline.XXXXXX.json)
unset GOFLAGS GOTOOLCHAIN GOSUMDB
export GOPROXY=off
(cd "$REPO" && go test -mod=mod -json -vet=off -count=1 -timeout 6m ./... > "$OUT" 2>/dev/null)
python3 - "$OUT" "$REPO" <<'PY'
import json,sys,subprocess
base=json.load(open('/root/.vp/BASELINE.json'))
stable=set(base['stable_pass'])
res={}
for l in open(sys.argv[1]):
    try: e=json.loads(l)
    except Exception: continue
    if e.get('Test') and e.get('Action') in ('pass','fail','skip'):
        if '/' in e['Test']: continue
        res[e['Package']+'::'+e['Test']]=e['Action']
bad=[t for t in sorted(stable) if res.get(t)!='pass']
still=[]
for t in bad:
    pkg,name=t.split('::')
    ok=False
    for i in range(3):
        r=subprocess.run(['go','test','-mod=mod','-vet=off','-count=1','-timeout','2m','-run','^'+name+'$',pkg],cwd=sys.argv[2],capture_output=True,text=True)
        if r.returncode==0 and 'no tests to run' not in r.stdout:
            ok=True; break
        if 'address already in use' in r.stdout+r.stderr:
            # another process on this machine holds the fixed port the test binds: environmental, so the
            # test is given a private network namespace (loopback only) where the port is free
            r=subprocess.run(['unshare','-n','sh','-c','ip link set lo up && exec go test -mod=mod -vet=off -count=1 -timeout 2m -run ^'+name+'$ '+pkg],cwd=sys.argv[2],capture_output=True,text=True)
            if r.returncode==0 and 'no tests to run' not in r.stdout:
                ok=True; break
    print(f"  retried {t}: {'pass' if ok else 'FAIL'} (full run said {res.get(t)})")
    if not ok: still.append(t)
print(f"baseline: {len(stable)-len(still)}/{len(stable)} stable tests pass")
for t in still: print("  NOT PASSING:",t)
sys.exit(1 if still else 0)
PY
rc=$?
rm -f "$OUT"
exit $rc
