#!/bin/bash
# Differential conformance of the stub kernel against the live kernel (DESIGN.md §4.3).
# The test binary runs in a private network namespace that has the stub's interface
# table (lo, eth0 10.0.0.2, eth1 10.0.1.2; remote hosts 10.0.0.7 / 10.0.1.7 behind veth
# pairs, default route through eth0), so the multi-interface multicast scripts run too.
set -e
cd /verif
export GOFLAGS=-mod=mod GOPROXY=off GOSUMDB=off GOTOOLCHAIN=local
mkdir -p .work
go1.26.8 test -c -o .work/kconf.test ./kconf/
exec unshare -rn sh -c '
ip link set lo up
ip link add eth0 type veth peer name rem0
ip link add eth1 type veth peer name rem1
ip addr add 10.0.0.2/24 dev eth0; ip addr add 10.0.1.2/24 dev eth1
ip addr add 10.0.0.7/32 dev rem0; ip addr add 10.0.1.7/32 dev rem1
for i in eth0 eth1 rem0 rem1; do ip link set $i up; done
ip route add default dev eth0
for f in /proc/sys/net/ipv4/conf/*/rp_filter; do echo 0 > $f; done
for f in /proc/sys/net/ipv4/conf/*/accept_local; do echo 1 > $f; done
cd /verif/kconf && exec ../.work/kconf.test -test.count=1 "$@"' sh "$@"
