#!/bin/bash
# Differential conformance of the stub kernel against the live kernel (DESIGN.md §4.3).
cd /verif && export GOFLAGS=-mod=mod GOPROXY=off GOSUMDB=off GOTOOLCHAIN=local && exec go1.26.8 test ./kconf/ -count=1 "$@"
