#!/bin/bash
# Determinism self-test: the same seeds must give the same (trace, tape) hashes
# in fresh processes at GOMAXPROCS 1, 4 and 16 (two processes each).
# usage: determinism.sh [runs-per-property] [props...]
cd /verif || exit 2
export GOFLAGS=-mod=mod GOPROXY=off GOSUMDB=off GOTOOLCHAIN=local
N=${1:-400}; shift
PROPS=${@:-C01 C02 C03 C04 C05 C06 C07 C08 C09 C10 C11 C12 C13 C14 C15 C16 C17 C18 C19 C20}
W=.work/determinism; rm -rf $W; mkdir -p $W
go1.26.8 run ./cmd/genoverlay >/dev/null || exit 2
go1.26.8 build -overlay .work/overlay/overlay.json -o $W/simrun ./cmd/simrun || exit 2
rc=0
for p in $PROPS; do
  ref=""
  for g in 1 4 16 1 4 16; do
    GOMAXPROCS=$g $W/simrun -prop $p -maxruns $N -budget 600 -replaydir $W/rp -out $W/$p.$g.json >/dev/null 2>&1
    h=$(md5sum < $W/$p.$g.json.hashes | cut -d' ' -f1)
    if [ -z "$ref" ]; then ref=$h; elif [ "$h" != "$ref" ]; then echo "$p: NON-DETERMINISTIC at GOMAXPROCS=$g ($h vs $ref)"; rc=1; fi
  done
  n=$(($(stat -c %s $W/$p.1.json.hashes)/8))
  echo "$p: 6 processes (GOMAXPROCS 1,4,16 x2), $n non-trivial runs each, hashes $ref"
done
rm -rf $W
exit $rc
