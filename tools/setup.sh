#!/bin/bash
# Offline setup after a fresh restore: build the driver and warm the Go build
# cache for the simulation build (so that each check's own rebuild is fast).
cd /verif || exit 1
export GOFLAGS=-mod=mod GOPROXY=off GOSUMDB=off GOTOOLCHAIN=local
mkdir -p .work/bin evidence replays
go1.26.8 build -o .work/bin/check ./cmd/check || exit 1
go1.26.8 run ./cmd/genoverlay > /dev/null || exit 1
go1.26.8 build -overlay .work/overlay/overlay.json -o .work/bin/simrun-warm ./cmd/simrun || exit 1
rm -f .work/bin/simrun-warm
echo "setup ok"
