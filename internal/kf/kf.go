// Package kf reads the committed known-findings file. It is never written at
// run time.
package kf

import (
	"encoding/json"
	"os"
)

type Finding struct {
	Property  string `json:"property"`
	Signature string `json:"signature"`
	Status    string `json:"status"` // "open" or "fixed"
	Commit    string `json:"commit,omitempty"`
	What      string `json:"what"`
	Avoid     string `json:"avoid,omitempty"` // input class switched off while open
}

type File struct {
	Findings []Finding `json:"findings"`
}

func Load(path string) (*File, error) {
	b, err := os.ReadFile(path)
	if err != nil {
		if os.IsNotExist(err) {
			return &File{}, nil
		}
		return nil, err
	}
	var f File
	if err := json.Unmarshal(b, &f); err != nil {
		return nil, err
	}
	return &f, nil
}

// Open returns the open findings of a property keyed by signature.
func (f *File) Open(prop string) map[string]Finding {
	out := map[string]Finding{}
	for _, x := range f.Findings {
		if x.Property == prop && x.Status == "open" {
			out[x.Signature] = x
		}
	}
	return out
}

func (f *File) AvoidSet(prop string) map[string]bool {
	out := map[string]bool{}
	for _, x := range f.Findings {
		// an input class is avoided by every property's generator while the finding is open
		if x.Status == "open" && x.Avoid != "" {
			out[x.Avoid] = true
		}
	}
	return out
}
