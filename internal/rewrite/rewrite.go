// Package rewrite generates the `go build -overlay` file that turns sonic's
// working tree into the simulation build: every non-test source file of the
// in-scope packages is re-emitted with the imports of syscall, x/sys/unix,
// net, sync, time and crypto/rand (and os in sonic/bytes) redirected to the
// shim packages of this module, and every `go` statement turned into a
// simrt.Go call. Nothing else is changed and nothing is written to the
// repository.
package rewrite

import (
	"bytes"
	"encoding/json"
	"fmt"
	"go/ast"
	"go/build"
	"go/parser"
	"go/printer"
	"go/token"
	"os"
	"path/filepath"
	"sort"
	"strconv"
	"strings"
)

// InScope lists the package directories (relative to the repository root)
// whose sources are rewritten.
var InScope = []string{".", "internal", "multicast", "net/ipv4", "codec/websocket", "codec/frame", "bytes", "sonicopts", "sonicerrors"}

// NotRewritten are non-test files that stay as they are (test helpers that
// use the real network and are never called by the harness).
var NotRewritten = map[string]bool{"codec/websocket/test_main.go": true}

var importMap = map[string]string{
	"syscall":               "sonicverif/shim/syscall",
	"golang.org/x/sys/unix": "sonicverif/shim/unix",
	"net":                   "sonicverif/shim/net",
	"sync":                  "sonicverif/shim/sync",
	"time":                  "sonicverif/shim/time",
	"crypto/rand":           "sonicverif/shim/crand",
}

type Result struct {
	OverlayPath string
	Files       int
	GoStmts     int
	Imports     int
}

// Generate reads the sonic sources under srcRoot, writes rewritten copies
// under workDir and an overlay whose keys are paths under targetRoot (the
// directory the harness module's replace directive points at). addFiles maps
// target-relative paths to files that the overlay adds to sonic packages.
func Generate(srcRoot, targetRoot, workDir string, addFiles map[string]string) (*Result, error) {
	if err := os.RemoveAll(workDir); err != nil {
		return nil, err
	}
	if err := os.MkdirAll(workDir, 0o755); err != nil {
		return nil, err
	}
	res := &Result{}
	replace := map[string]string{}
	ctx := build.Default
	ctx.GOOS, ctx.GOARCH = "linux", "amd64"
	ctx.CgoEnabled = false
	for _, dir := range InScope {
		abs := filepath.Join(srcRoot, dir)
		ents, err := os.ReadDir(abs)
		if err != nil {
			return nil, fmt.Errorf("in-scope package %s: %w", dir, err)
		}
		for _, e := range ents {
			name := e.Name()
			if e.IsDir() || !strings.HasSuffix(name, ".go") || strings.HasSuffix(name, "_test.go") {
				continue
			}
			rel := filepath.ToSlash(filepath.Join(dir, name))
			if NotRewritten[rel] {
				continue
			}
			ok, err := ctx.MatchFile(abs, name)
			if err != nil {
				return nil, err
			}
			if !ok {
				continue
			}
			out := filepath.Join(workDir, rel)
			if err := os.MkdirAll(filepath.Dir(out), 0o755); err != nil {
				return nil, err
			}
			n, g, err := rewriteFile(filepath.Join(abs, name), out, dir == "bytes")
			if err != nil {
				return nil, fmt.Errorf("%s: %w", rel, err)
			}
			res.Files++
			res.Imports += n
			res.GoStmts += g
			replace[filepath.Join(targetRoot, rel)] = out
		}
	}
	// A source tree other than the target: every other Go file of that tree
	// has to replace its counterpart too, and files that only exist in the
	// target must disappear.
	if filepath.Clean(srcRoot) != filepath.Clean(targetRoot) {
		seen := map[string]bool{}
		err := filepath.Walk(srcRoot, func(p string, info os.FileInfo, err error) error {
			if err != nil {
				return err
			}
			if info.IsDir() {
				if info.Name() == ".git" {
					return filepath.SkipDir
				}
				return nil
			}
			if !strings.HasSuffix(p, ".go") {
				return nil
			}
			rel, _ := filepath.Rel(srcRoot, p)
			seen[rel] = true
			t := filepath.Join(targetRoot, rel)
			if _, done := replace[t]; !done {
				replace[t] = p
			}
			return nil
		})
		if err != nil {
			return nil, err
		}
		_ = filepath.Walk(targetRoot, func(p string, info os.FileInfo, err error) error {
			if err != nil || info.IsDir() {
				if err == nil && info.Name() == ".git" {
					return filepath.SkipDir
				}
				return nil
			}
			if strings.HasSuffix(p, ".go") {
				rel, _ := filepath.Rel(targetRoot, p)
				if !seen[rel] {
					replace[p] = ""
				}
			}
			return nil
		})
	}
	for rel, src := range addFiles {
		replace[filepath.Join(targetRoot, rel)] = src
	}
	keys := make([]string, 0, len(replace))
	for k := range replace {
		keys = append(keys, k)
	}
	sort.Strings(keys)
	ordered := map[string]string{}
	for _, k := range keys {
		ordered[k] = replace[k]
	}
	js, err := json.MarshalIndent(map[string]any{"Replace": ordered}, "", " ")
	if err != nil {
		return nil, err
	}
	res.OverlayPath = filepath.Join(workDir, "overlay.json")
	if err := os.WriteFile(res.OverlayPath, js, 0o644); err != nil {
		return nil, err
	}
	return res, nil
}

func rewriteFile(in, out string, isBytesPkg bool) (imports, gostmts int, err error) {
	fset := token.NewFileSet()
	f, err := parser.ParseFile(fset, in, nil, parser.ParseComments)
	if err != nil {
		return 0, 0, err
	}
	for _, imp := range f.Imports {
		p, _ := strconv.Unquote(imp.Path.Value)
		to, ok := importMap[p]
		if !ok && isBytesPkg && p == "os" {
			to, ok = "sonicverif/shim/os", true
		}
		if ok {
			imp.Path.Value = strconv.Quote(to)
			imp.EndPos = 0
			imports++
		}
	}
	// go statements
	ast.Inspect(f, func(n ast.Node) bool {
		blk, ok := n.(*ast.BlockStmt)
		if ok {
			for i, st := range blk.List {
				if g, ok := st.(*ast.GoStmt); ok {
					blk.List[i] = goToSim(g)
					gostmts++
				}
			}
		}
		if cc, ok := n.(*ast.CaseClause); ok {
			for i, st := range cc.Body {
				if g, ok := st.(*ast.GoStmt); ok {
					cc.Body[i] = goToSim(g)
					gostmts++
				}
			}
		}
		return true
	})
	if gostmts > 0 {
		addImport(f, "sonicverif/simrt")
	}
	var buf bytes.Buffer
	if err := (&printer.Config{Mode: printer.UseSpaces | printer.TabIndent, Tabwidth: 8}).Fprint(&buf, fset, f); err != nil {
		return 0, 0, err
	}
	// refuse a file that still reaches the real kernel packages directly
	chk, err := parser.ParseFile(token.NewFileSet(), out, buf.Bytes(), parser.ImportsOnly)
	if err != nil {
		return 0, 0, fmt.Errorf("rewritten file does not parse: %w", err)
	}
	for _, imp := range chk.Imports {
		p, _ := strconv.Unquote(imp.Path.Value)
		if p == "syscall" || p == "golang.org/x/sys/unix" {
			return 0, 0, fmt.Errorf("still imports %s after rewriting", p)
		}
	}
	return imports, gostmts, os.WriteFile(out, buf.Bytes(), 0o644)
}

func goToSim(g *ast.GoStmt) ast.Stmt {
	body := &ast.BlockStmt{List: []ast.Stmt{&ast.ExprStmt{X: g.Call}}}
	lit := &ast.FuncLit{Type: &ast.FuncType{Params: &ast.FieldList{}}, Body: body}
	return &ast.ExprStmt{X: &ast.CallExpr{
		Fun:  &ast.SelectorExpr{X: ast.NewIdent("simrt"), Sel: ast.NewIdent("Go")},
		Args: []ast.Expr{lit},
	}}
}

func addImport(f *ast.File, path string) {
	spec := &ast.ImportSpec{Path: &ast.BasicLit{Kind: token.STRING, Value: strconv.Quote(path)}}
	for _, d := range f.Decls {
		if gd, ok := d.(*ast.GenDecl); ok && gd.Tok == token.IMPORT {
			gd.Specs = append(gd.Specs, spec)
			if !gd.Lparen.IsValid() {
				gd.Lparen = gd.Pos()
				gd.Rparen = gd.End()
			}
			f.Imports = append(f.Imports, spec)
			return
		}
	}
	gd := &ast.GenDecl{Tok: token.IMPORT, Specs: []ast.Spec{spec}}
	f.Decls = append([]ast.Decl{gd}, f.Decls...)
	f.Imports = append(f.Imports, spec)
}
