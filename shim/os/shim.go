// Package os: simulation-build replacement for os, used only by sonic/bytes.
// Everything goes to the real kernel (the mirrored buffer's file and mappings
// are real); CreateTemp and Truncate have injectable failures.
package os

import (
	real "os"

	"sonicverif/sim"
)

type File struct{ *real.File }

func CreateTemp(dir, pattern string) (*File, error) {
	if w := sim.Cur(); w != nil {
		if e := w.InjectCall(sim.CkCreateTemp); e != 0 {
			return nil, &real.PathError{Op: "open", Path: dir, Err: e}
		}
	}
	f, err := real.CreateTemp(dir, pattern)
	if err != nil {
		return nil, err
	}
	return &File{f}, nil
}

func (f *File) Truncate(size int64) error {
	if w := sim.Cur(); w != nil {
		if e := w.InjectCall(sim.CkFtruncate); e != 0 {
			return &real.PathError{Op: "truncate", Path: f.Name(), Err: e}
		}
	}
	return f.File.Truncate(size)
}
