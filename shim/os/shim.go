// Package os: simulation-build replacement for os, used only by sonic/bytes.
// Everything goes to the real kernel (the mirrored buffer's file and mappings
// are real); CreateTemp and Truncate have injectable failures.
package os

import (
	real "os"

	"sonicverif/sim"
)

type File struct{ *real.File }

func CreateTemp(dir, pattern string) (*File, error) {
	if w := sim.Cur(); w != nil {
		if e := w.InjectCall(sim.CkCreateTemp); e != 0 {
			return nil, &real.PathError{Op: "open", Path: dir, Err: e}
		}
	}
	f, err := real.CreateTemp(dir, pattern)
	if err != nil {
		return nil, err
	}
	created = append(created, f.Name())
	return &File{f}, nil
}

// created: temporary files this process made through the shim.
var created []string

// Leftovers counts the temporary files created by this process (through
// sonic/bytes) that still exist on disk. Other processes' files do not count.
func Leftovers() int {
	n := 0
	kept := created[:0]
	for _, name := range created {
		if _, err := real.Stat(name); err == nil {
			n++
			kept = append(kept, name)
		}
	}
	created = kept
	return n
}

func (f *File) Truncate(size int64) error {
	if w := sim.Cur(); w != nil {
		if e := w.InjectCall(sim.CkFtruncate); e != 0 {
			return &real.PathError{Op: "truncate", Path: f.Name(), Err: e}
		}
	}
	return f.File.Truncate(size)
}
