//go:build race

package syscall

import "unsafe"

func unsafePointer(p *int64) unsafe.Pointer { return unsafe.Pointer(p) }
