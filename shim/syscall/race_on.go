//go:build race

package syscall

import "runtime"

// The real syscall.Read/Write/Recvfrom/Sendto wrappers synchronise on a global
// for the race detector (race.Acquire(&ioSync) after a read, ReleaseMerge
// before a write); the eventfd write->read pair of IO.Post relies on that
// edge in the real program, so the shim reproduces exactly it and no more.
var ioSync int64

func raceAcquireIO() { runtime.RaceAcquire(unsafePointer(&ioSync)) }
func raceReleaseIO() { runtime.RaceReleaseMerge(unsafePointer(&ioSync)) }
