// Package syscall is the simulation build's replacement for the standard
// syscall package inside the rewritten sonic sources: types and constants are
// aliases of the real ones (zz_generated.go), the kernel entry points below go
// to the simulated kernel of the current sim.World.
package syscall

import (
	real "syscall"
	"unsafe"

	"sonicverif/sim"
)

func world() *sim.World {
	w := sim.Cur()
	if w == nil {
		sim.Bug("kernel call outside a simulated world")
	}
	return w
}

func errOf(e real.Errno) error {
	if e == 0 {
		return nil
	}
	return e
}

func Close(fd int) error { return errOf(world().K.Close(fd)) }

func Read(fd int, p []byte) (int, error) {
	n, e := world().K.Read(fd, p)
	raceAcquireIO()
	return n, errOf(e)
}

func Write(fd int, p []byte) (int, error) {
	raceReleaseIO()
	n, e := world().K.Write(fd, p)
	return n, errOf(e)
}

func Open(path string, mode int, perm uint32) (int, error) {
	fd, e := world().K.Open(path, mode, perm)
	return fd, errOf(e)
}

func Seek(fd int, offset int64, whence int) (int64, error) {
	n, e := world().K.Seek(fd, offset, whence)
	return n, errOf(e)
}

func Pipe(p []int) error {
	if len(p) != 2 {
		return real.EINVAL
	}
	r, w, e := world().K.Pipe()
	if e != 0 {
		return e
	}
	p[0], p[1] = r, w
	return nil
}

func Pipe2(p []int, flags int) error {
	if err := Pipe(p); err != nil {
		return err
	}
	if flags&real.O_NONBLOCK != 0 {
		_ = SetNonblock(p[0], true)
		_ = SetNonblock(p[1], true)
	}
	return nil
}

func SetNonblock(fd int, nonblocking bool) error {
	return errOf(world().K.SetNonblock(fd, nonblocking))
}

func Socket(domain, typ, proto int) (int, error) {
	fd, e := world().K.Socket(domain, typ, proto)
	return fd, errOf(e)
}

func sa4(sa real.Sockaddr) (ip [4]byte, port int, ok bool) {
	switch a := sa.(type) {
	case *real.SockaddrInet4:
		return a.Addr, a.Port, true
	}
	return ip, 0, false
}

func Bind(fd int, sa real.Sockaddr) error {
	ip, port, ok := sa4(sa)
	if !ok {
		return real.EAFNOSUPPORT
	}
	return errOf(world().K.Bind(fd, ip, port))
}

func Connect(fd int, sa real.Sockaddr) error {
	ip, port, ok := sa4(sa)
	if !ok {
		return real.EAFNOSUPPORT
	}
	return errOf(world().K.Connect(fd, ip, port))
}

func Listen(fd int, backlog int) error { return errOf(world().K.Listen(fd, backlog)) }

func Accept(fd int) (int, real.Sockaddr, error) {
	nfd, ip, port, e := world().K.Accept(fd)
	if e != 0 {
		return -1, nil, e
	}
	return nfd, &real.SockaddrInet4{Addr: ip, Port: port}, nil
}

func Accept4(fd int, flags int) (int, real.Sockaddr, error) {
	nfd, sa, err := Accept(fd)
	if err == nil && flags&real.SOCK_NONBLOCK != 0 {
		_ = SetNonblock(nfd, true)
	}
	return nfd, sa, err
}

func Getsockname(fd int) (real.Sockaddr, error) {
	ip, port, e := world().K.Getsockname(fd)
	if e != 0 {
		return nil, e
	}
	return &real.SockaddrInet4{Addr: ip, Port: port}, nil
}

func Recvfrom(fd int, p []byte, flags int) (int, real.Sockaddr, error) {
	n, ip, port, e := world().K.Recvfrom(fd, p)
	raceAcquireIO()
	if e != 0 {
		return -1, nil, e
	}
	return n, &real.SockaddrInet4{Addr: ip, Port: port}, nil
}

func Sendto(fd int, p []byte, flags int, to real.Sockaddr) error {
	if to == nil {
		// send(2): the connected peer, or EDESTADDRREQ
		raceReleaseIO()
		_, e := world().K.Write(fd, p)
		return errOf(e)
	}
	ip, port, ok := sa4(to)
	if !ok {
		return real.EAFNOSUPPORT
	}
	raceReleaseIO()
	return errOf(world().K.Sendto(fd, p, ip, port))
}

func Shutdown(fd int, how int) error {
	return errOf(world().K.Shutdown(fd, how))
}

func SetsockoptInt(fd, level, opt int, value int) error {
	k := world().K
	if level == real.IPPROTO_IP {
		return errOf(k.SetIPOptInt(fd, opt, value))
	}
	return errOf(k.SetsockoptInt(fd, level, opt, value))
}

func SetsockoptByte(fd, level, opt int, value byte) error {
	return SetsockoptInt(fd, level, opt, int(value))
}

func SetsockoptString(fd, level, opt int, s string) error {
	return errOf(world().K.SetsockoptString(fd, level, opt, s))
}

func SetsockoptInet4Addr(fd, level, opt int, value [4]byte) error {
	if level == real.IPPROTO_IP && opt == real.IP_MULTICAST_IF {
		return errOf(world().K.SetMulticastIf(fd, value))
	}
	return real.ENOPROTOOPT
}

func SetsockoptIPMreq(fd, level, opt int, mreq *real.IPMreq) error {
	if level != real.IPPROTO_IP {
		return real.ENOPROTOOPT
	}
	return errOf(world().K.McastOp(fd, opt, mreq.Multiaddr, mreq.Interface, [4]byte{}))
}

func GetsockoptInt(fd, level, opt int) (int, error) {
	v, e := world().K.GetsockoptInt(fd, level, opt)
	return v, errOf(e)
}

func GetsockoptInet4Addr(fd, level, opt int) ([4]byte, error) {
	if level == real.IPPROTO_IP && opt == real.IP_MULTICAST_IF {
		a, e := world().K.GetMulticastIf(fd)
		return a, errOf(e)
	}
	return [4]byte{}, real.ENOPROTOOPT
}

func GetsockoptIPMreq(fd, level, opt int) (*real.IPMreq, error) {
	if level == real.IPPROTO_IP && opt == real.IP_MULTICAST_IF {
		a, e := world().K.GetMulticastIf(fd)
		if e != 0 {
			return nil, e
		}
		return &real.IPMreq{Multiaddr: a}, nil
	}
	return nil, real.ENOPROTOOPT
}

func EpollCreate1(flag int) (int, error) {
	fd, e := world().K.EpollCreate1(flag)
	return fd, errOf(e)
}

func EpollCreate(size int) (int, error) { return EpollCreate1(0) }

func EpollCtl(epfd int, op int, fd int, event *real.EpollEvent) error {
	var ev [12]byte
	var p *[12]byte
	if event != nil {
		ev = *(*[12]byte)(unsafe.Pointer(event))
		p = &ev
	}
	return errOf(world().K.EpollCtl(epfd, op, fd, p))
}

func EpollWait(epfd int, events []real.EpollEvent, msec int) (int, error) {
	if len(events) == 0 {
		return -1, real.EINVAL
	}
	n, e := world().K.EpollWait(epfd, unsafe.Pointer(&events[0]), len(events), msec)
	return n, errOf(e)
}

// Syscall: only eventfd2 is issued this way by sonic.
func Syscall(trap, a1, a2, a3 uintptr) (r1, r2 uintptr, err real.Errno) {
	switch trap {
	case real.SYS_EVENTFD2:
		fd, e := world().K.Eventfd(uint(a1), int(a2))
		if e != 0 {
			return ^uintptr(0), 0, e
		}
		return uintptr(fd), 0, 0
	case real.SYS_CLOSE:
		e := world().K.Close(int(a1))
		if e != 0 {
			return ^uintptr(0), 0, e
		}
		return 0, 0, 0
	}
	return ^uintptr(0), 0, real.ENOSYS
}

// Syscall6 is called by sonic with pointers converted to uintptr. The real
// Syscall6 is assembly, for which the compiler keeps the pointed-to objects
// alive and unmoved; for a Go function it does not, and a stack-allocated
// argument (the epoll_event in poller.add/modify, the ip_mreq_source in
// net/ipv4) would dangle if this goroutine's stack were copied during the
// call. The nosplit wrapper therefore copies such arguments before anything
// that can grow the stack runs.
//
//go:nosplit
func Syscall6(trap, a1, a2, a3, a4, a5, a6 uintptr) (r1, r2 uintptr, err real.Errno) {
	var arg [16]byte
	switch trap {
	case real.SYS_EPOLL_CTL:
		if a4 != 0 {
			*(*[12]byte)(unsafe.Pointer(&arg)) = *(*[12]byte)(unsafe.Pointer(a4))
		}
	case real.SYS_SETSOCKOPT:
		if a4 != 0 {
			n := a5
			if n > 16 {
				n = 16
			}
			for i := uintptr(0); i < n; i++ {
				arg[i] = *(*byte)(unsafe.Pointer(a4 + i))
			}
		}
	}
	return syscall6(trap, a1, a2, a3, a4, a5, a6, arg)
}

func syscall6(trap, a1, a2, a3, a4, a5, a6 uintptr, arg [16]byte) (r1, r2 uintptr, err real.Errno) {
	fail := ^uintptr(0)
	switch trap {
	case real.SYS_MMAP:
		// the mirrored buffer's MMU aliasing is the property: real kernel
		if w := sim.Cur(); w != nil {
			if e := w.InjectCall(sim.CkMmap); e != 0 {
				return fail, 0, e
			}
		}
		return real.Syscall6(trap, a1, a2, a3, a4, a5, a6)
	case real.SYS_EPOLL_WAIT:
		n, e := world().K.EpollWait(int(a1), unsafe.Pointer(a2), int(a3), int(int32(a4)))
		if e != 0 {
			return fail, 0, e
		}
		return uintptr(n), 0, 0
	case real.SYS_EPOLL_CTL:
		var p *[12]byte
		if a4 != 0 {
			p = (*[12]byte)(unsafe.Pointer(&arg))
		}
		if e := world().K.EpollCtl(int(a1), int(a2), int(a3), p); e != 0 {
			return fail, 0, e
		}
		return 0, 0, 0
	case real.SYS_SETSOCKOPT:
		fd, level, opt, n := int(a1), int(a2), int(a3), int(a5)
		k := world().K
		if level == real.IPPROTO_IP {
			switch opt {
			case real.IP_ADD_SOURCE_MEMBERSHIP, real.IP_DROP_SOURCE_MEMBERSHIP, real.IP_BLOCK_SOURCE, real.IP_UNBLOCK_SOURCE:
				if n < 12 {
					return fail, 0, real.EINVAL
				}
				var g, i, s [4]byte
				copy(g[:], arg[0:4])
				copy(i[:], arg[4:8])
				copy(s[:], arg[8:12])
				if e := k.McastOp(fd, opt, g, i, s); e != 0 {
					return fail, 0, e
				}
				return 0, 0, 0
			}
		}
		if level == real.SOL_SOCKET && opt == real.SO_BINDTODEVICE {
			if n > 16 {
				n = 16
			}
			name := arg[:n]
			for j, c := range name {
				if c == 0 {
					name = name[:j]
					break
				}
			}
			if e := k.SetsockoptString(fd, level, opt, string(name)); e != 0 {
				return fail, 0, e
			}
			return 0, 0, 0
		}
		if n >= 4 {
			v := int(int32(uint32(arg[0]) | uint32(arg[1])<<8 | uint32(arg[2])<<16 | uint32(arg[3])<<24))
			if e := k.SetsockoptInt(fd, level, opt, v); e != 0 {
				return fail, 0, e
			}
			return 0, 0, 0
		}
		return fail, 0, real.EINVAL
	}
	return fail, 0, real.ENOSYS
}

func Mmap(fd int, offset int64, length int, prot int, flags int) ([]byte, error) {
	if w := sim.Cur(); w != nil {
		if e := w.InjectCall(sim.CkMmap); e != 0 {
			return nil, e
		}
	}
	return real.Mmap(fd, offset, length, prot, flags)
}

func Munmap(b []byte) error { return real.Munmap(b) }
