//go:build !race

package syscall

func raceAcquireIO() {}
func raceReleaseIO() {}
