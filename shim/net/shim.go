// Package net: simulation-build replacement for net. Address types and pure
// helpers are the real ones; interfaces come from the simulated host and
// DialTimeout returns a connection over the simulated kernel that blocks the
// calling task the way Go's netpoller blocks a goroutine.
package net

import (
	"errors"
	"io"
	real "net"
	"os"
	"runtime"
	"strconv"
	"syscall"
	"time"
	"weak"

	"sonicverif/sim"
)

type Interface struct {
	Index        int
	MTU          int
	Name         string
	HardwareAddr real.HardwareAddr
	Flags        real.Flags
}

var errNoSuchInterface = errors.New("no such network interface")

func world() *sim.World {
	w := sim.Cur()
	if w == nil {
		sim.Bug("net call outside a simulated world")
	}
	return w
}

func fromSim(it *sim.Iface) *Interface {
	fl := real.Flags(0)
	if it.Up {
		fl |= real.FlagUp | real.FlagRunning
	}
	if it.Multicast {
		fl |= real.FlagMulticast
	}
	if it.Loopback {
		fl |= real.FlagLoopback
	} else {
		fl |= real.FlagBroadcast
	}
	return &Interface{Index: it.Index, MTU: it.MTU, Name: it.Name, Flags: fl}
}

func InterfaceByName(name string) (*Interface, error) {
	it := world().K.IfaceByName(name)
	if it == nil {
		return nil, &real.OpError{Op: "route", Net: "ip+net", Err: errNoSuchInterface}
	}
	return fromSim(it), nil
}

func InterfaceByIndex(index int) (*Interface, error) {
	for _, it := range world().K.Ifaces() {
		if it.Index == index {
			x := it
			return fromSim(&x), nil
		}
	}
	return nil, &real.OpError{Op: "route", Net: "ip+net", Err: errNoSuchInterface}
}

func Interfaces() ([]Interface, error) {
	var out []Interface
	for _, it := range world().K.Ifaces() {
		x := it
		out = append(out, *fromSim(&x))
	}
	return out, nil
}

func (ifi *Interface) Addrs() ([]real.Addr, error) {
	if ifi == nil {
		return nil, &real.OpError{Op: "route", Net: "ip+net", Err: errors.New("invalid network interface")}
	}
	it := world().K.IfaceByName(ifi.Name)
	if it == nil {
		return nil, &real.OpError{Op: "route", Net: "ip+net", Err: errNoSuchInterface}
	}
	mask := real.CIDRMask(24, 32)
	if it.Loopback {
		mask = real.CIDRMask(8, 32)
	}
	return []real.Addr{&real.IPNet{IP: real.IPv4(it.IP[0], it.IP[1], it.IP[2], it.IP[3]), Mask: mask}}, nil
}

func (ifi *Interface) MulticastAddrs() ([]real.Addr, error) { return nil, nil }

// ---------------------------------------------------------------------------

// SimConn is the stub for the *net.TCPConn Go's dialer returns.
type SimConn struct {
	fd    int
	st    *connState
	laddr *real.TCPAddr
	raddr *real.TCPAddr
}

// connState outlives the conn: it is what the runtime's finalizer would act on.
var statShortConnWrite = sim.RegStat("probe:net-conn-write-accepts-a-prefix")

type connState struct {
	fd        int
	closed    bool
	inControl int // RawConn.Control callbacks running: each holds a reference to the descriptor
}

type connEntry struct {
	wp weak.Pointer[SimConn]
	st *connState
}

var registry []connEntry

// ResetRegistry forgets every conn of previous runs.
func ResetRegistry() { registry = nil; EOFWithData = false; ShortWrites = false }

// EOFWithData makes the stub conn behave at the end of the stream like tls.Conn (which sonic's websocket
// client adapts for wss://) rather than like *net.TCPConn: when the end of the stream is already known, the
// Read that returns the last bytes returns io.EOF together with them - as io.Reader allows. Set per run.
var EOFWithData bool

// ShortWrites lets Write accept only a prefix and return (n, nil). io.Writer forbids that and *net.TCPConn never
// does it, but AsyncAdapter takes any io.ReadWriter and has a resume path for exactly this (a wrapper over a raw
// non-blocking descriptor behaves so): with the option on, that path runs. Set per run.
var ShortWrites bool

// CollectGarbage runs the collector and then does what the runtime's
// finalizer does for every conn that became unreachable without having been
// closed: it closes the descriptor NUMBER the conn was created with - whatever
// that number refers to by now. Returns how many finalizers ran.
func CollectGarbage() int {
	runtime.GC()
	runtime.GC()
	n := 0
	for i := range registry {
		e := &registry[i]
		if e.st.closed || e.wp.Value() != nil {
			continue
		}
		e.st.closed = true
		n++
		if w := sim.Cur(); w != nil {
			w.Tracef("finalizer closes fd %d of a collected conn", e.st.fd)
			w.K.Close(e.st.fd)
		}
	}
	return n
}

// LiveUnclosed counts conns that are still reachable and not closed.
func LiveUnclosed() int {
	n := 0
	for _, e := range registry {
		if !e.st.closed && e.wp.Value() != nil {
			n++
		}
	}
	return n
}

func DialTimeout(network, address string, timeout time.Duration) (real.Conn, error) {
	w := world()
	k := w.K
	opErr := func(err error) error {
		return &real.OpError{Op: "dial", Net: network, Err: err}
	}
	if e := w.InjectCall(sim.CkDial); e != 0 {
		return nil, opErr(os.NewSyscallError("connect", e))
	}
	host, portStr, err := real.SplitHostPort(address)
	if err != nil {
		return nil, opErr(err)
	}
	if host == "localhost" || host == "" {
		host = "127.0.0.1"
	}
	ip := real.ParseIP(host).To4()
	if ip == nil {
		return nil, opErr(&real.DNSError{Err: "no such host", Name: host, IsNotFound: true})
	}
	port, err := strconv.Atoi(portStr)
	if err != nil {
		return nil, opErr(err)
	}
	fd, e := k.Socket(syscall.AF_INET, syscall.SOCK_STREAM|syscall.SOCK_NONBLOCK, 0)
	if e != 0 {
		return nil, opErr(os.NewSyscallError("socket", e))
	}
	var ip4 [4]byte
	copy(ip4[:], ip)
	e = k.Connect(fd, ip4, port)
	if e != 0 && e != syscall.EINPROGRESS {
		k.Close(fd)
		return nil, opErr(os.NewSyscallError("connect", e))
	}
	if e == syscall.EINPROGRESS {
		deadline := int64(-1)
		if timeout > 0 {
			deadline = w.Now + int64(timeout)
		}
		ok := w.Block("dial", func() bool {
			_, wr, _ := k.SelectNoYield(nil, []int{fd})
			return len(wr) > 0
		}, deadline)
		if !ok {
			k.Close(fd)
			return nil, opErr(os.ErrDeadlineExceeded)
		}
		soerr, _ := k.GetsockoptInt(fd, syscall.SOL_SOCKET, syscall.SO_ERROR)
		if soerr != 0 {
			k.Close(fd)
			return nil, opErr(os.NewSyscallError("connect", syscall.Errno(soerr)))
		}
	}
	c := &SimConn{fd: fd, st: &connState{fd: fd}}
	registry = append(registry, connEntry{wp: weak.Make(c), st: c.st})
	lip, lport, _ := k.Getsockname(fd)
	c.laddr = &real.TCPAddr{IP: real.IPv4(lip[0], lip[1], lip[2], lip[3]), Port: lport}
	c.raddr = &real.TCPAddr{IP: real.IPv4(ip4[0], ip4[1], ip4[2], ip4[3]), Port: port}
	return c, nil
}

func Dial(network, address string) (real.Conn, error) { return DialTimeout(network, address, 0) }

func (c *SimConn) Fd() int { return c.fd }

func (c *SimConn) opErr(op string, err error) error {
	return &real.OpError{Op: op, Net: "tcp", Source: c.laddr, Addr: c.raddr, Err: err}
}

func (c *SimConn) Read(p []byte) (int, error) {
	w := world()
	k := w.K
	if len(p) == 0 {
		return 0, nil
	}
	for {
		if c.st.closed {
			return 0, c.opErr("read", real.ErrClosed)
		}
		n, e := k.Read(c.fd, p)
		switch {
		case e == syscall.EAGAIN:
			fd := c.fd
			w.Block("conn.Read", func() bool {
				if c.st.closed {
					return true
				}
				rr, _, _ := k.SelectNoYield([]int{fd}, nil)
				return len(rr) > 0 || k.KindOf(fd) == ""
			}, -1)
			continue
		case e == syscall.EINTR:
			continue
		case e != 0:
			return 0, c.opErr("read", os.NewSyscallError("read", e))
		case n == 0:
			return 0, io.EOF
		}
		if EOFWithData {
			if end := k.EndOf(c.fd); end != nil && end.FinReceived() && end.RecvQueued() == 0 && !end.ActorReset() {
				return n, io.EOF
			}
		}
		return n, nil
	}
}

func (c *SimConn) Write(p []byte) (int, error) {
	w := world()
	k := w.K
	if ShortWrites && len(p) > 1 && w.Chance(1, 3) {
		p = p[:1+w.Choose(len(p)-1)]
		w.Stat(statShortConnWrite)
	}
	done := 0
	for done < len(p) {
		if c.st.closed {
			return done, c.opErr("write", real.ErrClosed)
		}
		n, e := k.Write(c.fd, p[done:])
		switch {
		case e == syscall.EAGAIN:
			fd := c.fd
			w.Block("conn.Write", func() bool {
				if c.st.closed {
					return true
				}
				_, wr, _ := k.SelectNoYield(nil, []int{fd})
				return len(wr) > 0 || k.KindOf(fd) == ""
			}, -1)
			continue
		case e == syscall.EINTR:
			continue
		case e != 0:
			return done, c.opErr("write", os.NewSyscallError("write", e))
		}
		done += n
	}
	return done, nil
}

// Close closes the descriptor number the conn was created with, as
// poll.FD.destroy does - whatever that number refers to by now.
func (c *SimConn) Close() error {
	if c.st.closed {
		return c.opErr("close", real.ErrClosed)
	}
	c.st.closed = true
	if c.st.inControl > 0 {
		// poll.FD.Close waits until every reference to the descriptor is gone, and RawConn.Control holds one
		// while its callback runs: a Close issued from inside that callback never returns
		world().Block("net.Conn.Close inside RawConn.Control (the runtime waits for Control to return)", func() bool { return c.st.inControl == 0 }, -1)
	}
	if e := world().K.Close(c.fd); e != 0 {
		return c.opErr("close", os.NewSyscallError("close", e))
	}
	return nil
}

// Finalize is what the runtime does when an unclosed conn is collected.
func (c *SimConn) Finalize() {
	if !c.st.closed {
		_ = c.Close()
	}
}

func (c *SimConn) Closed() bool                       { return c.st.closed }
func (c *SimConn) LocalAddr() real.Addr               { return c.laddr }
func (c *SimConn) RemoteAddr() real.Addr              { return c.raddr }
func (c *SimConn) SetDeadline(t time.Time) error      { return nil }
func (c *SimConn) SetReadDeadline(t time.Time) error  { return nil }
func (c *SimConn) SetWriteDeadline(t time.Time) error { return nil }

type rawConn struct{ c *SimConn }

func (c *SimConn) SyscallConn() (syscall.RawConn, error) {
	// as net.TCPConn: succeeds on a closed conn too; Control then reports the error
	return rawConn{c}, nil
}

func (r rawConn) Control(f func(fd uintptr)) error {
	if r.c.st.closed {
		return r.c.opErr("raw-control", real.ErrClosed)
	}
	r.c.st.inControl++
	defer func() { r.c.st.inControl-- }()
	f(uintptr(r.c.fd))
	return nil
}
func (r rawConn) Read(f func(fd uintptr) (done bool)) error {
	return errors.New("rawConn.Read not modelled")
}
func (r rawConn) Write(f func(fd uintptr) (done bool)) error {
	return errors.New("rawConn.Write not modelled")
}
