// Package rand: simulation-build replacement for crypto/rand; bytes come from
// the world's seed-derived data stream (not from the choice tape).
package rand

import (
	real "crypto/rand"
	"io"

	"sonicverif/sim"
)

type reader struct{}

func (reader) Read(p []byte) (int, error) { return Read(p) }

var Reader io.Reader = reader{}

func Read(b []byte) (int, error) {
	w := sim.Cur()
	if w == nil {
		return real.Read(b)
	}
	w.DataBytes(b)
	return len(b), nil
}
