// Package unix: simulation-build replacement for golang.org/x/sys/unix.
package unix

import (
	real "golang.org/x/sys/unix"
	"syscall"

	"sonicverif/sim"
)

func world() *sim.World {
	w := sim.Cur()
	if w == nil {
		sim.Bug("kernel call outside a simulated world")
	}
	return w
}

func errOf(e syscall.Errno) error {
	if e == 0 {
		return nil
	}
	return e
}

func TimerfdCreate(clockid int, flags int) (int, error) {
	fd, e := world().K.TimerfdCreate(clockid, flags)
	return fd, errOf(e)
}

func TimerfdSettime(fd int, flags int, newValue *real.ItimerSpec, oldValue *real.ItimerSpec) error {
	if newValue == nil {
		return syscall.EFAULT
	}
	if flags != 0 {
		return syscall.EINVAL // absolute timers are not modelled
	}
	v := newValue.Value.Sec*1_000_000_000 + newValue.Value.Nsec
	i := newValue.Interval.Sec*1_000_000_000 + newValue.Interval.Nsec
	if newValue.Value.Nsec < 0 || newValue.Value.Nsec >= 1_000_000_000 || newValue.Value.Sec < 0 {
		return syscall.EINVAL
	}
	return errOf(world().K.TimerfdSettime(fd, v, i))
}

func FcntlInt(fd uintptr, cmd, arg int) (int, error) {
	k := world().K
	switch cmd {
	case real.F_GETFL:
		nb, e := k.GetFlNonblock(int(fd))
		if e != 0 {
			return -1, e
		}
		if nb {
			return real.O_NONBLOCK | real.O_RDWR, nil
		}
		return real.O_RDWR, nil
	case real.F_SETFL:
		return 0, errOf(k.SetNonblock(int(fd), arg&real.O_NONBLOCK != 0))
	}
	return -1, syscall.EINVAL
}

func Select(nfd int, r *real.FdSet, w *real.FdSet, e *real.FdSet, timeout *real.Timeval) (int, error) {
	list := func(s *real.FdSet) []int {
		var out []int
		if s == nil {
			return nil
		}
		for fd := 0; fd < nfd && fd < 1024; fd++ {
			if s.IsSet(fd) {
				out = append(out, fd)
			}
		}
		return out
	}
	rl, wl := list(r), list(w)
	tmo := int64(-1)
	if timeout != nil {
		tmo = timeout.Sec*1_000_000_000 + timeout.Usec*1_000
	}
	rr, wr, errno := world().K.Select(rl, wl, tmo)
	if errno != 0 {
		return -1, errno
	}
	if r != nil {
		r.Zero()
		for _, fd := range rr {
			r.Set(fd)
		}
	}
	if w != nil {
		w.Zero()
		for _, fd := range wr {
			w.Set(fd)
		}
	}
	if e != nil {
		e.Zero()
	}
	return len(rr) + len(wr), nil
}

func Close(fd int) error { return errOf(world().K.Close(fd)) }

func SetNonblock(fd int, nonblocking bool) error {
	return errOf(world().K.SetNonblock(fd, nonblocking))
}

// Poll: poll(2) over simulated descriptors (the connect path waits for
// writability with it).
func Poll(fds []real.PollFd, timeout int) (int, error) {
	var rl, wl []int
	for i := range fds {
		fds[i].Revents = 0
		if fds[i].Fd < 0 {
			continue
		}
		if fds[i].Events&real.POLLIN != 0 {
			rl = append(rl, int(fds[i].Fd))
		}
		if fds[i].Events&real.POLLOUT != 0 {
			wl = append(wl, int(fds[i].Fd))
		}
	}
	tmo := int64(-1)
	if timeout >= 0 {
		tmo = int64(timeout) * 1_000_000
	}
	rr, wr, errno := world().K.Select(rl, wl, tmo)
	if errno != 0 {
		if errno == syscall.EBADF {
			// poll reports a closed number in revents, not as an error
			n := 0
			for i := range fds {
				if fds[i].Fd >= 0 && world().K.KindOf(int(fds[i].Fd)) == "" {
					fds[i].Revents = real.POLLNVAL
					n++
				}
			}
			if n > 0 {
				return n, nil
			}
		}
		return -1, errno
	}
	n := 0
	for i := range fds {
		for _, fd := range rr {
			if int(fds[i].Fd) == fd {
				fds[i].Revents |= real.POLLIN
			}
		}
		for _, fd := range wr {
			if int(fds[i].Fd) == fd {
				fds[i].Revents |= real.POLLOUT
			}
		}
		if fds[i].Revents != 0 {
			n++
		}
	}
	return n, nil
}
