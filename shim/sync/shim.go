// Package sync: simulation-build replacement for sync. Mutex is
// scheduler-aware (Lock/Unlock are yield points; waiting parks the task), but
// it is backed by a real sync.Mutex that is only ever taken uncontended, so
// the race detector still sees the lock's happens-before edges. Pool is a
// deterministic LIFO with an injectable "the collector emptied it" event.
package sync

import (
	real "sync"

	"sonicverif/sim"
)

type Mutex struct {
	real  real.Mutex
	held  bool
	owner int
}

func (m *Mutex) Lock() {
	w := sim.Cur()
	if w == nil || w.Dead() {
		m.real.Lock()
		m.held = true
		return
	}
	w.Yield("mutex-lock")
	if m.held {
		w.StatMutexContended()
		w.Block("mutex", func() bool { return !m.held }, -1)
	}
	m.held = true
	m.owner = w.CurTask().ID()
	m.real.Lock()
}

func (m *Mutex) TryLock() bool {
	w := sim.Cur()
	if w == nil || w.Dead() {
		ok := m.real.TryLock()
		if ok {
			m.held = true
		}
		return ok
	}
	w.Yield("mutex-trylock")
	if m.held {
		return false
	}
	m.held = true
	m.owner = w.CurTask().ID()
	m.real.Lock()
	return true
}

func (m *Mutex) Unlock() {
	w := sim.Cur()
	if !m.held {
		if w != nil && w.Dead() {
			return
		}
		panic("sync: unlock of unlocked mutex")
	}
	m.held = false
	m.real.Unlock()
	if w != nil && !w.Dead() {
		w.Yield("mutex-unlock")
	}
}

// RWMutex is modelled as an exclusive lock (a legal, more restrictive schedule set).
type RWMutex struct{ m Mutex }

func (rw *RWMutex) Lock()          { rw.m.Lock() }
func (rw *RWMutex) Unlock()        { rw.m.Unlock() }
func (rw *RWMutex) RLock()         { rw.m.Lock() }
func (rw *RWMutex) RUnlock()       { rw.m.Unlock() }
func (rw *RWMutex) TryLock() bool  { return rw.m.TryLock() }
func (rw *RWMutex) TryRLock() bool { return rw.m.TryLock() }

type Pool struct {
	New   func() any
	items []any
}

func (p *Pool) Get() any {
	if w := sim.Cur(); w != nil && !w.Dead() {
		if len(p.items) > 0 && w.Fault(sim.FPoolEmpty) {
			p.items = nil
		}
	}
	if n := len(p.items); n > 0 {
		x := p.items[n-1]
		p.items[n-1] = nil
		p.items = p.items[:n-1]
		return x
	}
	if p.New != nil {
		return p.New()
	}
	return nil
}

func (p *Pool) Put(x any) {
	if x == nil {
		return
	}
	p.items = append(p.items, x)
}
