// Package time: simulation-build replacement for time; the clock is the
// world's virtual clock.
package time

import (
	real "time"

	"sonicverif/sim"
)

var epoch = real.Unix(1_700_000_000, 0)

func Now() real.Time {
	w := sim.Cur()
	if w == nil {
		return real.Now()
	}
	return epoch.Add(real.Duration(w.Now))
}

func Since(t real.Time) real.Duration { return Now().Sub(t) }
func Until(t real.Time) real.Duration { return t.Sub(Now()) }

func Sleep(d real.Duration) {
	w := sim.Cur()
	if w == nil {
		real.Sleep(d)
		return
	}
	if d <= 0 {
		w.Yield("sleep")
		return
	}
	w.Block("sleep", func() bool { return false }, w.Now+int64(d))
}
