package sim

import (
	"syscall"
)

// Iface is one simulated network interface of the host sonic runs on.
type Iface struct {
	Name      string
	Index     int
	IP        [4]byte
	Loopback  bool
	Multicast bool
	Up        bool
	MTU       int
}

func defaultIfaces() []Iface {
	return []Iface{
		{Name: "lo", Index: 1, IP: [4]byte{127, 0, 0, 1}, Loopback: true, Multicast: true, Up: true, MTU: 65536},
		{Name: "eth0", Index: 2, IP: [4]byte{10, 0, 0, 2}, Multicast: true, Up: true, MTU: 1500},
		{Name: "eth1", Index: 3, IP: [4]byte{10, 0, 1, 2}, Multicast: true, Up: true, MTU: 1500},
		{Name: "tun0", Index: 4, IP: [4]byte{10, 9, 0, 2}, Multicast: false, Up: true, MTU: 1400},
	}
}

func (k *Kernel) Ifaces() []Iface { return k.ifaces }

func (k *Kernel) ifaceByName(name string) *Iface {
	for i := range k.ifaces {
		if k.ifaces[i].Name == name {
			return &k.ifaces[i]
		}
	}
	return nil
}
func (k *Kernel) IfaceByName(name string) *Iface { return k.ifaceByName(name) }

func (k *Kernel) ifaceByIP(ip [4]byte) *Iface {
	for i := range k.ifaces {
		if k.ifaces[i].IP == ip {
			return &k.ifaces[i]
		}
	}
	return nil
}

func (k *Kernel) ifaceByIndex(ix int) *Iface {
	for i := range k.ifaces {
		if k.ifaces[i].Index == ix {
			return &k.ifaces[i]
		}
	}
	return nil
}

// defaultMcastIface: the device the routing table gives for multicast groups.
func (k *Kernel) defaultMcastIface() *Iface {
	for i := range k.ifaces {
		if !k.ifaces[i].Loopback && k.ifaces[i].Multicast && k.ifaces[i].Up {
			return &k.ifaces[i]
		}
	}
	return nil
}

// ---------------------------------------------------------------------------

type Dgram struct {
	ID      int // scenario-assigned identity (0 for datagrams sonic sent)
	Data    []byte
	SrcIP   [4]byte
	SrcPort int
	DstIP   [4]byte
	DstPort int
	IfIndex int // arrival / egress interface

	sender *udpSock // the local socket that sent it (nil for datagrams from remote hosts)
}

type mship struct {
	group   [4]byte
	ifindex int
	include bool      // include mode (source-specific)
	sources [][4]byte // include list or, in exclude mode, the blocked sources
}

// UDPEvent is the kernel's own record of what happened to a datagram at a
// socket; oracles compare sonic's completions against it.
type UDPEvent struct {
	ID     int
	Gen    int // generation of the receiving description
	Action string
}

type udpSock struct {
	k         *Kernel
	f         *file
	bound     bool
	ip        [4]byte
	port      int
	connected bool
	peerIP    [4]byte
	peerPort  int

	queue       []Dgram
	queueCap    int
	spurious    bool
	pendingErr  syscall.Errno // asynchronous socket error (a connected socket's datagram met a closed port: ICMP port unreachable)
	sendBlocked bool

	members   []mship
	mcastIf   [4]byte
	mcastLoop int
	mcastTTL  int
	mcastAll  int

	Sent []Dgram
}

var (
	statUDPTrunc    = RegStat("probe:udp-datagram-truncated")
	statUDPOverflow = RegStat("probe:udp-queue-overflow")
	statUDPFiltered = RegStat("probe:udp-multicast-filtered")
	statUDPMcastDel = RegStat("probe:udp-multicast-delivered")
	statUDPSpurious = RegStat("probe:udp-spurious-readable")
	statUDPRefused  = RegStat("probe:udp-port-unreachable-reported-to-connected-sender")
)

func (k *Kernel) newUDP(f *file) *udpSock {
	u := &udpSock{k: k, f: f, queueCap: 1024, mcastLoop: 1, mcastTTL: 1, mcastAll: 1}
	if k.w.UDPQueueCap > 0 {
		u.queueCap = k.w.UDPQueueCap
	}
	k.udps = append(k.udps, u)
	return u
}

func (k *Kernel) removeUDP(u *udpSock) {
	for i, x := range k.udps {
		if x == u {
			k.udps = append(k.udps[:i], k.udps[i+1:]...)
			return
		}
	}
}

func (u *udpSock) getIPOpt(opt int) (int, syscall.Errno) {
	switch opt {
	case syscall.IP_MULTICAST_LOOP:
		return u.mcastLoop, 0
	case syscall.IP_MULTICAST_TTL:
		return u.mcastTTL, 0
	case ipMulticastAll:
		return u.mcastAll, 0
	case syscall.IP_MULTICAST_IF:
		ip := u.mcastIf
		return int(ip[0]) | int(ip[1])<<8 | int(ip[2])<<16 | int(ip[3])<<24, 0
	}
	v, _ := u.f.so.getInt(syscall.IPPROTO_IP, opt)
	return v, 0
}

const ipMulticastAll = 49

// SetIPOptInt handles integer/byte IPPROTO_IP options on a UDP socket.
func (k *Kernel) SetIPOptInt(fd, opt, val int) syscall.Errno {
	k.w.Yield("setsockopt")
	if e := k.w.inject(CkSetsockopt); e != 0 {
		return e
	}
	f := k.get(fd)
	if f == nil {
		return syscall.EBADF
	}
	if f.kind != fkUDP {
		f.so.setInt(syscall.IPPROTO_IP, opt, val)
		return 0
	}
	u := f.udp
	switch opt {
	case syscall.IP_MULTICAST_LOOP:
		if val != 0 {
			val = 1
		}
		u.mcastLoop = val
	case syscall.IP_MULTICAST_TTL:
		if val < -1 || val > 255 {
			return syscall.EINVAL
		}
		if val == -1 {
			val = 1
		}
		u.mcastTTL = val
	case ipMulticastAll:
		if val != 0 {
			val = 1
		}
		u.mcastAll = val
	default:
		f.so.setInt(syscall.IPPROTO_IP, opt, val)
	}
	k.w.Tracef("setsockopt %d ip/%d=%d", fd, opt, val)
	return 0
}

func (k *Kernel) SetMulticastIf(fd int, addr [4]byte) syscall.Errno {
	k.w.Yield("setsockopt")
	if e := k.w.inject(CkSetsockopt); e != 0 {
		return e
	}
	f := k.get(fd)
	if f == nil {
		return syscall.EBADF
	}
	if f.kind != fkUDP {
		return syscall.ENOPROTOOPT
	}
	if addr != ([4]byte{}) && k.ifaceByIP(addr) == nil {
		return syscall.EADDRNOTAVAIL
	}
	f.udp.mcastIf = addr
	return 0
}

func (k *Kernel) GetMulticastIf(fd int) ([4]byte, syscall.Errno) {
	k.w.Yield("getsockopt")
	if e := k.w.inject(CkGetsockopt); e != 0 {
		return [4]byte{}, e
	}
	f := k.get(fd)
	if f == nil {
		return [4]byte{}, syscall.EBADF
	}
	if f.kind != fkUDP {
		return [4]byte{}, syscall.ENOPROTOOPT
	}
	return f.udp.mcastIf, 0
}

// resolveIf maps an interface address of a membership request to an index
// (0.0.0.0 -> the routing default).
func (k *Kernel) resolveIf(addr [4]byte) (int, syscall.Errno) {
	if addr == ([4]byte{}) {
		if d := k.defaultMcastIface(); d != nil {
			return d.Index, 0
		}
		return 0, syscall.ENODEV
	}
	if it := k.ifaceByIP(addr); it != nil {
		return it.Index, 0
	}
	return 0, syscall.ENODEV
}

func (u *udpSock) findM(group [4]byte, ifindex int) int {
	for i := range u.members {
		if u.members[i].group == group && (ifindex == 0 || u.members[i].ifindex == ifindex) {
			return i
		}
	}
	return -1
}

// McastOp performs IP_ADD_MEMBERSHIP, IP_DROP_MEMBERSHIP,
// IP_ADD_SOURCE_MEMBERSHIP, IP_DROP_SOURCE_MEMBERSHIP, IP_BLOCK_SOURCE and
// IP_UNBLOCK_SOURCE with the semantics of net/ipv4/igmp.c.
func (k *Kernel) McastOp(fd, opt int, group, ifaddr, source [4]byte) syscall.Errno {
	w := k.w
	w.Yield("setsockopt")
	if e := w.inject(CkSetsockopt); e != 0 {
		return e
	}
	f := k.get(fd)
	if f == nil {
		return syscall.EBADF
	}
	if f.kind != fkUDP {
		if f.kind == fkSockNew || f.kind == fkTCP || f.kind == fkListener {
			return syscall.EPROTO // ip_setsockopt: multicast options on a stream socket
		}
		return syscall.ENOTSOCK
	}
	u := f.udp
	if !isMulticast(group) {
		return syscall.EINVAL
	}
	w.Tracef("mcast-op fd=%d opt=%d group=%v if=%v src=%v", fd, opt, group, ifaddr, source)
	switch opt {
	case syscall.IP_ADD_MEMBERSHIP:
		ix, e := k.resolveIf(ifaddr)
		if e != 0 {
			return e
		}
		if u.findM(group, ix) >= 0 {
			return syscall.EADDRINUSE
		}
		u.members = append(u.members, mship{group: group, ifindex: ix})
		return 0
	case syscall.IP_DROP_MEMBERSHIP:
		// ip_mc_leave_group: ip_mc_find_dev resolves a zero interface address to the device the
		// route to the group uses and stores its index in the request, so only a membership on
		// that device matches (ENODEV if there is no such route)
		ix, e := k.resolveIf(ifaddr)
		if e != 0 {
			if ifaddr == ([4]byte{}) {
				return syscall.ENODEV
			}
			return syscall.EADDRNOTAVAIL
		}
		i := u.findM(group, ix)
		if i < 0 {
			return syscall.EADDRNOTAVAIL
		}
		u.members = append(u.members[:i], u.members[i+1:]...)
		return 0
	}
	// source operations resolve the device first and need an exact match
	ix, e := k.resolveIf(ifaddr)
	if e != 0 {
		return e
	}
	i := -1
	for j := range u.members {
		if u.members[j].group == group && u.members[j].ifindex == ix {
			i = j
			break
		}
	}
	has := func(m *mship, s [4]byte) int {
		for j, x := range m.sources {
			if x == s {
				return j
			}
		}
		return -1
	}
	switch opt {
	case syscall.IP_ADD_SOURCE_MEMBERSHIP:
		if i < 0 {
			u.members = append(u.members, mship{group: group, ifindex: ix, include: true, sources: [][4]byte{source}})
			return 0
		}
		m := &u.members[i]
		if !m.include {
			if len(m.sources) > 0 {
				return syscall.EINVAL
			}
			m.include = true // mode switch is allowed for an empty filter
		}
		if has(m, source) >= 0 {
			return syscall.EADDRNOTAVAIL
		}
		m.sources = append(m.sources, source)
		return 0
	case syscall.IP_DROP_SOURCE_MEMBERSHIP:
		if i < 0 {
			return syscall.EINVAL
		}
		m := &u.members[i]
		if !m.include {
			return syscall.EINVAL
		}
		j := has(m, source)
		if j < 0 {
			return syscall.EADDRNOTAVAIL
		}
		m.sources = append(m.sources[:j], m.sources[j+1:]...)
		if len(m.sources) == 0 {
			u.members = append(u.members[:i], u.members[i+1:]...)
		}
		return 0
	case syscall.IP_BLOCK_SOURCE:
		if i < 0 {
			return syscall.EINVAL
		}
		m := &u.members[i]
		if m.include {
			return syscall.EINVAL
		}
		if has(m, source) >= 0 {
			return syscall.EADDRNOTAVAIL
		}
		m.sources = append(m.sources, source)
		return 0
	case syscall.IP_UNBLOCK_SOURCE:
		if i < 0 {
			return syscall.EINVAL
		}
		m := &u.members[i]
		if m.include {
			return syscall.EINVAL
		}
		j := has(m, source)
		if j < 0 {
			return syscall.EADDRNOTAVAIL
		}
		m.sources = append(m.sources[:j], m.sources[j+1:]...)
		return 0
	}
	return syscall.ENOPROTOOPT
}

// hostJoined: ip_check_mc_rcu - the IP layer accepts a frame for group from
// src on that device iff the device's aggregated filter admits it, that is iff
// some socket's membership of the group on that device admits the source (an
// any-source membership that does not block it, or a source-specific one that
// lists it).
func (k *Kernel) hostJoined(group, src [4]byte, ifindex int) bool {
	for _, u := range k.udps {
		for i := range u.members {
			m := &u.members[i]
			if m.group != group || m.ifindex != ifindex {
				continue
			}
			found := false
			for _, s := range m.sources {
				if s == src {
					found = true
				}
			}
			if found == m.include {
				return true
			}
		}
	}
	return false
}

// sfAllow: ip_mc_sf_allow.
func (u *udpSock) sfAllow(group, src [4]byte, ifindex int) bool {
	for i := range u.members {
		m := &u.members[i]
		if m.group != group || m.ifindex != ifindex {
			continue
		}
		found := false
		for _, s := range m.sources {
			if s == src {
				found = true
			}
		}
		if m.include {
			return found
		}
		return !found
	}
	return u.mcastAll != 0
}

func (u *udpSock) accepts(d *Dgram) bool {
	if !u.bound || u.port != d.DstPort {
		return false
	}
	if u.ip != ([4]byte{}) && u.ip != d.DstIP {
		return false
	}
	if dev := u.f.so.device; dev != "" {
		it := u.k.ifaceByName(dev)
		if it == nil || it.Index != d.IfIndex {
			return false
		}
	}
	if u.connected && (u.peerIP != d.SrcIP || u.peerPort != d.SrcPort) {
		return false
	}
	if isMulticast(d.DstIP) {
		return u.sfAllow(d.DstIP, d.SrcIP, d.IfIndex)
	}
	return true
}

// arrive: a datagram reaches the host's IP layer on the given device.
func (k *Kernel) arrive(d Dgram) {
	w := k.w
	mc := isMulticast(d.DstIP)
	if mc && !k.hostJoined(d.DstIP, d.SrcIP, d.IfIndex) {
		w.Stat(statUDPFiltered)
		k.UDPLog = append(k.UDPLog, UDPEvent{ID: d.ID, Action: "not-joined"})
		w.Tracef("udp id=%d dropped: host not joined", d.ID)
		return
	}
	var targets []*udpSock
	for _, u := range k.udps {
		if u.accepts(&d) {
			targets = append(targets, u)
		}
	}
	if len(targets) == 0 {
		if !mc && d.sender != nil && d.sender.connected && !d.sender.f.closed {
			// the host answers with ICMP port unreachable: a connected sender learns of it as a socket error
			d.sender.pendingErr = syscall.ECONNREFUSED
			w.Stat(statUDPRefused)
			w.Tracef("udp id=%d port unreachable -> socket error at fd=%d", d.ID, d.sender.f.fd)
		}
		if mc {
			w.Stat(statUDPFiltered)
		}
		k.UDPLog = append(k.UDPLog, UDPEvent{ID: d.ID, Action: "no-socket"})
		w.Tracef("udp id=%d dropped: no socket", d.ID)
		return
	}
	if !mc && len(targets) > 1 {
		// unicast with several SO_REUSEPORT sockets: the kernel picks one
		targets = []*udpSock{targets[w.Choose(len(targets))]}
	}
	for _, u := range targets {
		if len(u.queue) >= u.queueCap {
			w.Stat(statUDPOverflow)
			k.UDPLog = append(k.UDPLog, UDPEvent{ID: d.ID, Gen: u.f.gen, Action: "overflow"})
			continue
		}
		cp := d
		cp.Data = append([]byte(nil), d.Data...)
		u.queue = append(u.queue, cp)
		if mc {
			w.Stat(statUDPMcastDel)
		}
		k.UDPLog = append(k.UDPLog, UDPEvent{ID: d.ID, Gen: u.f.gen, Action: "queued"})
		w.Tracef("udp id=%d queued at fd=%d len=%d", d.ID, u.f.fd, len(d.Data))
	}
}

// ActorUDPSend: a remote host sends a datagram that reaches this host on the
// named interface. Loss, duplication, reordering and delay are applied here.
func (k *Kernel) ActorUDPSend(d Dgram, ifname string) {
	w := k.w
	it := k.ifaceByName(ifname)
	if it == nil {
		Bug("ActorUDPSend: no interface %q", ifname)
	}
	d.IfIndex = it.Index
	d.Data = append([]byte(nil), d.Data...)
	if w.Fault(FDgramLoss) {
		k.UDPLog = append(k.UDPLog, UDPEvent{ID: d.ID, Action: "lost"})
		w.Tracef("udp id=%d lost in transit", d.ID)
		return
	}
	delay := int64(0)
	if w.Fault(FDelay) {
		delay = int64(w.Pick(1_000, 100_000, 5_000_000))
	}
	if w.Fault(FDgramReorder) {
		delay += int64(w.Pick(2_000_000, 10_000_000, 50_000_000))
	}
	w.After(delay, "udp-arrive", func() { k.arrive(d) })
	if w.Fault(FDgramDup) {
		w.After(delay+int64(w.Pick(0, 1_000, 3_000_000)), "udp-arrive-dup", func() { k.arrive(d) })
	}
}

// UDPSpurious marks the socket readable although nothing can be received
// (a datagram that fails its checksum; see select(2) BUGS).
func (k *Kernel) UDPSpurious(fd int) {
	if f := k.get(fd); f != nil && f.kind == fkUDP {
		f.udp.spurious = true
		k.w.Stat(statUDPSpurious)
	}
}

func (k *Kernel) recvfrom(f *file, p []byte) (int, *Dgram, syscall.Errno) {
	u := f.udp
	if u.pendingErr != 0 {
		// the socket error is reported before anything is dequeued, once
		e := u.pendingErr
		u.pendingErr = 0
		return -1, nil, e
	}
	if len(u.queue) == 0 {
		u.spurious = false
		return -1, nil, syscall.EAGAIN
	}
	d := u.queue[0]
	u.queue = u.queue[1:]
	n := copy(p, d.Data)
	if n < len(d.Data) {
		k.w.Stat(statUDPTrunc)
	}
	k.UDPLog = append(k.UDPLog, UDPEvent{ID: d.ID, Gen: f.gen, Action: "received"})
	return n, &d, 0
}

func (k *Kernel) Recvfrom(fd int, p []byte) (int, [4]byte, int, syscall.Errno) {
	w := k.w
	w.Yield("recvfrom")
	var zero [4]byte
	if e := w.inject(CkRecvfrom); e != 0 {
		return -1, zero, 0, e
	}
	f := k.get(fd)
	if f == nil {
		w.Stat(statBadFd)
		return -1, zero, 0, syscall.EBADF
	}
	if f.kind == fkTCP {
		n, e := f.tcp.read(p)
		return n, f.tcp.rip, f.tcp.rport, e
	}
	if f.kind != fkUDP {
		return -1, zero, 0, syscall.ENOTSOCK
	}
	for {
		n, d, e := k.recvfrom(f, p)
		if e == syscall.EAGAIN && !f.nonblock {
			w.Block("recvfrom(blocking)", func() bool { return f.closed || len(f.udp.queue) > 0 }, -1)
			if f.closed {
				return -1, zero, 0, syscall.EBADF
			}
			continue
		}
		if e != 0 {
			w.Stat(statEagainR)
			return -1, zero, 0, e
		}
		w.Tracef("recvfrom %d -> %d id=%d", fd, n, d.ID)
		return n, d.SrcIP, d.SrcPort, 0
	}
}

func (k *Kernel) sendto(f *file, p []byte, ip [4]byte, port int) syscall.Errno {
	w := k.w
	u := f.udp
	if u.sendBlocked {
		return syscall.EAGAIN
	}
	if w.Fault(FSendEagain) {
		u.sendBlocked = true
		w.After(int64(w.Pick(0, 1_000, 1_000_000)), "udp-send-unblock", func() { u.sendBlocked = false })
		if w.Choose(2) == 1 {
			return syscall.ENOBUFS
		}
		return syscall.EAGAIN
	}
	if len(p) > 65507 {
		return syscall.EMSGSIZE
	}
	if u.pendingErr != 0 {
		e := u.pendingErr
		u.pendingErr = 0
		return e
	}
	if !u.bound {
		k.nextPort++
		u.bound, u.port = true, k.nextPort
		f.so.bound, f.so.port = true, u.port
	}
	if ip == ([4]byte{}) {
		ip = [4]byte{127, 0, 0, 1} // ip_route_output: a zero destination means this host
	}
	d := Dgram{Data: append([]byte(nil), p...), DstIP: ip, DstPort: port, SrcPort: u.port, sender: u}
	var out *Iface
	if isMulticast(ip) {
		if u.mcastIf != ([4]byte{}) {
			out = k.ifaceByIP(u.mcastIf)
		} else if u.ip != ([4]byte{}) && !isMulticast(u.ip) {
			out = k.ifaceByIP(u.ip)
		}
		if out == nil {
			out = k.defaultMcastIface()
		}
	} else if ip[0] == 127 {
		out = k.ifaceByName("lo")
	} else if it := k.ifaceByIP(ip); it != nil {
		out = k.ifaceByName("lo")
	} else {
		out = k.defaultMcastIface()
	}
	if out == nil {
		return syscall.ENETUNREACH
	}
	d.IfIndex = out.Index
	d.SrcIP = u.ip
	if d.SrcIP == ([4]byte{}) || isMulticast(d.SrcIP) {
		d.SrcIP = out.IP
	}
	u.Sent = append(u.Sent, d)
	k.SentLog = append(k.SentLog, d)
	w.Tracef("sendto fd=%d -> %v:%d len=%d via %s", f.fd, ip, port, len(p), out.Name)
	// local delivery
	if isMulticast(ip) {
		// IP_MULTICAST_LOOP governs the copy ip_mc_output makes; on the loopback device the
		// transmitted frame itself comes back (exactly once), whatever the option says
		if u.mcastLoop != 0 || out.Loopback {
			loop := d
			w.After(0, "udp-loop", func() { k.arrive(loop) })
		}
	} else if k.isLocalIP(ip) && ip != ([4]byte{}) {
		loc := d
		w.After(0, "udp-local", func() { k.arrive(loc) })
	}
	return 0
}

func (k *Kernel) Sendto(fd int, p []byte, ip [4]byte, port int) syscall.Errno {
	w := k.w
	w.Yield("sendto")
	if e := w.inject(CkSendto); e != 0 {
		return e
	}
	f := k.get(fd)
	if f == nil {
		w.Stat(statBadFd)
		return syscall.EBADF
	}
	if f.kind == fkTCP {
		_, e := f.tcp.write(p)
		return e
	}
	if f.kind != fkUDP {
		return syscall.ENOTSOCK
	}
	e := k.sendto(f, p, ip, port)
	if e == syscall.EAGAIN || e == syscall.ENOBUFS {
		w.Stat(statEagainW)
	}
	return e
}

// UDPErrorPending: an asynchronous socket error is waiting to be reported.
func (k *Kernel) UDPErrorPending(fd int) bool {
	if f := k.get(fd); f != nil && f.kind == fkUDP {
		return f.udp.pendingErr != 0
	}
	return false
}

// UDPQueued returns the number of datagrams waiting at the socket.
func (k *Kernel) UDPQueued(fd int) int {
	if f := k.get(fd); f != nil && f.kind == fkUDP {
		return len(f.udp.queue)
	}
	return 0
}

// UDPSent returns what the socket emitted so far.
func (k *Kernel) UDPSent(fd int) []Dgram {
	if f := k.get(fd); f != nil && f.kind == fkUDP {
		return f.udp.Sent
	}
	return nil
}

// UDPMembers renders the socket's memberships (oracle / debugging).
func (k *Kernel) UDPMembers(fd int) int {
	if f := k.get(fd); f != nil && f.kind == fkUDP {
		return len(f.udp.members)
	}
	return 0
}
