// Package sim is the deterministic simulator: a virtual clock, an event heap,
// a choice tape, cooperative tasks and (in the other files of this package) a
// stub Linux kernel that the rewritten sonic sources call instead of the real
// one. One World is one simulated run; exactly one goroutine executes inside a
// World at any instant and every nondeterministic decision is drawn from the
// tape, so a run is a pure function of (code, tape).
//
// Discipline kept throughout this package because the same code is linked into
// the race-detector build (DESIGN.md §3.4): no Go maps, channels, mutexes or
// atomics on any path that more than one task can execute.
package sim

import (
	"fmt"
	"runtime"
	"sort"
	"strings"
)

// ---------------------------------------------------------------------------
// statistics (fault kinds that fired, probes that were reached)

type StatID int

var statNames []string

// RegStat registers a named counter. Must be called from package init or from
// package-level var initialisers only.
func RegStat(name string) StatID {
	for i, n := range statNames {
		if n == name {
			return StatID(i)
		}
	}
	statNames = append(statNames, name)
	return StatID(len(statNames) - 1)
}

func StatNames() []string { return statNames }

// ---------------------------------------------------------------------------
// PRNG (splitmix64): used for the tape in generate mode and, as a separate
// stream, for data bytes (crypto/rand shim, payload generators).

type prng struct{ s uint64 }

func (p *prng) next() uint64 {
	p.s += 0x9e3779b97f4a7c15
	z := p.s
	z = (z ^ (z >> 30)) * 0xbf58476d1ce4e5b9
	z = (z ^ (z >> 27)) * 0x94d049bb133111eb
	return z ^ (z >> 31)
}

func (p *prng) intn(n int) int {
	if n <= 1 {
		return 0
	}
	return int(p.next() % uint64(n))
}

// ---------------------------------------------------------------------------

type event struct {
	at   int64
	seq  uint64
	name string
	fn   func()
}

type evHeap []event

func (h evHeap) less(i, j int) bool {
	if h[i].at != h[j].at {
		return h[i].at < h[j].at
	}
	return h[i].seq < h[j].seq
}
func (h *evHeap) push(e event) {
	*h = append(*h, e)
	i := len(*h) - 1
	for i > 0 {
		p := (i - 1) / 2
		if !h.less(i, p) {
			break
		}
		(*h)[i], (*h)[p] = (*h)[p], (*h)[i]
		i = p
	}
}
func (h *evHeap) pop() event {
	old := *h
	top := old[0]
	n := len(old) - 1
	old[0] = old[n]
	old[n] = event{}
	*h = old[:n]
	i := 0
	for {
		l, r, m := 2*i+1, 2*i+2, i
		if l < n && h.less(l, m) {
			m = l
		}
		if r < n && h.less(r, m) {
			m = r
		}
		if m == i {
			break
		}
		(*h)[i], (*h)[m] = (*h)[m], (*h)[i]
		i = m
	}
	return top
}

// ---------------------------------------------------------------------------

// BlockedForever is the panic value with which the main task is unwound when
// the world is quiescent (no runnable task, no event, no deadline) while it is
// still blocked. Scenarios recover it; whether it is a violation is the
// property's business.
type BlockedForever struct {
	Where string
	Tasks []string // where every blocked task sits
}

func (b BlockedForever) Error() string {
	return "blocked forever in " + b.Where + " [" + strings.Join(b.Tasks, "; ") + "]"
}

// HarnessBug is the panic value for internal assertions of the simulator or a
// scenario. It is reported as INCONCLUSIVE (exit 2), never as a violation.
type HarnessBug struct{ Msg string }

func (h HarnessBug) Error() string { return "harness bug: " + h.Msg }

func Bug(format string, a ...any) { panic(HarnessBug{fmt.Sprintf(format, a...)}) }

// ---------------------------------------------------------------------------

type World struct {
	Seed uint64

	// choice tape
	tape    []uint32 // effective choices of this run (recorded in both modes)
	replay  []uint32 // when non-nil: choices to replay
	rpos    int
	isRepl  bool
	gen     prng
	dataRng prng

	Now   int64 // virtual nanoseconds
	evq   evHeap
	evSeq uint64
	Steps int // events executed + task switches; bounded by MaxSteps
	// MaxSteps bounds a run; exceeding it is a harness bug (runaway), not a violation.
	MaxSteps int

	stats []int

	// faults
	faultOn   []bool // per fault kind, drawn per run (swarm)
	faultDen  []int  // 1-in-N rate per kind
	callCount []int  // per call kind
	failAt    []int  // per call kind: fail the n-th call (1-based), 0 = never
	failErrno []uintptr

	// trace
	TraceOn   bool
	trace     []string
	traceHash uint64
	traceN    int

	// tasks
	tasks      []*Task
	cur        *Task
	multi      bool
	// KernelCalls counts entries into the stub kernel (every entry point
	// yields first); oracles use it as a progress measure.
	KernelCalls int
	Deadlocked  bool
	Deadlocks   int
	dead       bool
	TaskPanics []any

	K *Kernel

	// per-run tuning knobs (0 = default)
	TCPRcvCap        int
	TCPSndCap        int
	ActorRcvCap      int
	ListenBacklogCap int
	UDPQueueCap      int
}

var cur *World

// Cur returns the world the shims dispatch to.
func Cur() *World { return cur }

// NewWorld creates a world and makes it current. If replay is non-nil the run
// replays that tape, otherwise choices are generated from seed.
func NewWorld(seed uint64, replay []uint32) *World {
	w := &World{Seed: seed, MaxSteps: 6_000_000}
	w.gen.s = seed*0x9e3779b97f4a7c15 + 0x1234567
	w.dataRng.s = seed ^ 0xdeadbeefcafef00d
	if replay != nil {
		w.replay = replay
		w.isRepl = true
	}
	w.stats = make([]int, len(statNames))
	w.faultOn = make([]bool, len(faultNames))
	w.faultDen = make([]int, len(faultNames))
	w.callCount = make([]int, numCallKinds)
	w.failAt = make([]int, numCallKinds)
	w.failErrno = make([]uintptr, numCallKinds)
	w.traceHash = 14695981039346656037
	w.K = newKernel(w)
	main := &Task{id: 0, name: "main", state: tsRunning}
	w.tasks = []*Task{main}
	w.cur = main
	cur = w
	return w
}

// Close tears the world down: parked tasks are released and exit.
func (w *World) Close() {
	w.dead = true
	for _, t := range w.tasks[1:] {
		if t.state != tsDone && t.started {
			t.unpark()
		}
	}
	for _, t := range w.tasks[1:] {
		if t.started {
			t.waitExit()
			t.closePipes()
		}
	}
	if m := w.tasks[0]; m.started {
		m.closePipes()
	}
	w.K.closeAllReal()
	if cur == w {
		cur = nil
	}
}

func (w *World) Dead() bool { return w.dead }

// ---------------------------------------------------------------------------
// tape

// Choose draws an integer in [0,n). Convention: 0 is the benign choice.
func (w *World) Choose(n int) int {
	if n <= 1 {
		return 0
	}
	var v int
	if w.isRepl {
		if w.rpos < len(w.replay) {
			v = int(w.replay[w.rpos] % uint32(n))
		}
		w.rpos++
	} else {
		v = w.gen.intn(n)
	}
	w.tape = append(w.tape, uint32(v))
	return v
}

// Chance is true with probability num/den; the benign outcome (false) is 0.
func (w *World) Chance(num, den int) bool {
	if num <= 0 {
		return false
	}
	return w.Choose(den) >= den-num
}

// Range draws an integer in [lo,hi]; lo is the benign end.
func (w *World) Range(lo, hi int) int {
	if hi <= lo {
		return lo
	}
	return lo + w.Choose(hi-lo+1)
}

// Pick draws one of the given values; the first is the benign one.
func (w *World) Pick(vals ...int) int { return vals[w.Choose(len(vals))] }

// Pick2 draws one of the given strings; the first is the benign one.
func (w *World) Pick2(vals ...string) string { return vals[w.Choose(len(vals))] }

func (w *World) Tape() []uint32 { return w.tape }

// DataByte / DataBytes come from a PRNG stream that depends on the seed only
// (not on the tape), so payload contents and masking keys stay the same while
// a tape is being minimised.
func (w *World) DataU64() uint64 { return w.dataRng.next() }
func (w *World) DataBytes(p []byte) {
	for i := 0; i < len(p); {
		v := w.dataRng.next()
		for j := 0; j < 8 && i < len(p); j++ {
			p[i] = byte(v)
			v >>= 8
			i++
		}
	}
}

// ---------------------------------------------------------------------------
// stats and trace

var statMutexContended = RegStat("probe:mutex-contended")

func (w *World) StatMutexContended() { w.stats[statMutexContended]++ }

func (w *World) Stat(id StatID)            { w.stats[id]++ }
func (w *World) StatAdd(id StatID, n int)  { w.stats[id] += n }
func (w *World) StatValue(id StatID) int   { return w.stats[id] }
func (w *World) StatsSnapshot() []int      { return append([]int(nil), w.stats...) }
func (w *World) TraceHash() uint64         { return w.traceHash }
func (w *World) TraceLines() []string      { return w.trace }
func (w *World) TraceCount() int           { return w.traceN }

// Tracef appends a line to the run's trace. The hash covers every line; the
// text itself is only kept when TraceOn (replay, samples). Tracing never draws
// from the tape and never reads a real clock.
func (w *World) Tracef(format string, a ...any) {
	w.traceN++
	if w.TraceOn && len(w.trace) < 4000 {
		w.trace = append(w.trace, fmt.Sprintf("t=%d ", w.Now)+fmt.Sprintf(format, a...))
	}
	// the hash is computed the same way whether or not the text is kept
	w.hashStr(format)
	w.hashU64(uint64(w.Now))
	for _, x := range a {
		switch v := x.(type) {
		case int:
			w.hashU64(uint64(v))
		case int64:
			w.hashU64(uint64(v))
		case uint32:
			w.hashU64(uint64(v))
		case uint64:
			w.hashU64(v)
		case bool:
			if v {
				w.hashU64(1)
			} else {
				w.hashU64(0)
			}
		case string:
			w.hashStr(v)
		case error:
			if v != nil {
				w.hashStr(v.Error())
			}
		default:
			w.hashStr(fmt.Sprint(v))
		}
	}
}

func (w *World) hashStr(s string) {
	h := w.traceHash
	for i := 0; i < len(s); i++ {
		h ^= uint64(s[i])
		h *= 1099511628211
	}
	w.traceHash = h
}
func (w *World) hashU64(v uint64) {
	h := w.traceHash
	for i := 0; i < 8; i++ {
		h ^= v & 0xff
		h *= 1099511628211
		v >>= 8
	}
	w.traceHash = h
}

// ---------------------------------------------------------------------------
// events and time

// After schedules fn to run d virtual nanoseconds from now.
func (w *World) After(d int64, name string, fn func()) {
	if d < 0 {
		d = 0
	}
	w.evSeq++
	w.evq.push(event{at: w.Now + d, seq: w.evSeq, name: name, fn: fn})
}

func (w *World) runEvent() {
	e := w.evq.pop()
	if e.at > w.Now {
		w.Now = e.at
	}
	w.step()
	e.fn()
}

func (w *World) step() {
	w.Steps++
	if w.Steps > w.MaxSteps {
		Bug("run exceeded %d steps", w.MaxSteps)
	}
}

// RunDue executes every event due at or before the current instant (including
// those the events themselves schedule for the same instant).
func (w *World) RunDue() {
	for len(w.evq) > 0 && w.evq[0].at <= w.Now {
		w.runEvent()
	}
}

// Advance moves virtual time forward by d, executing the events on the way.
// Only the main task of a single-task world may call it (a driver step).
func (w *World) Advance(d int64) {
	end := w.Now + d
	for len(w.evq) > 0 && w.evq[0].at <= end {
		w.runEvent()
	}
	if end > w.Now {
		w.Now = end
	}
}

// NextEventAt returns the time of the earliest pending event, or -1.
func (w *World) NextEventAt() int64 {
	if len(w.evq) == 0 {
		return -1
	}
	return w.evq[0].at
}

// Drain runs events (advancing time) until none is left or limit virtual ns
// have elapsed.
func (w *World) Drain(limit int64) {
	end := w.Now + limit
	for len(w.evq) > 0 && w.evq[0].at <= end {
		w.runEvent()
	}
}

func (w *World) PendingEvents() int { return len(w.evq) }

// ---------------------------------------------------------------------------
// tasks

type taskState int

const (
	tsReady taskState = iota
	tsRunning
	tsBlocked
	tsDone
)

type Task struct {
	id       int
	name     string
	state    taskState
	cond     func() bool
	deadline int64 // <0: none
	where    string
	fn       func()
	started  bool
	pipe     [2]int
	exitPipe [2]int
}

func (t *Task) ID() int      { return t.id }
func (t *Task) Name() string { return t.name }

// CurTask returns the running task.
func (w *World) CurTask() *Task { return w.cur }
func (w *World) IsMainTask() bool {
	return w.cur.id == 0
}

// Go starts a new task. It becomes runnable; the creator keeps running.
func (w *World) Go(name string, fn func()) *Task {
	t := &Task{id: len(w.tasks), name: name, state: tsReady, fn: fn, deadline: -1}
	t.openPipes()
	if m := w.tasks[0]; m.pipe == [2]int{} {
		m.openPipes()
		m.started = true
	}
	w.tasks = append(w.tasks, t)
	w.multi = true
	t.started = true
	go func() {
		defer t.signalExit()
		t.park()
		if !w.dead {
			func() {
				defer func() {
					if r := recover(); r != nil {
						if w.dead {
							return
						}
						w.TaskPanics = append(w.TaskPanics, fmt.Sprintf("task %s: %v\n%s", t.name, r, shortStack()))
					}
				}()
				t.fn()
			}()
		}
		t.state = tsDone
		if !w.dead {
			w.scheduleExit()
		}
	}()
	w.Tracef("task-start %s", name)
	return t
}

func shortStack() string {
	buf := make([]byte, 4096)
	n := runtime.Stack(buf, false)
	return string(buf[:n])
}

// LiveTasks returns the number of tasks other than main that have not finished.
func (w *World) LiveTasks() int {
	n := 0
	for _, t := range w.tasks[1:] {
		if t.state != tsDone {
			n++
		}
	}
	return n
}

// BlockedTasks describes every blocked task.
func (w *World) BlockedTasks() []string {
	var out []string
	for _, t := range w.tasks {
		if t.state == tsBlocked {
			out = append(out, t.name+"@"+t.where)
		}
	}
	return out
}

// Yield is a scheduling point: in a multi-task world the tape decides which
// runnable task continues. No-op (and no draw) in a single-task world.
func (w *World) Yield(where string) {
	w.KernelCalls++
	if w.KernelCalls > 30_000_000 {
		Bug("run exceeded 30M kernel calls (runaway)")
	}
	if !w.multi || w.dead {
		return
	}
	t := w.cur
	t.state = tsReady
	t.where = where
	w.schedule()
}

// Block parks the running task until cond() holds or the virtual deadline
// (absolute ns, <0 = none) passes. Returns false on time-out.
func (w *World) Block(where string, cond func() bool, deadline int64) bool {
	t := w.cur
	for {
		if w.dead {
			runtime.Goexit()
		}
		if cond() {
			return true
		}
		if deadline >= 0 && w.Now >= deadline {
			return false
		}
		t.state = tsBlocked
		t.cond = cond
		t.deadline = deadline
		t.where = where
		w.schedule()
		if w.Deadlocked && t.id == 0 && !cond() {
			bf := BlockedForever{Where: where, Tasks: w.BlockedTasks()}
			t.state = tsRunning
			w.Deadlocked = false
			w.Deadlocks++
			panic(bf)
		}
	}
}

// Join blocks the main task until every other task has finished.
func (w *World) Join() {
	w.Block("join", func() bool { return w.LiveTasks() == 0 }, -1)
}

func (t *Task) runnable(w *World) bool {
	switch t.state {
	case tsReady, tsRunning:
		return true
	case tsBlocked:
		if t.cond != nil && t.cond() {
			return true
		}
		return t.deadline >= 0 && w.Now >= t.deadline
	}
	return false
}

// schedule is executed by the goroutine that gives up the processor; it
// returns when that goroutine's task has been chosen to run again.
func (w *World) schedule() {
	self := w.cur
	for {
		w.step()
		var cands [16]*Task
		n := 0
		for _, t := range w.tasks {
			if n < len(cands) && t.runnable(w) {
				cands[n] = t
				n++
			}
		}
		evDue := len(w.evq) > 0 && w.evq[0].at <= w.Now
		opts := n
		if evDue {
			opts++
		}
		if opts == 0 {
			// nothing can run now: jump the clock
			next := int64(-1)
			if len(w.evq) > 0 {
				next = w.evq[0].at
			}
			for _, t := range w.tasks {
				if t.state == tsBlocked && t.deadline >= 0 && (next < 0 || t.deadline < next) {
					next = t.deadline
				}
			}
			if next >= 0 {
				if next > w.Now {
					w.Now = next
				}
				continue
			}
			// quiescent with every task blocked
			w.Deadlocked = true
			w.Tracef("deadlock")
			main := w.tasks[0]
			if self == main {
				return
			}
			if main.state == tsDone {
				// main already returned: nothing can release us; stay parked
				// until teardown.
				self.park()
				if w.dead {
					runtime.Goexit()
				}
				return
			}
			w.switchTo(main)
			if self.state == tsRunning {
				return
			}
			continue
		}
		pick := 0
		if w.multi {
			pick = w.Choose(opts)
		}
		// single task: if its wake condition already holds it runs (pick 0 is
		// the task); remaining same-instant events are run by RunDue/Advance.
		if pick == n { // the event
			w.runEvent()
			continue
		}
		t := cands[pick]
		if t == self {
			self.state = tsRunning
			return
		}
		w.switchTo(t)
		if self.state == tsRunning {
			return
		}
	}
}

// scheduleExit hands the processor to another task when the running task's
// function has returned.
func (w *World) scheduleExit() {
	for {
		w.step()
		var cands [16]*Task
		n := 0
		for _, t := range w.tasks {
			if n < len(cands) && t.state != tsDone && t.runnable(w) {
				cands[n] = t
				n++
			}
		}
		evDue := len(w.evq) > 0 && w.evq[0].at <= w.Now
		opts := n
		if evDue {
			opts++
		}
		if opts == 0 {
			next := int64(-1)
			if len(w.evq) > 0 {
				next = w.evq[0].at
			}
			for _, t := range w.tasks {
				if t.state == tsBlocked && t.deadline >= 0 && (next < 0 || t.deadline < next) {
					next = t.deadline
				}
			}
			if next >= 0 {
				if next > w.Now {
					w.Now = next
				}
				continue
			}
			w.Deadlocked = true
			w.Tracef("deadlock")
			main := w.tasks[0]
			if main.state != tsDone {
				w.cur = main
				main.state = tsRunning
				main.unpark()
			}
			return
		}
		pick := w.Choose(opts)
		if pick == n {
			w.runEvent()
			continue
		}
		t := cands[pick]
		w.cur = t
		t.state = tsRunning
		t.unpark()
		return
	}
}

func (w *World) switchTo(t *Task) {
	prev := w.cur
	w.cur = t
	t.state = tsRunning
	w.Tracef("switch %s", t.name)
	t.unpark()
	prev.park()
	if w.dead && prev.id != 0 {
		runtime.Goexit()
	}
}

// SortedStatLines renders non-zero counters (for evidence and debugging).
func (w *World) SortedStatLines() []string {
	var out []string
	for i, v := range w.stats {
		if v != 0 {
			out = append(out, fmt.Sprintf("%s=%d", statNames[i], v))
		}
	}
	sort.Strings(out)
	return out
}
