package sim

import (
	"fmt"
	"syscall"
)

// ---------------------------------------------------------------------------
// fault plumbing

// CallKind names a kernel entry point for "fail the n-th call" injection.
type CallKind int

const (
	CkFdAlloc CallKind = iota // any descriptor allocation (EMFILE)
	CkSocket
	CkBind
	CkListen
	CkConnect
	CkAccept
	CkSetsockopt
	CkGetsockopt
	CkGetsockname
	CkEpollCreate
	CkEpollCtl
	CkEpollWait
	CkEventfd
	CkTimerfdCreate
	CkTimerfdSettime
	CkSetNonblock
	CkOpen
	CkPipe
	CkMmap
	CkFtruncate
	CkCreateTemp
	CkRead
	CkWrite
	CkSendto
	CkRecvfrom
	CkSelect
	CkClose
	CkDial // Go-level net.DialTimeout
	numCallKinds
)

var callKindNames = [...]string{"fdalloc", "socket", "bind", "listen", "connect", "accept", "setsockopt", "getsockopt",
	"getsockname", "epoll_create", "epoll_ctl", "epoll_wait", "eventfd", "timerfd_create", "timerfd_settime",
	"setnonblock", "open", "pipe", "mmap", "ftruncate", "createtemp", "read", "write", "sendto", "recvfrom", "select", "close", "dial"}

func (c CallKind) String() string { return callKindNames[c] }

var statInjected = RegStat("fault:injected-call-failure")

// FailNth makes the n-th (1-based) call of the given kind from now on fail
// with errno. n<=0 clears.
func (w *World) FailNth(kind CallKind, n int, errno syscall.Errno) {
	if n <= 0 {
		w.failAt[kind] = 0
		return
	}
	w.failAt[kind] = w.callCount[kind] + n
	w.failErrno[kind] = uintptr(errno)
}

// CallCount returns how many calls of that kind were made so far.
func (w *World) CallCount(kind CallKind) int { return w.callCount[kind] }

// InjectCall is inject for shims that forward to the real kernel (mmap,
// ftruncate, CreateTemp).
func (w *World) InjectCall(kind CallKind) syscall.Errno { return w.inject(kind) }

func (w *World) inject(kind CallKind) syscall.Errno {
	w.callCount[kind]++
	if w.failAt[kind] != 0 && w.callCount[kind] == w.failAt[kind] {
		w.failAt[kind] = 0
		w.Stat(statInjected)
		w.Tracef("inject %s errno=%d", kind.String(), int(w.failErrno[kind]))
		return syscall.Errno(w.failErrno[kind])
	}
	return 0
}

// Probabilistic fault kinds, enabled per run (swarm) by EnableFaults.
type FaultKind int

var faultNames []string
var faultStats []StatID

func RegFault(name string) FaultKind {
	faultNames = append(faultNames, name)
	faultStats = append(faultStats, RegStat("fault:"+name))
	return FaultKind(len(faultNames) - 1)
}

var (
	FEpollPermute  = RegFault("epoll-batch-permuted")
	FEpollTruncate = RegFault("epoll-batch-truncated")
	FEintr         = RegFault("eintr")
	FSpuriousUDP   = RegFault("spurious-readable-udp")
	FSegment       = RegFault("tcp-segmented-delivery")
	FDelay         = RegFault("delivery-delayed")
	FShortRead     = RegFault("short-read")
	FShortWrite    = RegFault("short-write")
	FDgramLoss     = RegFault("dgram-loss")
	FDgramDup      = RegFault("dgram-dup")
	FDgramReorder  = RegFault("dgram-reorder")
	FPoolEmpty     = RegFault("pool-emptied")
	FSendEagain    = RegFault("udp-send-eagain")
)

// EnableFaults draws, for each listed kind, whether it is active in this run
// and at which rate (1-in-den). A kind that is not enabled never draws.
func (w *World) EnableFaults(kinds ...FaultKind) {
	for _, k := range kinds {
		if w.Choose(2) == 1 {
			w.faultOn[k] = true
			w.faultDen[k] = w.Pick(8, 2, 3, 5, 16, 40)
		}
	}
}

// ForceFault switches a kind on at the given 1-in-den rate (directed runs).
func (w *World) ForceFault(k FaultKind, den int) {
	w.faultOn[k] = true
	w.faultDen[k] = den
}

func (w *World) FaultEnabled(k FaultKind) bool { return w.faultOn[k] }

// StopFaults switches every probabilistic fault off (quiescence phase).
func (w *World) StopFaults() {
	for i := range w.faultOn {
		w.faultOn[i] = false
	}
}

// Fault reports whether fault k fires now. Counts only when it fires.
func (w *World) Fault(k FaultKind) bool {
	if !w.faultOn[k] {
		return false
	}
	if w.Chance(1, w.faultDen[k]) {
		w.Stat(faultStats[k])
		return true
	}
	return false
}

// ---------------------------------------------------------------------------
// descriptor table

type fkind int

const (
	fkEpoll fkind = iota
	fkEventfd
	fkTimerfd
	fkPipeR
	fkPipeW
	fkRegular
	fkTCP
	fkListener
	fkUDP
	fkSockNew // socket() result not yet bound/connected/listening (stream)
)

var fkindNames = [...]string{"epoll", "eventfd", "timerfd", "pipe-r", "pipe-w", "regular", "tcp", "listener", "udp", "sock-new"}

type file struct {
	kind     fkind
	gen      int // unique per open file description
	fd       int
	nonblock bool
	closed   bool

	ep  *epollFile
	ev  *eventFile
	tm  *timerFile
	pe  *pipeBuf
	rf  *regFile
	roff int64
	tcp *tcpEnd
	lis *listener
	udp *udpSock
	so  sockOpts

	// epoll instances watching this description
	watchers []*epollFile
}

type Kernel struct {
	w       *World
	fds     []*file // indexed by descriptor number
	FdBase  int     // lowest number handed out
	FdLimit int     // soft limit on open descriptors (EMFILE)
	nextGen int
	nOpen   int

	// Foreign-close detection (C13): every close of a number records the
	// generation closed; scenarios compare with what they handed out.
	CloseLog []CloseRec

	vfs      []*vnode
	lports   []*listener // listening sockets and actor listeners
	udps     []*udpSock
	ifaces   []Iface
	nextPort int
	pairs    []*tcpEnd

	realFds []int
	synInFlight int

	UDPLog  []UDPEvent
	SentLog []Dgram
}

type CloseRec struct {
	Fd   int
	Gen  int
	Kind string
	Err  syscall.Errno
}

var (
	statEMFILE = RegStat("fault:emfile")
	statBadFd  = RegStat("probe:ebadf-returned")
)

func newKernel(w *World) *Kernel {
	k := &Kernel{w: w, FdBase: 3, FdLimit: 1 << 20, nextPort: 40000}
	k.ifaces = defaultIfaces()
	return k
}

func (k *Kernel) closeAllReal() {
	for _, fd := range k.realFds {
		syscall.Close(fd)
	}
	k.realFds = nil
}

func (k *Kernel) get(fd int) *file {
	if fd < 0 || fd >= len(k.fds) {
		return nil
	}
	return k.fds[fd]
}

func (k *Kernel) alloc(kind fkind) (*file, syscall.Errno) {
	if e := k.w.inject(CkFdAlloc); e != 0 {
		if e == syscall.EMFILE {
			k.w.Stat(statEMFILE)
		}
		return nil, e
	}
	if k.nOpen >= k.FdLimit {
		k.w.Stat(statEMFILE)
		return nil, syscall.EMFILE
	}
	fd := k.FdBase
	for fd < len(k.fds) && k.fds[fd] != nil {
		fd++
	}
	for len(k.fds) <= fd {
		k.fds = append(k.fds, nil)
	}
	k.nextGen++
	f := &file{kind: kind, gen: k.nextGen, fd: fd}
	k.fds[fd] = f
	k.nOpen++
	k.w.Tracef("fd-alloc %d %s gen=%d", fd, fkindNames[kind], f.gen)
	return f, 0
}

// Census returns the open descriptors as "fd:kind:gen" in numeric order.
func (k *Kernel) Census() []string {
	var out []string
	for fd, f := range k.fds {
		if f != nil {
			out = append(out, fmt.Sprintf("%d:%s:%d", fd, fkindNames[f.kind], f.gen))
		}
	}
	return out
}

func (k *Kernel) OpenCount() int { return k.nOpen }

// GenOf returns the generation of the description currently open at fd (0 if none).
func (k *Kernel) GenOf(fd int) int {
	if f := k.get(fd); f != nil {
		return f.gen
	}
	return 0
}

// KindOf returns the kind name of the description at fd ("" if none).
func (k *Kernel) KindOf(fd int) string {
	if f := k.get(fd); f != nil {
		return fkindNames[f.kind]
	}
	return ""
}

func (k *Kernel) Close(fd int) syscall.Errno {
	w := k.w
	w.Yield("close")
	if e := w.inject(CkClose); e != 0 {
		return e
	}
	f := k.get(fd)
	if f == nil {
		w.Stat(statBadFd)
		k.CloseLog = append(k.CloseLog, CloseRec{Fd: fd, Err: syscall.EBADF})
		w.Tracef("close %d EBADF", fd)
		return syscall.EBADF
	}
	k.CloseLog = append(k.CloseLog, CloseRec{Fd: fd, Gen: f.gen, Kind: fkindNames[f.kind]})
	w.Tracef("close %d %s gen=%d", fd, fkindNames[f.kind], f.gen)
	k.fds[fd] = nil
	k.nOpen--
	f.closed = true
	// a closed description leaves every epoll interest list
	for _, ep := range f.watchers {
		ep.remove(f)
	}
	f.watchers = nil
	switch f.kind {
	case fkPipeR:
		f.pe.readerClosed()
	case fkPipeW:
		f.pe.writerClosed()
	case fkTCP:
		f.tcp.closeLocal()
	case fkSockNew:
	case fkListener:
		f.lis.close()
	case fkUDP:
		k.removeUDP(f.udp)
	case fkTimerfd:
		f.tm.armedSeq++ // cancels the expiry event
	}
	return 0
}

func (k *Kernel) SetNonblock(fd int, nb bool) syscall.Errno {
	k.w.Yield("setnonblock")
	if e := k.w.inject(CkSetNonblock); e != 0 {
		return e
	}
	f := k.get(fd)
	if f == nil {
		return syscall.EBADF
	}
	f.nonblock = nb
	return 0
}

func (k *Kernel) GetFlNonblock(fd int) (bool, syscall.Errno) {
	f := k.get(fd)
	if f == nil {
		return false, syscall.EBADF
	}
	return f.nonblock, 0
}

// mask computes the level-triggered readiness of a description.
func (k *Kernel) mask(f *file) uint32 {
	switch f.kind {
	case fkEventfd:
		var m uint32
		if f.ev.count > 0 {
			m |= syscall.EPOLLIN
		}
		if f.ev.count < ^uint64(0)-1 {
			m |= syscall.EPOLLOUT
		}
		return m
	case fkTimerfd:
		if f.tm.expirations > 0 {
			return syscall.EPOLLIN
		}
		return 0
	case fkPipeR:
		return f.pe.readMask()
	case fkPipeW:
		return f.pe.writeMask()
	case fkTCP:
		return f.tcp.mask()
	case fkSockNew:
		return syscall.EPOLLHUP | syscall.EPOLLOUT
	case fkListener:
		if len(f.lis.queue) > 0 {
			return syscall.EPOLLIN
		}
		return 0
	case fkUDP:
		m := uint32(syscall.EPOLLOUT)
		if f.udp.sendBlocked {
			m = 0
		}
		if len(f.udp.queue) > 0 || f.udp.spurious {
			m |= syscall.EPOLLIN
		}
		if f.udp.pendingErr != 0 {
			m |= syscall.EPOLLERR
		}
		return m
	}
	return 0
}

// ---------------------------------------------------------------------------
// generic read / write

var (
	statShortRead  = RegStat("probe:kernel-short-read")
	statShortWrite = RegStat("probe:kernel-short-write")
	statEagainR    = RegStat("probe:read-eagain")
	statEagainW    = RegStat("probe:write-eagain")
)

func (k *Kernel) Read(fd int, p []byte) (int, syscall.Errno) {
	w := k.w
	w.Yield("read")
	f := k.get(fd)
	if f == nil {
		w.Stat(statBadFd)
		return -1, syscall.EBADF
	}
	// injected I/O errors are for sockets, pipes and files; an eventfd or
	// timerfd read cannot fail that way
	if f.kind != fkEventfd && f.kind != fkTimerfd {
		if e := w.inject(CkRead); e != 0 {
			return -1, e
		}
	}
	for {
		n, e := k.read1(f, p)
		if e == syscall.EAGAIN {
			if f.nonblock {
				w.Stat(statEagainR)
				return -1, e
			}
			// blocking descriptor: park the task until readable
			w.Block("read(blocking)", func() bool { return f.closed || k.mask(f)&(syscall.EPOLLIN|syscall.EPOLLHUP|syscall.EPOLLERR) != 0 }, -1)
			if f.closed {
				return -1, syscall.EBADF
			}
			continue
		}
		w.Tracef("read %d -> %d errno=%d", fd, n, int(e))
		return n, e
	}
}

func (k *Kernel) read1(f *file, p []byte) (int, syscall.Errno) {
	switch f.kind {
	case fkEventfd:
		if len(p) < 8 {
			return -1, syscall.EINVAL
		}
		if f.ev.count == 0 {
			return -1, syscall.EAGAIN
		}
		putU64(p, f.ev.count)
		f.ev.count = 0
		return 8, 0
	case fkTimerfd:
		if len(p) < 8 {
			return -1, syscall.EINVAL
		}
		if f.tm.expirations == 0 {
			return -1, syscall.EAGAIN
		}
		putU64(p, f.tm.expirations)
		f.tm.expirations = 0
		return 8, 0
	case fkPipeR:
		return f.pe.read(k.w, p)
	case fkRegular:
		if f.roff >= int64(len(f.rf.data)) {
			return 0, 0
		}
		n := copy(p, f.rf.data[f.roff:])
		f.roff += int64(n)
		return n, 0
	case fkTCP:
		return f.tcp.read(p)
	case fkUDP:
		n, _, e := k.recvfrom(f, p)
		return n, e
	case fkSockNew:
		return -1, syscall.ENOTCONN
	case fkListener, fkEpoll:
		return -1, syscall.EINVAL
	case fkPipeW:
		return -1, syscall.EBADF
	}
	return -1, syscall.EINVAL
}

func (k *Kernel) Write(fd int, p []byte) (int, syscall.Errno) {
	w := k.w
	w.Yield("write")
	f := k.get(fd)
	if f == nil {
		w.Stat(statBadFd)
		return -1, syscall.EBADF
	}
	if f.kind != fkEventfd && f.kind != fkTimerfd {
		if e := w.inject(CkWrite); e != 0 {
			return -1, e
		}
	}
	for {
		n, e := k.write1(f, p)
		if e == syscall.EAGAIN {
			if f.nonblock {
				w.Stat(statEagainW)
				return -1, e
			}
			w.Block("write(blocking)", func() bool { return f.closed || k.mask(f)&(syscall.EPOLLOUT|syscall.EPOLLHUP|syscall.EPOLLERR) != 0 }, -1)
			if f.closed {
				return -1, syscall.EBADF
			}
			continue
		}
		w.Tracef("write %d len=%d -> %d errno=%d", fd, len(p), n, int(e))
		return n, e
	}
}

func (k *Kernel) write1(f *file, p []byte) (int, syscall.Errno) {
	switch f.kind {
	case fkEventfd:
		if len(p) < 8 {
			return -1, syscall.EINVAL
		}
		v := getU64(p)
		if v == ^uint64(0) {
			return -1, syscall.EINVAL
		}
		if ^uint64(0)-f.ev.count <= v { // the counter may hold at most 2^64-2
			return -1, syscall.EAGAIN
		}
		f.ev.count += v
		return 8, 0
	case fkPipeW:
		return f.pe.write(k.w, p)
	case fkRegular:
		end := f.roff + int64(len(p))
		for int64(len(f.rf.data)) < end {
			f.rf.data = append(f.rf.data, 0)
		}
		copy(f.rf.data[f.roff:], p)
		f.roff = end
		return len(p), 0
	case fkTCP:
		return f.tcp.write(p)
	case fkSockNew:
		return -1, syscall.EPIPE
	case fkUDP:
		if f.udp.connected {
			if e := k.sendto(f, p, f.udp.peerIP, f.udp.peerPort); e != 0 {
				return -1, e
			}
			return len(p), 0
		}
		return -1, syscall.EDESTADDRREQ
	case fkTimerfd, fkEpoll, fkListener:
		return -1, syscall.EINVAL
	case fkPipeR:
		return -1, syscall.EBADF
	}
	return -1, syscall.EINVAL
}

func (k *Kernel) Seek(fd int, off int64, whence int) (int64, syscall.Errno) {
	f := k.get(fd)
	if f == nil {
		return -1, syscall.EBADF
	}
	if f.kind != fkRegular {
		return -1, syscall.ESPIPE
	}
	var base int64
	switch whence {
	case 0:
	case 1:
		base = f.roff
	case 2:
		base = int64(len(f.rf.data))
	default:
		return -1, syscall.EINVAL
	}
	if base+off < 0 {
		return -1, syscall.EINVAL
	}
	f.roff = base + off
	return f.roff, 0
}

func putU64(p []byte, v uint64) {
	for i := 0; i < 8; i++ {
		p[i] = byte(v >> (8 * i))
	}
}
func getU64(p []byte) uint64 {
	var v uint64
	for i := 0; i < 8; i++ {
		v |= uint64(p[i]) << (8 * i)
	}
	return v
}
