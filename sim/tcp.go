package sim

import (
	"syscall"
)

// ---------------------------------------------------------------------------
// socket options store

type sockOpt struct {
	level, opt int
	val        int
	set        bool
}

type sockOpts struct {
	opts   []sockOpt
	device string
	// bind state
	bound bool
	ip    [4]byte
	port  int
	dgram bool
}

func (s *sockOpts) getInt(level, opt int) (int, bool) {
	for _, o := range s.opts {
		if o.level == level && o.opt == opt {
			return o.val, true
		}
	}
	return 0, false
}
func (s *sockOpts) setInt(level, opt, val int) {
	for i := range s.opts {
		if s.opts[i].level == level && s.opts[i].opt == opt {
			s.opts[i].val = val
			return
		}
	}
	s.opts = append(s.opts, sockOpt{level: level, opt: opt, val: val, set: true})
}

// ---------------------------------------------------------------------------

type ConnBehaviour int

const (
	ConnAccept      ConnBehaviour = iota // handshake completes after a delay
	ConnRefuse                           // RST to the SYN: ECONNREFUSED
	ConnBlackhole                        // SYN dropped: the connect times out
	ConnUnreachable                      // EHOSTUNREACH after a delay
	ConnNetUnreach                       // connect() itself fails with ENETUNREACH
)

type listener struct {
	k       *Kernel
	f       *file
	ip      [4]byte
	port    int
	backlog int
	queue   []*tcpEnd
	closed  bool
	// actor listener (remote server played by the harness)
	actor  bool
	Beh    ConnBehaviour
	OnConn func(e *TCPEnd)
}

func (l *listener) close() {
	l.closed = true
	// queued, not yet accepted connections are reset
	for _, e := range l.queue {
		e.abort()
	}
	l.queue = nil
	k := l.k
	for i, x := range k.lports {
		if x == l {
			k.lports = append(k.lports[:i], k.lports[i+1:]...)
			break
		}
	}
}

// TCPEnd is one endpoint of a simulated TCP connection. Endpoints owned by
// the harness (actors) are driven through the Actor* methods; endpoints owned
// by sonic are reached through descriptors.
type TCPEnd = tcpEnd

type tcpEnd struct {
	k    *Kernel
	peer *tcpEnd
	f    *file // nil for actor ends
	Name string

	rcv     []byte
	rcvCap  int
	finRcvd bool

	snd       []byte
	sndCap    int
	finQueued bool
	finSent   bool

	closedLocal bool
	dead        bool // reset
	errPending  syscall.Errno

	connecting bool
	connected  bool
	connErr    syscall.Errno // SO_ERROR after a failed connect
	failed     bool          // the connect failed: the socket is in CLOSE state with both directions shut down
	connInProg bool          // connect returned EINPROGRESS and no later connect call has collected the outcome yet
	rcvShut    bool          // shutdown(SHUT_RD)

	lip, rip     [4]byte
	lport, rport int

	deliverScheduled bool

	// independent accounting for oracles
	Accepted  int64 // bytes the local side's writes were accepted for
	Delivered int64 // bytes delivered into this end's receive queue
	Consumed  int64 // bytes the local side read out of the receive queue

	// OnData is invoked (from an event) after bytes, FIN or RST arrive at an
	// actor end.
	OnData func()
}

var (
	statTCPSeg     = RegStat("probe:tcp-delivery-split")
	statTCPStall   = RegStat("probe:tcp-receiver-window-full")
	statTCPRst     = RegStat("probe:tcp-rst-delivered")
	statTCPFin     = RegStat("probe:tcp-fin-delivered")
	statTCPSndFull = RegStat("probe:tcp-send-buffer-full")
	statConnRef    = RegStat("probe:connect-refused")
	statConnTmo    = RegStat("probe:connect-blackholed")
)

// DefaultSndCap / DefaultRcvCap apply to sockets created by sonic; scenarios
// draw them per run.
func (k *Kernel) newEnd(name string) *tcpEnd {
	return &tcpEnd{k: k, Name: name, rcvCap: k.w.cfgRcvCap(), sndCap: k.w.cfgSndCap()}
}

func (w *World) cfgRcvCap() int {
	if w.TCPRcvCap > 0 {
		return w.TCPRcvCap
	}
	return 1 << 20
}
func (w *World) cfgSndCap() int {
	if w.TCPSndCap > 0 {
		return w.TCPSndCap
	}
	return 1 << 20
}

func (e *tcpEnd) mask() uint32 {
	if e.connecting {
		return 0
	}
	if e.failed {
		// tcp_done: both directions shut down; the error stays reported until something collects it
		m := uint32(syscall.EPOLLIN | syscall.EPOLLOUT | syscall.EPOLLHUP | syscall.EPOLLRDHUP)
		if e.connErr != 0 {
			m |= syscall.EPOLLERR
		}
		return m
	}
	if e.dead {
		m := uint32(syscall.EPOLLIN | syscall.EPOLLOUT | syscall.EPOLLHUP | syscall.EPOLLRDHUP)
		if e.errPending != 0 {
			m |= syscall.EPOLLERR
		}
		return m
	}
	var m uint32
	if len(e.rcv) > 0 {
		m |= syscall.EPOLLIN
	}
	if e.finRcvd || e.rcvShut {
		m |= syscall.EPOLLIN | syscall.EPOLLRDHUP
	}
	// tcp_poll: a socket whose sending direction is shut down always polls writable
	if len(e.snd) < e.sndCap || e.finQueued {
		m |= syscall.EPOLLOUT
	}
	if e.finRcvd && e.finQueued {
		m |= syscall.EPOLLHUP
	}
	return m
}

func (e *tcpEnd) read(p []byte) (int, syscall.Errno) {
	w := e.k.w
	if e.connecting || (!e.connected && !e.failed) {
		return -1, syscall.ENOTCONN
	}
	if e.failed {
		if e.connErr != 0 {
			er := e.connErr
			e.connErr = 0
			return -1, er
		}
		return 0, 0
	}
	if len(p) == 0 {
		// tcp_recvmsg with a zero length: zero bytes were asked for and zero are "copied" - the loop
		// ends before it looks at FIN, errors or would-block
		return 0, 0
	}
	if len(e.rcv) > 0 {
		n := len(p)
		if n > len(e.rcv) {
			n = len(e.rcv)
		}
		if n > 1 && w.Fault(FShortRead) {
			n = 1 + w.Choose(n-1)
			w.Stat(statShortRead)
		}
		copy(p, e.rcv[:n])
		e.rcv = e.rcv[n:]
		e.Consumed += int64(n)
		if e.peer != nil {
			e.peer.kick()
		}
		return n, 0
	}
	if e.dead {
		// tcp_recvmsg: SOCK_DONE (a FIN was received) is tested before sk_err
		if !e.finRcvd && e.errPending != 0 {
			er := e.errPending
			e.errPending = 0
			return -1, er
		}
		return 0, 0
	}
	if e.finRcvd || e.rcvShut {
		return 0, 0
	}
	return -1, syscall.EAGAIN
}

func (e *tcpEnd) write(p []byte) (int, syscall.Errno) {
	w := e.k.w
	if e.connecting || (!e.connected && !e.failed) {
		return -1, syscall.ENOTCONN
	}
	if e.failed {
		// sk_stream_error: a pending socket error takes the place of EPIPE
		if e.connErr != 0 {
			er := e.connErr
			e.connErr = 0
			return -1, er
		}
		return -1, syscall.EPIPE
	}
	if e.dead {
		if e.errPending != 0 {
			er := e.errPending
			e.errPending = 0
			return -1, er
		}
		return -1, syscall.EPIPE
	}
	if e.finQueued {
		return -1, syscall.EPIPE
	}
	free := e.sndCap - len(e.snd)
	if free <= 0 {
		w.Stat(statTCPSndFull)
		return -1, syscall.EAGAIN
	}
	if len(p) == 0 {
		return 0, 0
	}
	n := len(p)
	if n > free {
		n = free
	}
	if n > 1 && w.Fault(FShortWrite) {
		n = 1 + w.Choose(n-1)
		w.Stat(statShortWrite)
	}
	e.snd = append(e.snd, p[:n]...)
	e.Accepted += int64(n)
	e.kick()
	return n, 0
}

func (e *tcpEnd) delay() int64 {
	w := e.k.w
	if w.Fault(FDelay) {
		return int64(w.Pick(1_000, 100_000, 10_000_000, 1_000_000_000))
	}
	return 0
}

// kick makes sure a delivery event is pending if there is something to move.
func (e *tcpEnd) kick() {
	if e.deliverScheduled || e.peer == nil || e.dead {
		return
	}
	if len(e.snd) == 0 && !(e.finQueued && !e.finSent) {
		return
	}
	e.deliverScheduled = true
	e.k.w.After(e.delay(), "tcp-deliver", e.deliver)
}

func (e *tcpEnd) deliver() {
	e.deliverScheduled = false
	w := e.k.w
	p := e.peer
	if e.dead || p == nil {
		return
	}
	if len(e.snd) > 0 {
		if p.closedLocal || p.dead {
			// data for a socket the peer application has closed: the peer's
			// kernel answers with RST.
			e.snd = nil
			if !p.dead {
				p.dead = true
			}
			e.rstArrive()
			return
		}
		space := p.rcvCap - len(p.rcv)
		if space <= 0 {
			w.Stat(statTCPStall)
			return // re-kicked when the peer reads
		}
		n := len(e.snd)
		if n > space {
			n = space
		}
		if n > 1 && w.Fault(FSegment) {
			n = 1 + w.Choose(n-1)
			w.Stat(statTCPSeg)
		}
		p.rcv = append(p.rcv, e.snd[:n]...)
		e.snd = e.snd[n:]
		p.Delivered += int64(n)
		w.Tracef("tcp %s -> %s %d bytes", e.Name, p.Name, n)
		if p.OnData != nil {
			p.OnData()
		}
	}
	if len(e.snd) == 0 && e.finQueued && !e.finSent {
		e.finSent = true
		if p.closedLocal {
			// both sides closed; nothing more to do
		} else {
			p.finRcvd = true
			w.Stat(statTCPFin)
			w.Tracef("tcp %s -> %s FIN", e.Name, p.Name)
			if p.OnData != nil {
				p.OnData()
			}
		}
		return
	}
	e.kick()
}

// rstArrive: this end learns that the connection was reset.
func (e *tcpEnd) rstArrive() {
	if e.dead {
		return
	}
	w := e.k.w
	e.dead = true
	e.snd = nil
	if e.finRcvd {
		e.errPending = syscall.EPIPE
	} else {
		e.errPending = syscall.ECONNRESET
	}
	// the receive queue survives a reset: what was delivered before it is still read first
	w.Stat(statTCPRst)
	w.Tracef("tcp %s RST arrives", e.Name)
	if e.OnData != nil {
		e.OnData()
	}
}

// abort: abortive close of this end (RST to the peer).
func (e *tcpEnd) abort() {
	e.closedLocal = true
	e.dead = true
	e.snd = nil
	e.rcv = nil
	if p := e.peer; p != nil && !p.dead {
		e.k.w.After(e.delay(), "tcp-rst", p.rstArrive)
	}
}

// closeLocal: the application closed this end.
func (e *tcpEnd) closeLocal() {
	if e.closedLocal {
		return
	}
	e.closedLocal = true
	if e.connecting || !e.connected {
		e.connecting = false
		return
	}
	if e.dead {
		return
	}
	if len(e.rcv) > 0 {
		// closing with unread data resets the connection
		e.abort()
		return
	}
	e.finQueued = true
	e.kick()
}

// ---------------------------------------------------------------------------
// actor API

func (e *tcpEnd) ActorSend(p []byte) int {
	if e.dead || e.finQueued || !e.connected {
		return 0
	}
	free := e.sndCap - len(e.snd)
	n := len(p)
	if n > free {
		n = free
	}
	if n <= 0 {
		return 0
	}
	e.snd = append(e.snd, p[:n]...)
	e.Accepted += int64(n)
	e.kick()
	return n
}

func (e *tcpEnd) ActorRecv(max int) []byte {
	n := len(e.rcv)
	if n > max {
		n = max
	}
	out := append([]byte(nil), e.rcv[:n]...)
	e.rcv = e.rcv[n:]
	e.Consumed += int64(n)
	if e.peer != nil && n > 0 {
		e.peer.kick()
	}
	return out
}

func (e *tcpEnd) ActorAvail() int       { return len(e.rcv) }
func (e *tcpEnd) ActorEOF() bool        { return e.finRcvd && len(e.rcv) == 0 }
func (e *tcpEnd) ActorReset() bool      { return e.dead }
func (e *tcpEnd) ActorShutdownWrite()   { e.finQueued = true; e.kick() }
func (e *tcpEnd) ActorClose()           { e.closeLocal() }
func (e *tcpEnd) ActorAbort()           { e.abort() }
func (e *tcpEnd) Connected() bool       { return e.connected }
func (e *tcpEnd) SendQueued() int       { return len(e.snd) }
func (e *tcpEnd) RecvQueued() int       { return len(e.rcv) }
func (e *tcpEnd) Peer() *tcpEnd         { return e.peer }
func (e *tcpEnd) SetCaps(snd, rcv int)  { e.sndCap, e.rcvCap = snd, rcv }
func (e *tcpEnd) LocalPort() int        { return e.lport }
func (e *tcpEnd) RemotePort() int       { return e.rport }
func (e *tcpEnd) FinReceived() bool     { return e.finRcvd }
func (e *tcpEnd) ClosedLocal() bool     { return e.closedLocal }
func (e *tcpEnd) InFlight() bool        { return len(e.snd) > 0 || (e.finQueued && !e.finSent) }

// EndOf returns the endpoint behind a descriptor (nil if it is not a TCP socket).
func (k *Kernel) EndOf(fd int) *TCPEnd {
	f := k.get(fd)
	if f == nil || f.kind != fkTCP {
		return nil
	}
	return f.tcp
}

// ActorListener is a remote server played by the harness.
type ActorListener struct{ l *listener }

func (k *Kernel) ActorListen(ip [4]byte, port int, beh ConnBehaviour) *ActorListener {
	l := &listener{k: k, ip: ip, port: port, actor: true, Beh: beh, backlog: 1 << 20}
	k.lports = append(k.lports, l)
	return &ActorListener{l}
}
func (a *ActorListener) OnConn(fn func(e *TCPEnd)) { a.l.OnConn = fn }
func (a *ActorListener) SetBehaviour(b ConnBehaviour) { a.l.Beh = b }
func (a *ActorListener) Close()                      { a.l.close() }

func (k *Kernel) findListener(ip [4]byte, port int) *listener {
	for _, l := range k.lports {
		if l.closed || l.port != port {
			continue
		}
		if l.ip == ip || l.ip == ([4]byte{}) {
			return l
		}
	}
	return nil
}

func (k *Kernel) newPair(cliName, srvName string) (*tcpEnd, *tcpEnd) {
	c := k.newEnd(cliName)
	s := k.newEnd(srvName)
	c.peer, s.peer = s, c
	return c, s
}

// ActorConnect: a harness client connects to a listening descriptor of sonic.
// The returned end becomes connected (or reset, if refused) after a delay.
func (k *Kernel) ActorConnect(fromIP [4]byte, toIP [4]byte, toPort int) *TCPEnd {
	w := k.w
	c, s := k.newPair("actor-cli", "accepted")
	k.nextPort++
	c.lip, c.lport, c.rip, c.rport = fromIP, k.nextPort, toIP, toPort
	s.lip, s.lport, s.rip, s.rport = toIP, toPort, fromIP, c.lport
	c.connecting = true
	c.sndCap, c.rcvCap = 1<<30, 1<<30
	k.synInFlight++
	w.After(c.delay(), "actor-syn", func() {
		k.synInFlight--
		l := k.findListener(toIP, toPort)
		c.connecting = false
		if l == nil || l.actor || len(l.queue) >= l.backlog {
			c.connErr = syscall.ECONNREFUSED
			c.dead = true
			w.Stat(statConnRef)
			return
		}
		c.connected, s.connected = true, true
		l.queue = append(l.queue, s)
		w.Tracef("tcp actor connected to :%d (queue=%d)", toPort, len(l.queue))
		c.kick()
	})
	return c
}

// ---------------------------------------------------------------------------
// descriptor-level socket calls

func (k *Kernel) Socket(domain, typ, proto int) (int, syscall.Errno) {
	w := k.w
	w.Yield("socket")
	if e := w.inject(CkSocket); e != 0 {
		return -1, e
	}
	if domain != syscall.AF_INET {
		return -1, syscall.EAFNOSUPPORT
	}
	base := typ &^ (syscall.SOCK_NONBLOCK | syscall.SOCK_CLOEXEC)
	switch base {
	case syscall.SOCK_STREAM:
		f, e := k.alloc(fkSockNew)
		if e != 0 {
			return -1, e
		}
		f.nonblock = typ&syscall.SOCK_NONBLOCK != 0
		return f.fd, 0
	case syscall.SOCK_DGRAM:
		f, e := k.alloc(fkUDP)
		if e != 0 {
			return -1, e
		}
		f.nonblock = typ&syscall.SOCK_NONBLOCK != 0
		f.so.dgram = true
		f.udp = k.newUDP(f)
		return f.fd, 0
	}
	return -1, syscall.ESOCKTNOSUPPORT
}

func (k *Kernel) isLocalIP(ip [4]byte) bool {
	if ip == ([4]byte{}) || ip[0] == 127 {
		return true
	}
	for _, it := range k.ifaces {
		if it.IP == ip {
			return true
		}
	}
	return false
}

func isMulticast(ip [4]byte) bool { return ip[0] >= 224 && ip[0] <= 239 }

func (k *Kernel) Bind(fd int, ip [4]byte, port int) syscall.Errno {
	w := k.w
	w.Yield("bind")
	if e := w.inject(CkBind); e != 0 {
		return e
	}
	f := k.get(fd)
	if f == nil {
		return syscall.EBADF
	}
	switch f.kind {
	case fkSockNew, fkUDP:
	case fkListener, fkTCP:
		return syscall.EINVAL
	default:
		return syscall.ENOTSOCK
	}
	if f.so.bound {
		return syscall.EINVAL
	}
	if !k.isLocalIP(ip) && !(f.kind == fkUDP && isMulticast(ip)) {
		return syscall.EADDRNOTAVAIL
	}
	if port == 0 {
		k.nextPort++
		port = k.nextPort
	} else {
		reuse := func(o *sockOpts) bool {
			a, _ := o.getInt(syscall.SOL_SOCKET, syscall.SO_REUSEADDR)
			b, _ := o.getInt(syscall.SOL_SOCKET, soReusePort)
			return a != 0 || b != 0
		}
		overlap := func(a, b [4]byte) bool { return a == b || a == ([4]byte{}) || b == ([4]byte{}) }
		for _, g := range k.fds {
			if g == nil || g == f || !g.so.bound || g.so.port != port || g.so.dgram != f.so.dgram {
				continue
			}
			if overlap(g.so.ip, ip) && !(reuse(&g.so) && reuse(&f.so)) {
				return syscall.EADDRINUSE
			}
		}
		if !f.so.dgram {
			for _, l := range k.lports {
				if l.actor && !l.closed && l.port == port && overlap(l.ip, ip) {
					return syscall.EADDRINUSE
				}
			}
		}
	}
	f.so.bound, f.so.ip, f.so.port = true, ip, port
	if f.kind == fkUDP {
		f.udp.ip, f.udp.port, f.udp.bound = ip, port, true
	}
	w.Tracef("bind %d %v:%d", fd, ip, port)
	return 0
}

const soReusePort = 15

func (k *Kernel) Listen(fd, backlog int) syscall.Errno {
	w := k.w
	w.Yield("listen")
	if e := w.inject(CkListen); e != 0 {
		return e
	}
	f := k.get(fd)
	if f == nil {
		return syscall.EBADF
	}
	if f.kind == fkListener {
		return 0
	}
	switch f.kind {
	case fkSockNew:
	case fkTCP:
		return syscall.EINVAL
	case fkUDP:
		return syscall.EOPNOTSUPP
	default:
		return syscall.ENOTSOCK
	}
	if !f.so.bound {
		k.nextPort++
		f.so.bound, f.so.port = true, k.nextPort
	}
	if backlog <= 0 {
		backlog = 1
	}
	if w.ListenBacklogCap > 0 && backlog > w.ListenBacklogCap {
		backlog = w.ListenBacklogCap
	}
	l := &listener{k: k, f: f, ip: f.so.ip, port: f.so.port, backlog: backlog}
	f.kind = fkListener
	f.lis = l
	k.lports = append(k.lports, l)
	return 0
}

func (k *Kernel) Accept(fd int) (int, [4]byte, int, syscall.Errno) {
	w := k.w
	w.Yield("accept")
	var zero [4]byte
	if e := w.inject(CkAccept); e != 0 {
		return -1, zero, 0, e
	}
	f := k.get(fd)
	if f == nil {
		return -1, zero, 0, syscall.EBADF
	}
	switch f.kind {
	case fkListener:
	case fkSockNew, fkTCP:
		return -1, zero, 0, syscall.EINVAL
	case fkUDP:
		return -1, zero, 0, syscall.EOPNOTSUPP
	default:
		return -1, zero, 0, syscall.ENOTSOCK
	}
	if k.nOpen >= k.FdLimit {
		// accept4 reserves the descriptor number before it looks at the queue
		w.Stat(statEMFILE)
		return -1, zero, 0, syscall.EMFILE
	}
	for len(f.lis.queue) == 0 {
		if f.nonblock {
			return -1, zero, 0, syscall.EAGAIN
		}
		w.Block("accept(blocking)", func() bool { return f.closed || len(f.lis.queue) > 0 }, -1)
		if f.closed {
			return -1, zero, 0, syscall.EBADF
		}
	}
	nf, e := k.alloc(fkTCP)
	if e != 0 {
		return -1, zero, 0, e
	}
	s := f.lis.queue[0]
	f.lis.queue = f.lis.queue[1:]
	nf.tcp = s
	s.f = nf
	nf.so.bound, nf.so.ip, nf.so.port = true, s.lip, s.lport
	w.Tracef("accept %d -> %d", fd, nf.fd)
	return nf.fd, s.rip, s.rport, 0
}

// Connect on a stream or datagram socket.
func (k *Kernel) Connect(fd int, ip [4]byte, port int) syscall.Errno {
	w := k.w
	w.Yield("connect")
	if e := w.inject(CkConnect); e != 0 {
		return e
	}
	f := k.get(fd)
	if f == nil {
		return syscall.EBADF
	}
	if f.kind == fkUDP {
		u := f.udp
		if !u.bound {
			k.nextPort++
			u.bound, u.port = true, k.nextPort
			u.ip = k.srcIPFor(ip)
			f.so.bound, f.so.ip, f.so.port = true, u.ip, u.port
		}
		u.connected, u.peerIP, u.peerPort = true, ip, port
		return 0
	}
	if f.kind == fkTCP {
		if f.tcp.connecting {
			return syscall.EALREADY
		}
		if f.tcp.connected {
			if f.tcp.connInProg {
				// inet_stream_connect: the call that finds the handshake complete moves SS_CONNECTING to SS_CONNECTED
				f.tcp.connInProg = false
				return 0
			}
			return syscall.EISCONN
		}
		if f.tcp.failed {
			// inet_stream_connect in SS_CONNECTING with the socket closed: report the pending error
			// (ECONNABORTED if something else collected it) and return the socket to the unconnected
			// state; the next connect starts a new attempt
			er := f.tcp.connErr
			if er == 0 {
				er = syscall.ECONNABORTED
			}
			f.tcp.closedLocal = true
			f.tcp = nil
			f.kind = fkSockNew
			return er
		}
		return syscall.EINVAL
	}
	if f.kind != fkSockNew {
		return syscall.EINVAL
	}
	l := k.findListener(ip, port)
	if l != nil && l.actor && l.Beh == ConnNetUnreach {
		return syscall.ENETUNREACH
	}
	c, s := k.newPair("sonic-cli", "server")
	if !f.so.bound {
		k.nextPort++
		f.so.bound, f.so.port = true, k.nextPort
		f.so.ip = k.srcIPFor(ip)
	}
	c.lip, c.lport, c.rip, c.rport = f.so.ip, f.so.port, ip, port
	s.lip, s.lport, s.rip, s.rport = ip, port, c.lip, c.lport
	c.f = f
	c.connecting = true
	f.kind = fkTCP
	f.tcp = c
	d := c.delay()
	fail := func(errno syscall.Errno, st StatID) {
		w.After(d, "connect-fail", func() {
			if c.closedLocal {
				return
			}
			c.connecting = false
			c.connErr = errno
			c.failed = true
			w.Stat(st)
			w.Tracef("connect %d failed errno=%d", fd, int(errno))
		})
	}
	switch {
	case l == nil:
		fail(syscall.ECONNREFUSED, statConnRef)
	case l.actor && l.Beh == ConnRefuse:
		fail(syscall.ECONNREFUSED, statConnRef)
	case l.actor && l.Beh == ConnUnreachable:
		fail(syscall.EHOSTUNREACH, statConnRef)
	case l.actor && l.Beh == ConnBlackhole:
		w.Stat(statConnTmo)
	case !l.actor && len(l.queue) >= l.backlog:
		w.Stat(statConnTmo) // SYN dropped
	default:
		w.After(d, "connect-ok", func() {
			if c.closedLocal || l.closed {
				if !c.closedLocal {
					c.connecting = false
					c.connErr = syscall.ECONNREFUSED
					c.failed = true
				}
				return
			}
			c.connecting = false
			c.connected, s.connected = true, true
			w.Tracef("connect %d established", fd)
			if l.actor {
				s.sndCap, s.rcvCap = 1<<30, 1<<30
				if w.ActorRcvCap > 0 {
					s.rcvCap = w.ActorRcvCap
				}
				if l.OnConn != nil {
					l.OnConn(s)
				}
			} else {
				l.queue = append(l.queue, s)
			}
		})
	}
	if !f.nonblock {
		// blocking connect: wait for the outcome
		w.Block("connect(blocking)", func() bool { return !c.connecting }, -1)
		if c.connected {
			return 0
		}
		er := c.connErr
		c.connErr = 0
		return er
	}
	c.connInProg = true
	return syscall.EINPROGRESS
}

// Shutdown: shutdown(2) on a stream socket.
func (k *Kernel) Shutdown(fd, how int) syscall.Errno {
	k.w.Yield("shutdown")
	f := k.get(fd)
	if f == nil {
		return syscall.EBADF
	}
	switch f.kind {
	case fkSockNew, fkListener, fkUDP, fkTCP:
	default:
		return syscall.ENOTSOCK
	}
	if f.kind != fkTCP || !f.tcp.connected {
		return syscall.ENOTCONN
	}
	e := f.tcp
	if how == syscall.SHUT_RD || how == syscall.SHUT_RDWR {
		e.rcvShut = true
	}
	if how == syscall.SHUT_WR || how == syscall.SHUT_RDWR {
		if !e.dead {
			e.finQueued = true
			e.kick()
		}
	}
	return 0
}

func (k *Kernel) srcIPFor(dst [4]byte) [4]byte {
	if dst[0] == 127 {
		return [4]byte{127, 0, 0, 1}
	}
	for _, it := range k.ifaces {
		if !it.Loopback {
			return it.IP
		}
	}
	return [4]byte{127, 0, 0, 1}
}

func (k *Kernel) Getsockname(fd int) ([4]byte, int, syscall.Errno) {
	k.w.Yield("getsockname")
	var zero [4]byte
	if e := k.w.inject(CkGetsockname); e != 0 {
		return zero, 0, e
	}
	f := k.get(fd)
	if f == nil {
		return zero, 0, syscall.EBADF
	}
	switch f.kind {
	case fkSockNew, fkListener, fkUDP, fkTCP:
		return f.so.ip, f.so.port, 0
	}
	return zero, 0, syscall.ENOTSOCK
}

// Select: readiness of the listed descriptors; blocks up to timeoutNs (<0: forever).
func (k *Kernel) Select(rfds, wfds []int, timeoutNs int64) (rr, wr []int, errno syscall.Errno) {
	w := k.w
	w.Yield("select")
	if e := w.inject(CkSelect); e != 0 {
		return nil, nil, e
	}
	check := func() bool {
		rr, wr = rr[:0], wr[:0]
		for _, fd := range rfds {
			if f := k.get(fd); f != nil && k.mask(f)&(syscall.EPOLLIN|syscall.EPOLLHUP|syscall.EPOLLERR) != 0 {
				rr = append(rr, fd)
			}
		}
		for _, fd := range wfds {
			if f := k.get(fd); f != nil && k.mask(f)&(syscall.EPOLLOUT|syscall.EPOLLERR) != 0 {
				wr = append(wr, fd)
			}
		}
		return len(rr)+len(wr) > 0
	}
	for _, fd := range append(append([]int(nil), rfds...), wfds...) {
		if k.get(fd) == nil {
			return nil, nil, syscall.EBADF
		}
	}
	if check() {
		return rr, wr, 0
	}
	if timeoutNs == 0 {
		return nil, nil, 0
	}
	deadline := int64(-1)
	if timeoutNs > 0 {
		deadline = w.Now + timeoutNs
	}
	if w.Fault(FEintr) {
		return nil, nil, syscall.EINTR
	}
	w.Block("select", check, deadline)
	check()
	return rr, wr, 0
}

// ---------------------------------------------------------------------------
// socket options

func (k *Kernel) SetsockoptInt(fd, level, opt, val int) syscall.Errno {
	k.w.Yield("setsockopt")
	if e := k.w.inject(CkSetsockopt); e != 0 {
		return e
	}
	f := k.get(fd)
	if f == nil {
		return syscall.EBADF
	}
	switch f.kind {
	case fkSockNew, fkListener, fkUDP, fkTCP:
	default:
		return syscall.ENOTSOCK
	}
	if level == syscall.IPPROTO_TCP && f.so.dgram {
		return syscall.EOPNOTSUPP
	}
	f.so.setInt(level, opt, val)
	k.w.Tracef("setsockopt %d %d/%d=%d", fd, level, opt, val)
	return 0
}

func (k *Kernel) GetsockoptInt(fd, level, opt int) (int, syscall.Errno) {
	k.w.Yield("getsockopt")
	if e := k.w.inject(CkGetsockopt); e != 0 {
		return 0, e
	}
	f := k.get(fd)
	if f == nil {
		return 0, syscall.EBADF
	}
	switch f.kind {
	case fkSockNew, fkListener, fkUDP, fkTCP:
	default:
		return 0, syscall.ENOTSOCK
	}
	if level == syscall.SOL_SOCKET && opt == syscall.SO_ERROR {
		if f.kind == fkUDP {
			er := f.udp.pendingErr
			f.udp.pendingErr = 0
			return int(er), 0
		}
		if f.kind == fkTCP {
			er := f.tcp.connErr
			if er == 0 && f.tcp.dead && !f.tcp.failed {
				er = f.tcp.errPending
				f.tcp.errPending = 0
			}
			f.tcp.connErr = 0
			return int(er), 0
		}
		return 0, 0
	}
	if level == syscall.IPPROTO_IP && f.kind == fkUDP {
		return f.udp.getIPOpt(opt)
	}
	if level == syscall.SOL_SOCKET && opt == syscall.SO_TYPE {
		if f.so.dgram {
			return syscall.SOCK_DGRAM, 0
		}
		return syscall.SOCK_STREAM, 0
	}
	v, _ := f.so.getInt(level, opt)
	return v, 0
}

func (k *Kernel) SetsockoptString(fd, level, opt int, s string) syscall.Errno {
	k.w.Yield("setsockopt")
	if e := k.w.inject(CkSetsockopt); e != 0 {
		return e
	}
	f := k.get(fd)
	if f == nil {
		return syscall.EBADF
	}
	if level == syscall.SOL_SOCKET && opt == syscall.SO_BINDTODEVICE {
		if s != "" && k.ifaceByName(s) == nil {
			return syscall.ENODEV
		}
		f.so.device = s
		return 0
	}
	return syscall.ENOPROTOOPT
}

// SockDevice returns SO_BINDTODEVICE of the socket.
func (k *Kernel) SockDevice(fd int) string {
	if f := k.get(fd); f != nil {
		return f.so.device
	}
	return ""
}

// SockOptInt reads a stored option without going through the fault path (oracles).
func (k *Kernel) SockOptInt(fd, level, opt int) (int, bool) {
	f := k.get(fd)
	if f == nil {
		return 0, false
	}
	if level == syscall.IPPROTO_IP && f.kind == fkUDP {
		v, e := f.udp.getIPOpt(opt)
		return v, e == 0
	}
	return f.so.getInt(level, opt)
}

// SelectNoYield reports current readiness without yielding, injecting or
// blocking (for wake conditions).
func (k *Kernel) SelectNoYield(rfds, wfds []int) (rr, wr []int, errno syscall.Errno) {
	for _, fd := range rfds {
		if f := k.get(fd); f != nil && k.mask(f)&(syscall.EPOLLIN|syscall.EPOLLHUP|syscall.EPOLLERR) != 0 {
			rr = append(rr, fd)
		}
	}
	for _, fd := range wfds {
		if f := k.get(fd); f != nil && k.mask(f)&(syscall.EPOLLOUT|syscall.EPOLLERR|syscall.EPOLLHUP) != 0 {
			wr = append(wr, fd)
		}
	}
	return
}

// ListenQueueLen: connections waiting in the accept queue of a listening descriptor.
func (k *Kernel) ListenQueueLen(fd int) int {
	if f := k.get(fd); f != nil && f.kind == fkListener {
		return len(f.lis.queue)
	}
	return 0
}

// ConnectsInFlight: some actor connect has not yet reached its listener.
func (k *Kernel) ConnectsInFlight() bool { return k.synInFlight > 0 }
