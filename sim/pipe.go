package sim

import "syscall"

type pipeBuf struct {
	k        *Kernel
	data     []byte
	capacity int
	rOpen    bool
	wOpen    bool
	wEver    bool // a writer has been open at some point
	rEver    bool
	moved    int64 // bytes that entered the pipe (independent observer for oracles)
	drained  int64 // bytes that left it
}

type regFile struct{ data []byte }

type vnode struct {
	path string
	fifo *pipeBuf
	reg  *regFile
}

var (
	statPipeHup  = RegStat("probe:pipe-writer-hung-up")
	statPipeRhup = RegStat("probe:pipe-reader-hung-up")
)

func (p *pipeBuf) readMask() uint32 {
	var m uint32
	if len(p.data) > 0 {
		m |= syscall.EPOLLIN
	}
	if p.wEver && !p.wOpen {
		m |= syscall.EPOLLHUP
	}
	return m
}

func (p *pipeBuf) writeMask() uint32 {
	var m uint32
	if p.rEver && !p.rOpen {
		m |= syscall.EPOLLERR
		if len(p.data) < p.capacity {
			m |= syscall.EPOLLOUT
		}
		return m
	}
	if len(p.data) < p.capacity {
		m |= syscall.EPOLLOUT
	}
	return m
}

func (p *pipeBuf) read(w *World, b []byte) (int, syscall.Errno) {
	if len(p.data) == 0 {
		if !p.wOpen {
			return 0, 0
		}
		return -1, syscall.EAGAIN
	}
	n := len(b)
	if n > len(p.data) {
		n = len(p.data)
	}
	if n > 1 && w.Fault(FShortRead) {
		n = 1 + w.Choose(n-1)
		w.Stat(statShortRead)
	}
	copy(b, p.data[:n])
	p.data = p.data[n:]
	p.drained += int64(n)
	return n, 0
}

func (p *pipeBuf) write(w *World, b []byte) (int, syscall.Errno) {
	if len(b) == 0 {
		return 0, 0 // pipe_write returns before it looks at the readers
	}
	if p.rEver && !p.rOpen {
		return -1, syscall.EPIPE
	}
	free := p.capacity - len(p.data)
	if free <= 0 {
		return -1, syscall.EAGAIN
	}
	if len(b) == 0 {
		return 0, 0
	}
	n := len(b)
	if n > free {
		n = free
	}
	if n > 1 && w.Fault(FShortWrite) {
		n = 1 + w.Choose(n-1)
		w.Stat(statShortWrite)
	}
	p.data = append(p.data, b[:n]...)
	p.moved += int64(n)
	return n, 0
}

func (p *pipeBuf) readerClosed() {
	p.rOpen = false
	p.k.w.Stat(statPipeRhup)
}
func (p *pipeBuf) writerClosed() {
	p.wOpen = false
	p.k.w.Stat(statPipeHup)
}

// Pipe creates a pipe and returns (read fd, write fd).
func (k *Kernel) Pipe() (int, int, syscall.Errno) {
	k.w.Yield("pipe")
	if e := k.w.inject(CkPipe); e != 0 {
		return -1, -1, e
	}
	r, e := k.alloc(fkPipeR)
	if e != 0 {
		return -1, -1, e
	}
	wf, e := k.alloc(fkPipeW)
	if e != 0 {
		k.fds[r.fd] = nil
		k.nOpen--
		return -1, -1, e
	}
	pb := &pipeBuf{k: k, capacity: 65536, rOpen: true, wOpen: true, wEver: true, rEver: true}
	r.pe = pb
	wf.pe = pb
	return r.fd, wf.fd, 0
}

// ---------------------------------------------------------------------------
// tiny VFS: FIFOs and regular files registered by the scenario

// Fifo is the scenario-side handle of a named pipe.
type Fifo struct {
	k  *Kernel
	pb *pipeBuf
}

func (k *Kernel) lookup(path string) *vnode {
	for _, v := range k.vfs {
		if v.path == path {
			return v
		}
	}
	return nil
}

// MkFifo creates a FIFO at path with the given capacity in bytes.
func (k *Kernel) MkFifo(path string, capacity int) *Fifo {
	if capacity <= 0 {
		capacity = 65536
	}
	pb := &pipeBuf{k: k, capacity: capacity}
	k.vfs = append(k.vfs, &vnode{path: path, fifo: pb})
	return &Fifo{k: k, pb: pb}
}

// MkFile creates a regular file with the given content.
func (k *Kernel) MkFile(path string, content []byte) {
	k.vfs = append(k.vfs, &vnode{path: path, reg: &regFile{data: append([]byte(nil), content...)}})
}

// FileContent returns the current bytes of a regular file.
func (k *Kernel) FileContent(path string) []byte {
	if v := k.lookup(path); v != nil && v.reg != nil {
		return v.reg.data
	}
	return nil
}

func (k *Kernel) Open(path string, flags int, mode uint32) (int, syscall.Errno) {
	w := k.w
	w.Yield("open")
	if e := w.inject(CkOpen); e != 0 {
		return -1, e
	}
	v := k.lookup(path)
	if v == nil {
		if flags&syscall.O_CREAT == 0 {
			return -1, syscall.ENOENT
		}
		v = &vnode{path: path, reg: &regFile{}}
		k.vfs = append(k.vfs, v)
	}
	acc := flags & syscall.O_ACCMODE
	if v.fifo != nil {
		pb := v.fifo
		switch acc {
		case syscall.O_RDONLY:
			f, e := k.alloc(fkPipeR)
			if e != 0 {
				return -1, e
			}
			f.pe = pb
			f.nonblock = flags&syscall.O_NONBLOCK != 0
			pb.rOpen, pb.rEver = true, true
			return f.fd, 0
		case syscall.O_WRONLY:
			if !pb.rOpen && flags&syscall.O_NONBLOCK != 0 {
				return -1, syscall.ENXIO
			}
			f, e := k.alloc(fkPipeW)
			if e != 0 {
				return -1, e
			}
			f.pe = pb
			f.nonblock = flags&syscall.O_NONBLOCK != 0
			pb.wOpen, pb.wEver = true, true
			return f.fd, 0
		default:
			return -1, syscall.EINVAL
		}
	}
	f, e := k.alloc(fkRegular)
	if e != 0 {
		return -1, e
	}
	f.rf = v.reg
	f.nonblock = flags&syscall.O_NONBLOCK != 0
	if flags&syscall.O_TRUNC != 0 {
		v.reg.data = v.reg.data[:0]
	}
	if flags&syscall.O_APPEND != 0 {
		f.roff = int64(len(v.reg.data))
	}
	return f.fd, 0
}

// Actor side of a FIFO (the remote process holding the other end).

func (f *Fifo) ActorOpenWriter()  { f.pb.wOpen, f.pb.wEver = true, true }
func (f *Fifo) ActorCloseWriter() { f.pb.writerClosed() }
func (f *Fifo) ActorOpenReader()  { f.pb.rOpen, f.pb.rEver = true, true }
func (f *Fifo) ActorCloseReader() { f.pb.readerClosed() }

// ActorWrite appends as much of p as fits; returns the count accepted.
func (f *Fifo) ActorWrite(p []byte) int {
	free := f.pb.capacity - len(f.pb.data)
	n := len(p)
	if n > free {
		n = free
	}
	if n <= 0 {
		return 0
	}
	f.pb.data = append(f.pb.data, p[:n]...)
	f.pb.moved += int64(n)
	f.k.w.Tracef("fifo actor-write %d", n)
	return n
}

// ActorRead removes up to max bytes.
func (f *Fifo) ActorRead(max int) []byte {
	n := len(f.pb.data)
	if n > max {
		n = max
	}
	out := append([]byte(nil), f.pb.data[:n]...)
	f.pb.data = f.pb.data[n:]
	f.pb.drained += int64(n)
	return out
}

func (f *Fifo) Buffered() int  { return len(f.pb.data) }
func (f *Fifo) Capacity() int  { return f.pb.capacity }
func (f *Fifo) Moved() int64   { return f.pb.moved }
func (f *Fifo) Drained() int64 { return f.pb.drained }
