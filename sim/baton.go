package sim

import (
	"runtime"
	"syscall"
	"unsafe"
)

// The baton between tasks is one byte through a real pipe moved with raw
// SYS_READ/SYS_WRITE traps. Unlike a channel, a mutex or syscall.Read/Write
// (which call race.Acquire/ReleaseMerge), a raw trap is invisible to the race
// detector: execution is physically serialised and exactly replayable, yet two
// accesses the program itself does not order stay unordered for the detector.

func (t *Task) openPipes() {
	if err := syscall.Pipe(t.pipe[:]); err != nil {
		Bug("pipe: %v", err)
	}
	if err := syscall.Pipe(t.exitPipe[:]); err != nil {
		Bug("pipe: %v", err)
	}
}

func (t *Task) closePipes() {
	syscall.Close(t.pipe[0])
	syscall.Close(t.pipe[1])
	syscall.Close(t.exitPipe[0])
	syscall.Close(t.exitPipe[1])
}

func rawRead1(fd int) {
	var b [1]byte
	for {
		n, _, e := syscall.Syscall(syscall.SYS_READ, uintptr(fd), uintptr(unsafe.Pointer(&b[0])), 1)
		if e == syscall.EINTR {
			continue
		}
		if e != 0 || n != 1 {
			Bug("baton read: n=%d errno=%d", n, e)
		}
		break
	}
	runtime.KeepAlive(&b)
}

func rawWrite1(fd int) {
	var b [1]byte
	for {
		n, _, e := syscall.Syscall(syscall.SYS_WRITE, uintptr(fd), uintptr(unsafe.Pointer(&b[0])), 1)
		if e == syscall.EINTR {
			continue
		}
		if e != 0 || n != 1 {
			Bug("baton write: n=%d errno=%d", n, e)
		}
		break
	}
	runtime.KeepAlive(&b)
}

// The main task has no pipe of its own until the first Go(); it is created
// lazily.
func (t *Task) park() {
	if t.pipe[0] == 0 && t.pipe[1] == 0 {
		Bug("park on task without pipe")
	}
	rawRead1(t.pipe[0])
}

func (t *Task) unpark() {
	rawWrite1(t.pipe[1])
}

func (t *Task) signalExit() { rawWrite1(t.exitPipe[1]) }
func (t *Task) waitExit()   { rawRead1(t.exitPipe[0]) }
