package sim

import (
	"syscall"
	"unsafe"
)

type epItem struct {
	f      *file
	fd     int
	events uint32
	data   [8]byte
}

type epollFile struct {
	self  *file
	items []epItem
}

type eventFile struct{ count uint64 }

type timerFile struct {
	expirations uint64
	armedSeq    uint64
	armed       bool
	deadline    int64
	interval    int64
}

var (
	statBatchMulti  = RegStat("probe:epoll-batch>=2")
	statBatchStale  = RegStat("probe:epoll-entry-not-ready-at-dispatch")
	statEpollBlock  = RegStat("probe:epoll-wait-blocked")
	statEpollTmo    = RegStat("probe:epoll-wait-timeout")
	statTimerExpire = RegStat("probe:timerfd-expired")
	statHupOnly     = RegStat("probe:epoll-reported-hup/err-without-in/out")
)

func (ep *epollFile) remove(f *file) {
	for i := range ep.items {
		if ep.items[i].f == f {
			ep.items = append(ep.items[:i], ep.items[i+1:]...)
			return
		}
	}
}

func (ep *epollFile) find(f *file) int {
	for i := range ep.items {
		if ep.items[i].f == f {
			return i
		}
	}
	return -1
}

func (k *Kernel) EpollCreate1(flags int) (int, syscall.Errno) {
	k.w.Yield("epoll_create")
	if e := k.w.inject(CkEpollCreate); e != 0 {
		return -1, e
	}
	f, e := k.alloc(fkEpoll)
	if e != 0 {
		return -1, e
	}
	f.ep = &epollFile{self: f}
	return f.fd, 0
}

// EpollCtl: ev is the 12-byte packed epoll_event (mask, data) or nil for DEL.
func (k *Kernel) EpollCtl(epfd, op, fd int, ev *[12]byte) syscall.Errno {
	w := k.w
	w.Yield("epoll_ctl")
	if e := w.inject(CkEpollCtl); e != 0 {
		return e
	}
	epf := k.get(epfd)
	if epf == nil {
		return syscall.EBADF
	}
	if epf.kind != fkEpoll {
		return syscall.EINVAL
	}
	f := k.get(fd)
	if f == nil {
		w.Stat(statBadFd)
		w.Tracef("epoll_ctl op=%d fd=%d EBADF", op, fd)
		return syscall.EBADF
	}
	if f == epf {
		return syscall.EINVAL
	}
	if f.kind == fkRegular {
		w.Tracef("epoll_ctl op=%d fd=%d EPERM", op, fd)
		return syscall.EPERM
	}
	ep := epf.ep
	i := ep.find(f)
	var mask uint32
	var data [8]byte
	if ev != nil {
		mask = uint32(ev[0]) | uint32(ev[1])<<8 | uint32(ev[2])<<16 | uint32(ev[3])<<24
		copy(data[:], ev[4:12])
	}
	switch op {
	case syscall.EPOLL_CTL_ADD:
		if i >= 0 {
			return syscall.EEXIST
		}
		ep.items = append(ep.items, epItem{f: f, fd: fd, events: mask, data: data})
		f.watchers = append(f.watchers, ep)
	case syscall.EPOLL_CTL_MOD:
		if i < 0 {
			return syscall.ENOENT
		}
		ep.items[i].events = mask
		ep.items[i].data = data
	case syscall.EPOLL_CTL_DEL:
		if i < 0 {
			return syscall.ENOENT
		}
		ep.items = append(ep.items[:i], ep.items[i+1:]...)
		for j, x := range f.watchers {
			if x == ep {
				f.watchers = append(f.watchers[:j], f.watchers[j+1:]...)
				break
			}
		}
	default:
		return syscall.EINVAL
	}
	w.Tracef("epoll_ctl op=%d fd=%d mask=%d", op, fd, mask)
	return 0
}

const epAlways = syscall.EPOLLERR | syscall.EPOLLHUP

func (k *Kernel) epReady(ep *epollFile, it *epItem) uint32 {
	return k.mask(it.f) & (it.events | epAlways)
}

func (k *Kernel) epAnyReady(ep *epollFile) bool {
	for i := range ep.items {
		if k.epReady(ep, &ep.items[i]) != 0 {
			return true
		}
	}
	return false
}

// EpollReadyCount tells how many registered descriptors of epfd are ready now
// (used by drivers to arrange multi-descriptor batches and by oracles).
func (k *Kernel) EpollReadyCount(epfd int) int {
	f := k.get(epfd)
	if f == nil || f.kind != fkEpoll {
		return 0
	}
	n := 0
	for i := range f.ep.items {
		if k.epReady(f.ep, &f.ep.items[i]) != 0 {
			n++
		}
	}
	return n
}

// EpollWait writes up to maxev packed events at buf.
func (k *Kernel) EpollWait(epfd int, buf unsafe.Pointer, maxev int, timeoutMs int) (int, syscall.Errno) {
	w := k.w
	w.Yield("epoll_wait")
	epf := k.get(epfd)
	if epf == nil {
		return -1, syscall.EBADF
	}
	if epf.kind != fkEpoll || maxev <= 0 {
		return -1, syscall.EINVAL
	}
	ep := epf.ep
	if !k.epAnyReady(ep) && timeoutMs != 0 {
		// The call is going to sleep: this is where a signal can interrupt it.
		if e := w.inject(CkEpollWait); e != 0 {
			return -1, e
		}
		deadline := int64(-1)
		if timeoutMs > 0 {
			deadline = w.Now + int64(timeoutMs)*1_000_000
		}
		if w.Fault(FEintr) {
			// interrupted either at once or after sleeping for a while
			if w.Choose(2) == 1 {
				d := int64(w.Pick(1, 1000, 1_000_000, 50_000_000))
				stop := w.Now + d
				if deadline >= 0 && stop > deadline {
					stop = deadline
				}
				w.Stat(statEpollBlock)
				if !w.Block("epoll_wait", func() bool { return epf.closed || k.epAnyReady(ep) }, stop) {
					if deadline < 0 || w.Now < deadline {
						w.Tracef("epoll_wait EINTR")
						return -1, syscall.EINTR
					}
				}
			} else {
				w.Tracef("epoll_wait EINTR")
				return -1, syscall.EINTR
			}
		} else {
			w.Stat(statEpollBlock)
			w.Block("epoll_wait", func() bool { return epf.closed || k.epAnyReady(ep) }, deadline)
		}
		if epf.closed {
			return -1, syscall.EBADF
		}
	}
	// collect
	var idx []int
	for i := range ep.items {
		if k.epReady(ep, &ep.items[i]) != 0 {
			idx = append(idx, i)
		}
	}
	if len(idx) == 0 {
		w.Stat(statEpollTmo)
		w.Tracef("epoll_wait -> 0")
		return 0, 0
	}
	if len(idx) > 1 && w.Fault(FEpollPermute) {
		for i := len(idx) - 1; i > 0; i-- {
			j := w.Choose(i + 1)
			idx[i], idx[j] = idx[j], idx[i]
		}
	}
	if len(idx) > 1 && w.Fault(FEpollTruncate) {
		idx = idx[:1+w.Choose(len(idx)-1)]
	}
	if len(idx) > maxev {
		idx = idx[:maxev]
	}
	if len(idx) >= 2 {
		w.Stat(statBatchMulti)
	}
	for n, i := range idx {
		it := &ep.items[i]
		m := k.epReady(ep, it)
		if m&(syscall.EPOLLIN|syscall.EPOLLOUT) == 0 {
			w.Stat(statHupOnly)
		}
		out := (*[12]byte)(unsafe.Add(buf, n*12))
		out[0], out[1], out[2], out[3] = byte(m), byte(m>>8), byte(m>>16), byte(m>>24)
		copy(out[4:], it.data[:])
		w.Tracef("epoll_wait ev fd=%d mask=%d", it.fd, m)
	}
	return len(idx), 0
}

// ---------------------------------------------------------------------------

func (k *Kernel) Eventfd(initval uint, flags int) (int, syscall.Errno) {
	k.w.Yield("eventfd")
	if e := k.w.inject(CkEventfd); e != 0 {
		return -1, e
	}
	if flags&^(syscall.O_NONBLOCK|syscall.O_CLOEXEC|1) != 0 { // EFD_NONBLOCK | EFD_CLOEXEC | EFD_SEMAPHORE
		return -1, syscall.EINVAL
	}
	f, e := k.alloc(fkEventfd)
	if e != 0 {
		return -1, e
	}
	f.ev = &eventFile{count: uint64(initval)}
	f.nonblock = flags&syscall.O_NONBLOCK != 0
	return f.fd, 0
}

func (k *Kernel) TimerfdCreate(clockid, flags int) (int, syscall.Errno) {
	k.w.Yield("timerfd_create")
	if e := k.w.inject(CkTimerfdCreate); e != 0 {
		return -1, e
	}
	f, e := k.alloc(fkTimerfd)
	if e != 0 {
		return -1, e
	}
	f.tm = &timerFile{}
	f.nonblock = flags&syscall.O_NONBLOCK != 0
	return f.fd, 0
}

// TimerfdSettime arms (valueNs>0) or disarms (valueNs==0) a relative timer.
func (k *Kernel) TimerfdSettime(fd int, valueNs, intervalNs int64) syscall.Errno {
	w := k.w
	w.Yield("timerfd_settime")
	if e := w.inject(CkTimerfdSettime); e != 0 {
		return e
	}
	f := k.get(fd)
	if f == nil {
		w.Stat(statBadFd)
		return syscall.EBADF
	}
	if f.kind != fkTimerfd {
		return syscall.EINVAL
	}
	tm := f.tm
	tm.armedSeq++
	tm.expirations = 0 // settime resets the expiration count (notes/kernel_facts.txt)
	tm.armed = false
	if valueNs < 0 || intervalNs < 0 {
		return syscall.EINVAL
	}
	if valueNs == 0 {
		w.Tracef("timerfd %d disarm", fd)
		return 0
	}
	tm.armed = true
	tm.deadline = w.Now + valueNs
	tm.interval = intervalNs
	seq := tm.armedSeq
	w.Tracef("timerfd %d arm +%d", fd, valueNs)
	var fire func()
	fire = func() {
		if tm.armedSeq != seq || f.closed {
			return
		}
		tm.expirations++
		w.Stat(statTimerExpire)
		w.Tracef("timerfd %d expire", fd)
		if tm.interval > 0 {
			tm.deadline += tm.interval
			w.After(tm.interval, "timerfd", fire)
		} else {
			tm.armed = false
		}
	}
	w.After(valueNs, "timerfd", fire)
	return 0
}

// TimerArmed reports whether the timerfd at fd is armed and its deadline.
func (k *Kernel) TimerArmed(fd int) (bool, int64) {
	f := k.get(fd)
	if f == nil || f.kind != fkTimerfd {
		return false, 0
	}
	return f.tm.armed, f.tm.deadline
}
