// Package simrt is what rewritten `go` statements call.
package simrt

import "sonicverif/sim"

func Go(fn func()) {
	if w := sim.Cur(); w != nil && !w.Dead() {
		w.Go("go", fn)
		return
	}
	go fn()
}
