package kconf

import (
	"bytes"
	"os"
	"syscall"

	"golang.org/x/sys/unix"

	shimunix "sonicverif/shim/unix"
)

func (a *api) selectW(fd int, timeoutMs int) (int, bool, error) {
	var fds unix.FdSet
	fds.Set(fd)
	tv := unix.NsecToTimeval(int64(timeoutMs) * 1_000_000)
	var n int
	var err error
	if a.sim {
		n, err = shimunix.Select(fd+1, nil, &fds, nil, &tv)
	} else {
		n, err = unix.Select(fd+1, nil, &fds, nil, &tv)
	}
	return n, fds.IsSet(fd), err
}

func (a *api) pollW(fd int, timeoutMs int) (int, int16, error) {
	pf := []unix.PollFd{{Fd: int32(fd), Events: unix.POLLOUT}}
	var n int
	var err error
	if a.sim {
		n, err = shimunix.Poll(pf, timeoutMs)
	} else {
		n, err = unix.Poll(pf, timeoutMs)
	}
	return n, pf[0].Revents & (unix.POLLOUT | unix.POLLNVAL), err
}

func (a *api) fcntl(fd, cmd, arg int) (int, error) {
	if a.sim {
		return shimunix.FcntlInt(uintptr(fd), cmd, arg)
	}
	return unix.FcntlInt(uintptr(fd), cmd, arg)
}

// fifo creates a named pipe and returns its path.
func (t *tr) fifo() string {
	if t.a.sim {
		t.a.w.K.MkFifo("/kconf/fifo", 65536)
		return "/kconf/fifo"
	}
	dir, err := os.MkdirTemp("", "kconf")
	if err != nil {
		panic(err)
	}
	t.tmp = append(t.tmp, dir+"/fifo", dir)
	p := dir + "/fifo"
	if err := syscall.Mkfifo(p, 0600); err != nil {
		panic(err)
	}
	return p
}

func init() {
	scripts["poll/connect"] = func(t *tr) {
		a := t.a
		ln := t.tcpListener()
		sa, _ := a.Getsockname(ln)
		cl, _ := a.Socket(syscall.AF_INET, syscall.SOCK_STREAM|syscall.SOCK_NONBLOCK, 0)
		t.own(cl)
		t.logf("connect: %s", es(a.Connect(cl, sa4(lo, portOf(sa)))))
		n, ev, err := a.pollW(cl, 2000)
		t.logf("poll for write: %d out=%v %s", n, ev&unix.POLLOUT != 0, es(err))
		v, err := a.GetsockoptInt(cl, syscall.SOL_SOCKET, syscall.SO_ERROR)
		t.logf("SO_ERROR: %d %s", v, es(err))
		a.Close(ln)
		c2, _ := a.Socket(syscall.AF_INET, syscall.SOCK_STREAM|syscall.SOCK_NONBLOCK, 0)
		t.own(c2)
		t.logf("connect to the closed port: %s", es(a.Connect(c2, sa4(lo, portOf(sa)))))
		n, ev, err = a.pollW(c2, 2000)
		t.logf("poll for write: %d out=%v %s", n, ev&unix.POLLOUT != 0, es(err))
		v, err = a.GetsockoptInt(c2, syscall.SOL_SOCKET, syscall.SO_ERROR)
		t.logf("SO_ERROR: %s %s", errnoName(syscall.Errno(v)), es(err))
		chunk := bytes.Repeat([]byte("z"), 65536)
		for i := 0; i < 4000; i++ {
			if _, err := a.Write(cl, chunk); err != nil {
				break
			}
			a.settle()
		}
		n, ev, err = a.pollW(cl, 20)
		t.logf("send buffer full, poll for write, 20ms: %d out=%v %s", n, ev&unix.POLLOUT != 0, es(err))
		x, _ := a.Socket(syscall.AF_INET, syscall.SOCK_STREAM, 0)
		a.Close(x)
		n, ev, err = a.pollW(x, 0)
		t.logf("closed number: %d nval=%v %s", n, ev&unix.POLLNVAL != 0, es(err))
	}
	scripts["select/connect-established"] = func(t *tr) {
		a := t.a
		ln := t.tcpListener()
		sa, _ := a.Getsockname(ln)
		cl, _ := a.Socket(syscall.AF_INET, syscall.SOCK_STREAM|syscall.SOCK_NONBLOCK, 0)
		t.own(cl)
		t.logf("connect: %s", es(a.Connect(cl, sa4(lo, portOf(sa)))))
		n, set, err := a.selectW(cl, 2000)
		t.logf("select for write: %d set=%v %s", n, set, es(err))
		v, err := a.GetsockoptInt(cl, syscall.SOL_SOCKET, syscall.SO_ERROR)
		t.logf("SO_ERROR: %d %s", v, es(err))
	}
	scripts["select/connect-refused"] = func(t *tr) {
		a := t.a
		ln := t.tcpListener()
		sa, _ := a.Getsockname(ln)
		a.Close(ln)
		cl, _ := a.Socket(syscall.AF_INET, syscall.SOCK_STREAM|syscall.SOCK_NONBLOCK, 0)
		t.own(cl)
		t.logf("connect: %s", es(a.Connect(cl, sa4(lo, portOf(sa)))))
		n, set, err := a.selectW(cl, 2000)
		t.logf("select for write: %d set=%v %s", n, set, es(err))
		v, err := a.GetsockoptInt(cl, syscall.SOL_SOCKET, syscall.SO_ERROR)
		t.logf("SO_ERROR: %s %s", errnoName(syscall.Errno(v)), es(err))
		t.logf("connect after the failure was collected: %s", es(a.Connect(cl, sa4(lo, portOf(sa)))))
	}
	scripts["select/timeout-and-idle"] = func(t *tr) {
		a := t.a
		_, cl, _ := t.tcpPair()
		n, set, err := a.selectW(cl, 0)
		t.logf("idle connected socket, select for write, timeout 0: %d set=%v %s", n, set, es(err))
		chunk := bytes.Repeat([]byte("z"), 65536)
		for i := 0; i < 4000; i++ {
			if _, err := a.Write(cl, chunk); err != nil {
				break
			}
			a.settle()
		}
		n, set, err = a.selectW(cl, 20)
		t.logf("send buffer full, select for write, 20ms: %d set=%v %s", n, set, es(err))
		x, _ := a.Socket(syscall.AF_INET, syscall.SOCK_STREAM, 0)
		a.Close(x)
		n, _, err = a.selectW(x, 0)
		t.logf("closed number: %d %s", n, es(err))
	}
	scripts["fcntl/getfl-setfl"] = func(t *tr) {
		a := t.a
		s, _ := a.Socket(syscall.AF_INET, syscall.SOCK_STREAM, 0)
		t.own(s)
		fl, err := a.fcntl(s, unix.F_GETFL, 0)
		t.logf("blocking socket: O_NONBLOCK=%v %s", fl&unix.O_NONBLOCK != 0, es(err))
		t.logf("SetNonblock(true): %s", es(a.SetNonblock(s, true)))
		fl, err = a.fcntl(s, unix.F_GETFL, 0)
		t.logf("O_NONBLOCK=%v %s", fl&unix.O_NONBLOCK != 0, es(err))
		t.logf("SetNonblock(false): %s", es(a.SetNonblock(s, false)))
		fl, err = a.fcntl(s, unix.F_GETFL, 0)
		t.logf("O_NONBLOCK=%v %s", fl&unix.O_NONBLOCK != 0, es(err))
		s2, _ := a.Socket(syscall.AF_INET, syscall.SOCK_DGRAM|syscall.SOCK_NONBLOCK, 0)
		t.own(s2)
		fl, err = a.fcntl(s2, unix.F_GETFL, 0)
		t.logf("SOCK_NONBLOCK at creation: O_NONBLOCK=%v %s", fl&unix.O_NONBLOCK != 0, es(err))
		_, err = a.fcntl(987, unix.F_GETFL, 0)
		t.logf("never-opened number: %s", es(err))
		ln := t.tcpListener()
		sa, _ := a.Getsockname(ln)
		c, _ := a.Socket(syscall.AF_INET, syscall.SOCK_STREAM|syscall.SOCK_NONBLOCK, 0)
		t.own(c)
		a.Connect(c, sa4(lo, portOf(sa)))
		a.settle()
		sv, _, _ := a.Accept4(ln, 0)
		t.own(sv)
		fl, _ = a.fcntl(sv, unix.F_GETFL, 0)
		t.logf("accept4 without SOCK_NONBLOCK from a non-blocking listener: O_NONBLOCK=%v", fl&unix.O_NONBLOCK != 0)
	}
	scripts["fifo/open-and-hangup"] = func(t *tr) {
		a := t.a
		path := t.fifo()
		_, err := a.Open(path, syscall.O_WRONLY|syscall.O_NONBLOCK, 0)
		t.logf("open for writing, no reader: %s", es(err))
		r, err := a.Open(path, syscall.O_RDONLY|syscall.O_NONBLOCK, 0)
		t.logf("open for reading, no writer: %s", es(err))
		t.own(r)
		t.logf("no writer yet: r/IN->%s", t.mask(r, in))
		t.read("no writer yet", r, 10)
		w, err := a.Open(path, syscall.O_WRONLY|syscall.O_NONBLOCK, 0)
		t.logf("open for writing: %s", es(err))
		t.own(w)
		t.logf("writer open: r/IN->%s w/OUT->%s", t.mask(r, in), t.mask(w, out))
		t.read("writer open, empty", r, 10)
		t.write("w", w, []byte("abc"))
		t.logf("data: r/IN->%s", t.mask(r, in))
		a.Close(w)
		t.logf("data, writer closed: r/IN->%s", t.mask(r, in))
		t.read("data", r, 10)
		t.logf("writer closed: r/IN->%s", t.mask(r, in))
		t.read("eof", r, 10)
		w2, err := a.Open(path, syscall.O_WRONLY|syscall.O_NONBLOCK, 0)
		t.logf("a second writer opens: %s", es(err))
		t.own(w2)
		t.logf("second writer open: r/IN->%s", t.mask(r, in))
		t.read("second writer open, empty", r, 10)
		t.write("w2", w2, []byte("xy"))
		t.read("second writer's data", r, 10)
		a.Close(r)
		t.logf("reader closed: w/OUT->%s", t.mask(w2, out))
		t.write("reader closed", w2, []byte("z"))
	}
	scripts["udp/connected"] = func(t *tr) {
		a := t.a
		r := t.udpSock(lo, 0, false)
		rn, _ := a.Getsockname(r)
		s, _ := a.Socket(syscall.AF_INET, syscall.SOCK_DGRAM|syscall.SOCK_NONBLOCK, 0)
		t.own(s)
		t.logf("connect: %s", es(a.Connect(s, sa4(lo, portOf(rn)))))
		sn, _ := a.Getsockname(s)
		t.logf("name after connect: %s", saStr(sn, true))
		t.write("write on a connected socket", s, []byte("hello"))
		a.settle()
		b := make([]byte, 10)
		k, from, err := a.Recvfrom(r, b, 0)
		t.logf("receiver: %d %s %q from-the-connected-socket:%v", k, es(err), b[:k], saStr(from, false) == saStr(sn, false))
		// only the connected peer may answer
		other := t.udpSock(lo, 0, false)
		a.Sendto(other, []byte("stranger"), 0, sa4(lo, portOf(sn)))
		a.Sendto(r, []byte("peer"), 0, sa4(lo, portOf(sn)))
		a.settle()
		t.recv("connected socket", s, 20)
		t.recv("connected socket", s, 20)
		t.logf("sendto with a nil address on a connected socket: %s", es(a.Sendto(s, []byte("x"), 0, nil)))
		a.settle()
		t.recv("receiver", r, 10)
	}
	scripts["eventfd/as-waker"] = func(t *tr) {
		a := t.a
		r1, _, _ := a.Syscall(syscall.SYS_EVENTFD2, 0, uintptr(syscall.O_NONBLOCK), 0)
		fd := t.own(int(r1))
		ep, _ := a.EpollCreate1(0)
		t.own(ep)
		a.EpollCtl(ep, syscall.EPOLL_CTL_ADD, fd, &syscall.EpollEvent{Events: in, Fd: 42})
		evs := make([]syscall.EpollEvent, 4)
		n, err := a.EpollWait(ep, evs, 0)
		t.logf("zero: %d %s", n, es(err))
		one := []byte{1, 0, 0, 0, 0, 0, 0, 0}
		a.Write(fd, one)
		a.Write(fd, one)
		n, err = a.EpollWait(ep, evs, 0)
		t.logf("two wake-ups: %d %s tag=%d %s", n, es(err), evs[0].Fd, maskStr(evs[0].Events))
		b := make([]byte, 8)
		k, err := a.Read(fd, b)
		t.logf("one read drains both: %d %s %v", k, es(err), b)
		k, err = a.Read(fd, b)
		t.logf("second read: %d %s", k, es(err))
		n, err = a.EpollWait(ep, evs, 0)
		t.logf("drained: %d %s", n, es(err))
		r2, _, e := a.Syscall(syscall.SYS_EVENTFD2, 3, 0x12345, 0)
		t.logf("eventfd2 with invalid flags: %d %s", int(r2), errnoOrOK(e))
		r3, _, _ := a.Syscall(syscall.SYS_EVENTFD2, 3, uintptr(syscall.O_NONBLOCK), 0)
		fd3 := t.own(int(r3))
		k, err = a.Read(fd3, b)
		t.logf("initial value 3: %d %s %v", k, es(err), b)
		mx := []byte{0xff, 0xff, 0xff, 0xff, 0xff, 0xff, 0xff, 0xff}
		t.write("write 2^64-1", fd3, mx)
		mx[0] = 0xfe
		t.write("write 2^64-2", fd3, mx)
		t.logf("counter at maximum: IN->%s OUT->%s", t.mask(fd3, in), t.mask(fd3, out))
		t.write("write 1 at maximum", fd3, one)
	}
	scripts["tcp/misc"] = func(t *tr) {
		a := t.a
		_, cl, sv := t.tcpPair()
		t.write("zero-length write", cl, nil)
		t.read("zero-length read, nothing queued", cl, 0)
		// both directions at once
		a.Write(cl, []byte("ping"))
		a.Write(sv, []byte("pong"))
		a.settle()
		t.read("sv", sv, 10)
		t.read("cl", cl, 10)
		// a megabyte arrives intact and in order
		big := make([]byte, 1<<20)
		for i := range big {
			big[i] = byte(i*7 + i>>8)
		}
		var got []byte
		sent := 0
		b := make([]byte, 1<<16)
		for i := 0; i < 100000 && len(got) < len(big); i++ {
			if sent < len(big) {
				if k, err := a.Write(cl, big[sent:]); err == nil {
					sent += k
				}
			}
			a.settle()
			for {
				k, err := a.Read(sv, b)
				if err != nil || k == 0 {
					break
				}
				got = append(got, b[:k]...)
			}
		}
		t.logf("1 MiB through a connection: sent all:%v received identical:%v", sent == len(big), bytes.Equal(got, big))
		pn, err := a.Getsockname(sv)
		t.logf("accepted end name: %s %s", saStr(pn, true), es(err))
		t.logf("read after own close: %s", func() string { a.Close(cl); _, e := a.Read(cl, b); return es(e) }())
	}
	scripts["mcast/bound-to-group-and-drop-any"] = func(t *tr) {
		a := t.a
		g := [4]byte{239, 1, 2, 3}
		g2 := [4]byte{239, 1, 2, 4}
		any := t.udpSock([4]byte{}, 0, true)
		an, _ := a.Getsockname(any)
		port := portOf(an)
		gb := t.udpSock(g, port, true)
		for _, s := range []int{any, gb} {
			for _, grp := range [][4]byte{g, g2} {
				t.logf("join %v: %s", grp, es(a.SetsockoptIPMreq(s, syscall.IPPROTO_IP, syscall.IP_ADD_MEMBERSHIP, &syscall.IPMreq{Multiaddr: grp, Interface: lo})))
			}
		}
		s := t.udpSock(lo, 0, false)
		a.SetsockoptInet4Addr(s, syscall.IPPROTO_IP, syscall.IP_MULTICAST_IF, lo)
		a.Sendto(s, []byte("to g"), 0, sa4(g, port))
		a.Sendto(s, []byte("to g2"), 0, sa4(g2, port))
		a.settle()
		t.recv("bound to INADDR_ANY", any, 20)
		t.recv("bound to INADDR_ANY", any, 20)
		t.recv("bound to g", gb, 20)
		t.recv("bound to g", gb, 20)
		t.logf("drop with interface 0.0.0.0: %s", es(a.SetsockoptIPMreq(any, syscall.IPPROTO_IP, syscall.IP_DROP_MEMBERSHIP, &syscall.IPMreq{Multiaddr: g})))
		a.Sendto(s, []byte("after drop"), 0, sa4(g, port))
		a.settle()
		t.recv("dropped (but ALL=1 and gb is still a member)", any, 20)
		t.logf("ALL 0: %s", es(a.SetsockoptInt(any, syscall.IPPROTO_IP, unix.IP_MULTICAST_ALL, 0)))
		a.Sendto(s, []byte("strict"), 0, sa4(g, port))
		a.settle()
		t.recv("dropped, ALL=0", any, 20)
		t.recv("gb", gb, 20)
		t.recv("gb", gb, 20)
		a.Close(gb)
		a.Sendto(s, []byte("member closed"), 0, sa4(g2, port))
		a.settle()
		t.recv("any is still a member of g2", any, 20)
	}
}

// limitDescriptors makes further descriptor allocations fail soon; restore undoes it.
func (t *tr) limitDescriptors() (restore func()) {
	if t.a.sim {
		old := t.a.w.K.FdLimit
		t.a.w.K.FdLimit = 48
		return func() { t.a.w.K.FdLimit = old }
	}
	var rl syscall.Rlimit
	syscall.Getrlimit(syscall.RLIMIT_NOFILE, &rl)
	old := rl
	rl.Cur = 96
	syscall.Setrlimit(syscall.RLIMIT_NOFILE, &rl)
	return func() { syscall.Setrlimit(syscall.RLIMIT_NOFILE, &old) }
}

func init() {
	scripts["emfile/at-the-descriptor-limit"] = func(t *tr) {
		a := t.a
		ln := t.tcpListener()
		sa, _ := a.Getsockname(ln)
		cl, _ := a.Socket(syscall.AF_INET, syscall.SOCK_STREAM|syscall.SOCK_NONBLOCK, 0)
		t.own(cl)
		a.Connect(cl, sa4(lo, portOf(sa)))
		a.settle()
		path := t.file([]byte("x"))
		t.spareEp, _ = a.EpollCreate1(0)
		t.own(t.spareEp)
		restore := t.limitDescriptors()
		defer restore()
		var fill []int
		for i := 0; i < 200; i++ {
			r1, _, e := a.Syscall(syscall.SYS_EVENTFD2, 0, uintptr(syscall.O_NONBLOCK), 0)
			if e != 0 {
				t.logf("eventfd at the limit: %s", errnoName(e))
				break
			}
			fill = append(fill, t.own(int(r1)))
		}
		t.logf("filled some: %v", len(fill) > 3)
		_, err := a.Socket(syscall.AF_INET, syscall.SOCK_STREAM, 0)
		t.logf("socket: %s", es(err))
		p := make([]int, 2)
		t.logf("pipe2: %s", es(a.Pipe2(p, 0)))
		_, err = a.EpollCreate1(0)
		t.logf("epoll_create1: %s", es(err))
		_, err = a.TimerfdCreate(unix.CLOCK_MONOTONIC, 0)
		t.logf("timerfd_create: %s", es(err))
		_, err = a.Open(path, syscall.O_RDONLY, 0)
		t.logf("open: %s", es(err))
		_, _, err = a.Accept4(ln, syscall.SOCK_NONBLOCK)
		t.logf("accept4 with a connection queued: %s", es(err))
		t.logf("listener still readable: IN->%s", t.maskNoFd(ln))
		// one slot free: pipe2 needs two and must not leak the one it got
		a.Close(fill[len(fill)-1])
		t.logf("one free, pipe2: %s", es(a.Pipe2(p, 0)))
		s, err := a.Socket(syscall.AF_INET, syscall.SOCK_STREAM, 0)
		t.logf("one free, socket: %s", es(err))
		a.Close(s)
		sv, _, err := a.Accept4(ln, syscall.SOCK_NONBLOCK)
		t.logf("one free, accept4: %s", es(err))
		t.own(sv)
		_, _, err = a.Accept4(ln, syscall.SOCK_NONBLOCK)
		t.logf("queue now empty: %s", es(err))
	}
}

func init() {
	scripts["udp/connected-port-unreachable"] = func(t *tr) {
		a := t.a
		x := t.udpSock(lo, 0, false)
		xn, _ := a.Getsockname(x)
		a.Close(x) // nobody listens on that port any more
		s, _ := a.Socket(syscall.AF_INET, syscall.SOCK_DGRAM|syscall.SOCK_NONBLOCK, 0)
		t.own(s)
		t.logf("connect: %s", es(a.Connect(s, sa4(lo, portOf(xn)))))
		t.masks("connected, idle", s)
		t.write("send to the closed port", s, []byte("ping"))
		a.settle()
		t.masks("after the port-unreachable came back", s)
		t.logf("IN interest only: %s; OUT interest only: %s", t.mask(s, in), t.mask(s, out))
		t.recv("recv", s, 10)
		t.masks("error consumed", s)
		t.recv("recv again", s, 10)
		t.write("send again", s, []byte("ping"))
		a.settle()
		t.write("send with the error pending", s, []byte("ping"))
		t.masks("after that", s)
		v, err := a.GetsockoptInt(s, syscall.SOL_SOCKET, syscall.SO_ERROR)
		t.logf("SO_ERROR: %s %s", errnoName(syscall.Errno(v)), es(err))
		t.write("send", s, []byte("ping"))
		a.settle()
		t.read("read(2) reports it too", s, 10)
	}
}
