package kconf

import (
	"net"
	"syscall"

	"golang.org/x/sys/unix"

	"sonicverif/sim"
)

// Scripts that need two multicast-capable interfaces besides loopback. The
// stub kernel always has them (eth0 10.0.0.2, eth1 10.0.1.2; remote hosts
// 10.0.0.7 behind eth0 and 10.0.1.7 behind eth1). On the live kernel
// tools/kconf.sh builds the same topology in a private network namespace:
// veth pairs eth0<->rem0 and eth1<->rem1, the rem ends carry the remote hosts'
// addresses and accept_local lets their frames in. Outside that namespace the
// scripts log nothing on either side.

var (
	eth0IP = [4]byte{10, 0, 0, 2}
	eth1IP = [4]byte{10, 0, 1, 2}
	rem0IP = [4]byte{10, 0, 0, 7}
	rem1IP = [4]byte{10, 0, 1, 7}
)

var twoIfaces = func() bool {
	a, e1 := net.InterfaceByName("eth0")
	b, e2 := net.InterfaceByName("rem1")
	return e1 == nil && e2 == nil && a != nil && b != nil
}()

// remote: a host behind the named interface sends one datagram to group:port.
func (t *tr) remote(ifname string, group [4]byte, port int, payload string) {
	a := t.a
	src := rem0IP
	if ifname == "eth1" {
		src = rem1IP
	}
	if a.sim {
		t.nextID++
		a.w.K.ActorUDPSend(sim.Dgram{ID: 1000 + t.nextID, Data: []byte(payload), SrcIP: src, SrcPort: 30000, DstIP: group, DstPort: port}, ifname)
		a.settle()
		return
	}
	if t.rem == nil {
		t.rem = map[string]int{}
	}
	s, ok := t.rem[ifname]
	if !ok {
		s = t.udpSock(src, 0, false)
		a.SetsockoptInet4Addr(s, syscall.IPPROTO_IP, syscall.IP_MULTICAST_IF, src)
		a.SetsockoptInt(s, syscall.IPPROTO_IP, syscall.IP_MULTICAST_LOOP, 0)
		a.SetsockoptInt(s, syscall.IPPROTO_IP, syscall.IP_MULTICAST_TTL, 4)
		t.rem[ifname] = s
	}
	if err := a.Sendto(s, []byte(payload), 0, sa4(group, port)); err != nil {
		t.logf("remote send failed: %s", es(err))
	}
	a.settle()
}

func (t *tr) recvFrom(what string, s int) {
	b := make([]byte, 100)
	k, from, err := t.a.Recvfrom(s, b, 0)
	if err != nil {
		t.logf("%s: %s", what, es(err))
		return
	}
	ip := from.(*syscall.SockaddrInet4).Addr
	t.logf("%s: %q from %d.%d.%d.%d", what, b[:k], ip[0], ip[1], ip[2], ip[3])
}

func init() {
	g := [4]byte{239, 1, 2, 3}
	g2 := [4]byte{239, 1, 2, 4}
	join := func(t *tr, s int, grp, ifaddr [4]byte) error {
		return t.a.SetsockoptIPMreq(s, syscall.IPPROTO_IP, syscall.IP_ADD_MEMBERSHIP, &syscall.IPMreq{Multiaddr: grp, Interface: ifaddr})
	}
	drop := func(t *tr, s int, grp, ifaddr [4]byte) error {
		return t.a.SetsockoptIPMreq(s, syscall.IPPROTO_IP, syscall.IP_DROP_MEMBERSHIP, &syscall.IPMreq{Multiaddr: grp, Interface: ifaddr})
	}
	strict := func(t *tr, port int) int {
		s := t.udpSock([4]byte{}, port, true)
		t.a.SetsockoptInt(s, syscall.IPPROTO_IP, unix.IP_MULTICAST_ALL, 0)
		return s
	}
	scripts["mcast2/join-on-interface"] = func(t *tr) {
		if !twoIfaces {
			return
		}
		a := t.a
		r := strict(t, 0)
		rn, _ := a.Getsockname(r)
		port := portOf(rn)
		t.logf("join g on eth1: %s", es(join(t, r, g, eth1IP)))
		t.remote("eth0", g, port, "g via eth0")
		t.recvFrom("joined on eth1, arrives on eth0", r)
		t.remote("eth1", g, port, "g via eth1")
		t.recvFrom("joined on eth1, arrives on eth1", r)
		t.logf("join g2 on the default interface: %s", es(join(t, r, g2, [4]byte{})))
		t.remote("eth1", g2, port, "g2 via eth1")
		t.recvFrom("joined on the default, arrives on eth1", r)
		t.remote("eth0", g2, port, "g2 via eth0")
		t.recvFrom("joined on the default, arrives on eth0", r)
		t.logf("join g on eth0 as well: %s", es(join(t, r, g, eth0IP)))
		t.remote("eth0", g, port, "g via eth0 again")
		t.recvFrom("joined on both", r)
		t.logf("join g on eth0 twice: %s", es(join(t, r, g, eth0IP)))
	}
	scripts["mcast2/leave-resolution"] = func(t *tr) {
		if !twoIfaces {
			return
		}
		a := t.a
		r := strict(t, 0)
		rn, _ := a.Getsockname(r)
		port := portOf(rn)
		t.logf("join g on eth1: %s", es(join(t, r, g, eth1IP)))
		t.logf("drop g with interface 0.0.0.0: %s", es(drop(t, r, g, [4]byte{})))
		t.logf("drop g naming eth0: %s", es(drop(t, r, g, eth0IP)))
		t.remote("eth1", g, port, "still a member")
		t.recvFrom("after the failed drops", r)
		t.logf("drop g naming eth1: %s", es(drop(t, r, g, eth1IP)))
		t.remote("eth1", g, port, "left")
		t.recvFrom("after the drop", r)
		t.logf("join g2 on the default: %s", es(join(t, r, g2, [4]byte{})))
		t.logf("drop g2 naming eth1: %s", es(drop(t, r, g2, eth1IP)))
		t.logf("drop g2 naming eth0 (the default device): %s", es(drop(t, r, g2, eth0IP)))
		t.logf("join g2 on eth0: %s", es(join(t, r, g2, eth0IP)))
		t.logf("drop g2 with 0.0.0.0: %s", es(drop(t, r, g2, [4]byte{})))
		// source operations need the membership's interface too
		t.logf("join g on eth1: %s", es(join(t, r, g, eth1IP)))
		t.logf("block with interface 0.0.0.0: %s", es(t.mreqSource(r, syscall.IP_BLOCK_SOURCE, g, [4]byte{}, rem1IP)))
		t.logf("block naming eth1: %s", es(t.mreqSource(r, syscall.IP_BLOCK_SOURCE, g, eth1IP, rem1IP)))
		t.remote("eth1", g, port, "blocked")
		t.recvFrom("blocked", r)
		t.logf("unblock with interface 0.0.0.0: %s", es(t.mreqSource(r, syscall.IP_UNBLOCK_SOURCE, g, [4]byte{}, rem1IP)))
		t.logf("unblock naming eth1: %s", es(t.mreqSource(r, syscall.IP_UNBLOCK_SOURCE, g, eth1IP, rem1IP)))
		t.remote("eth1", g, port, "unblocked")
		t.recvFrom("unblocked", r)
	}
	scripts["mcast2/multicast-all-across-interfaces"] = func(t *tr) {
		if !twoIfaces {
			return
		}
		a := t.a
		member := strict(t, 0)
		mn, _ := a.Getsockname(member)
		port := portOf(mn)
		loose := t.udpSock([4]byte{}, port, true) // IP_MULTICAST_ALL=1, never joins
		elsewhere := t.udpSock([4]byte{}, port, true)
		t.logf("member joins g on eth0: %s", es(join(t, member, g, eth0IP)))
		t.logf("elsewhere (ALL=1) joins g on eth1: %s", es(join(t, elsewhere, g, eth1IP)))
		t.remote("eth0", g, port, "on eth0")
		t.recvFrom("member (eth0)", member)
		t.recvFrom("loose (ALL=1, no membership)", loose)
		t.recvFrom("elsewhere (ALL=1, member on eth1 only)", elsewhere)
		t.logf("elsewhere ALL 0: %s", es(a.SetsockoptInt(elsewhere, syscall.IPPROTO_IP, unix.IP_MULTICAST_ALL, 0)))
		t.remote("eth0", g, port, "on eth0, second")
		t.recvFrom("member", member)
		t.recvFrom("loose", loose)
		t.recvFrom("elsewhere (ALL=0, member on eth1 only)", elsewhere)
		t.remote("eth1", g, port, "on eth1")
		t.recvFrom("member (eth0 only, ALL=0)", member)
		t.recvFrom("loose", loose)
		t.recvFrom("elsewhere", elsewhere)
		t.logf("member leaves: %s", es(drop(t, member, g, eth0IP)))
		t.remote("eth0", g, port, "nobody on eth0")
		t.recvFrom("member", member)
		t.recvFrom("loose (host no longer joined on eth0)", loose)
	}
	scripts["mcast2/source-specific-on-interface"] = func(t *tr) {
		if !twoIfaces {
			return
		}
		a := t.a
		r := strict(t, 0)
		rn, _ := a.Getsockname(r)
		port := portOf(rn)
		t.logf("join g from 10.0.1.7 on eth1: %s", es(t.mreqSource(r, syscall.IP_ADD_SOURCE_MEMBERSHIP, g, eth1IP, rem1IP)))
		t.remote("eth1", g, port, "from the listed source")
		t.recvFrom("listed source", r)
		t.logf("same group, source 10.0.0.7, on eth0: %s", es(t.mreqSource(r, syscall.IP_ADD_SOURCE_MEMBERSHIP, g, eth0IP, rem0IP)))
		t.remote("eth0", g, port, "second membership")
		t.recvFrom("second membership", r)
		t.logf("drop source on eth1 with interface 0.0.0.0: %s", es(t.mreqSource(r, syscall.IP_DROP_SOURCE_MEMBERSHIP, g, [4]byte{}, rem1IP)))
		t.logf("drop source on eth1 naming it: %s", es(t.mreqSource(r, syscall.IP_DROP_SOURCE_MEMBERSHIP, g, eth1IP, rem1IP)))
		t.remote("eth1", g, port, "dropped")
		t.recvFrom("dropped", r)
		t.remote("eth0", g, port, "eth0 membership intact")
		t.recvFrom("eth0 membership intact", r)
	}
	scripts["mcast2/outbound-interface"] = func(t *tr) {
		if !twoIfaces {
			return
		}
		a := t.a
		on0 := strict(t, 0)
		n, _ := a.Getsockname(on0)
		port := portOf(n)
		on1 := strict(t, port)
		t.logf("on0 joins g on eth0: %s", es(join(t, on0, g, eth0IP)))
		t.logf("on1 joins g on eth1: %s", es(join(t, on1, g, eth1IP)))
		s := t.udpSock([4]byte{}, 0, false)
		t.logf("send with the default outbound interface: %s", es(a.Sendto(s, []byte("default"), 0, sa4(g, port))))
		a.settle()
		t.recvFrom("on0", on0)
		t.recvFrom("on1", on1)
		t.logf("IP_MULTICAST_IF eth1: %s", es(a.SetsockoptInet4Addr(s, syscall.IPPROTO_IP, syscall.IP_MULTICAST_IF, eth1IP)))
		t.logf("send: %s", es(a.Sendto(s, []byte("via eth1"), 0, sa4(g, port))))
		a.settle()
		t.recvFrom("on0", on0)
		t.recvFrom("on1", on1)
		t.logf("LOOP 0: %s", es(a.SetsockoptInt(s, syscall.IPPROTO_IP, syscall.IP_MULTICAST_LOOP, 0)))
		t.logf("send: %s", es(a.Sendto(s, []byte("no loop"), 0, sa4(g, port))))
		a.settle()
		t.recvFrom("on1, sender's loop off", on1)
		b := t.udpSock(eth1IP, 0, false)
		t.logf("a socket bound to eth1's address sends (no IP_MULTICAST_IF): %s", es(a.Sendto(b, []byte("bound to eth1"), 0, sa4(g, port))))
		a.settle()
		t.recvFrom("on0", on0)
		t.recvFrom("on1", on1)
	}
	scripts["mcast2/bind-to-device"] = func(t *tr) {
		if !twoIfaces {
			return
		}
		a := t.a
		r := strict(t, 0)
		rn, _ := a.Getsockname(r)
		port := portOf(rn)
		t.logf("SO_BINDTODEVICE eth1: %s", es(t.bindToDevice(r, "eth1")))
		t.logf("join g on eth0: %s", es(join(t, r, g, eth0IP)))
		t.logf("join g on eth1: %s", es(join(t, r, g, eth1IP)))
		t.remote("eth0", g, port, "on eth0")
		t.recvFrom("bound to eth1, arrives on eth0", r)
		t.remote("eth1", g, port, "on eth1")
		t.recvFrom("bound to eth1, arrives on eth1", r)
	}
}
