// Package kconf is the differential conformance suite of the simulated kernel
// (DESIGN.md §4.3): the same call scripts run against the live kernel (package
// syscall / x/sys/unix) and against the stub kernel through the very shims the
// rewritten sonic sources call (sonicverif/shim/syscall, shim/unix) in a
// fault-free world (all-zero choice tape), and the observation logs must be
// identical line by line.
package kconf

import (
	"fmt"
	"os"
	"sort"
	"strings"
	"syscall"
	"time"
	"unsafe"

	"golang.org/x/sys/unix"

	shimsys "sonicverif/shim/syscall"
	shimunix "sonicverif/shim/unix"
	"sonicverif/sim"
)

type api struct {
	sim bool
	w   *sim.World

	Close               func(int) error
	Read, Write         func(int, []byte) (int, error)
	Pipe2               func([]int, int) error
	Open                func(string, int, uint32) (int, error)
	Seek                func(int, int64, int) (int64, error)
	Socket              func(int, int, int) (int, error)
	Bind, Connect       func(int, syscall.Sockaddr) error
	Listen              func(int, int) error
	Accept4             func(int, int) (int, syscall.Sockaddr, error)
	Getsockname         func(int) (syscall.Sockaddr, error)
	Recvfrom            func(int, []byte, int) (int, syscall.Sockaddr, error)
	Sendto              func(int, []byte, int, syscall.Sockaddr) error
	Shutdown            func(int, int) error
	SetsockoptInt       func(int, int, int, int) error
	GetsockoptInt       func(int, int, int) (int, error)
	SetsockoptIPMreq    func(int, int, int, *syscall.IPMreq) error
	SetsockoptInet4Addr func(int, int, int, [4]byte) error
	GetsockoptInet4Addr func(int, int, int) ([4]byte, error)
	EpollCreate1        func(int) (int, error)
	EpollCtl            func(int, int, int, *syscall.EpollEvent) error
	EpollWait           func(int, []syscall.EpollEvent, int) (int, error)
	Syscall             func(uintptr, uintptr, uintptr, uintptr) (uintptr, uintptr, syscall.Errno)
	Syscall6            func(uintptr, uintptr, uintptr, uintptr, uintptr, uintptr, uintptr) (uintptr, uintptr, syscall.Errno)
	TimerfdCreate       func(int, int) (int, error)
	TimerfdSettime      func(int, int, *unix.ItimerSpec, *unix.ItimerSpec) error
	SetNonblock         func(int, bool) error
}

func realAPI() *api {
	return &api{
		Close: syscall.Close, Read: syscall.Read, Write: syscall.Write, Pipe2: syscall.Pipe2, Open: syscall.Open, Seek: syscall.Seek,
		Socket: syscall.Socket, Bind: syscall.Bind, Connect: syscall.Connect, Listen: syscall.Listen, Accept4: syscall.Accept4,
		Getsockname: syscall.Getsockname, Recvfrom: syscall.Recvfrom, Sendto: syscall.Sendto, Shutdown: syscall.Shutdown,
		SetsockoptInt: syscall.SetsockoptInt, GetsockoptInt: syscall.GetsockoptInt, SetsockoptIPMreq: syscall.SetsockoptIPMreq,
		SetsockoptInet4Addr: syscall.SetsockoptInet4Addr, GetsockoptInet4Addr: syscall.GetsockoptInet4Addr,
		EpollCreate1: syscall.EpollCreate1, EpollCtl: syscall.EpollCtl, EpollWait: syscall.EpollWait,
		Syscall: syscall.Syscall, Syscall6: syscall.Syscall6,
		TimerfdCreate: unix.TimerfdCreate, TimerfdSettime: unix.TimerfdSettime, SetNonblock: syscall.SetNonblock,
	}
}

func simAPI(w *sim.World) *api {
	return &api{
		sim: true, w: w,
		Close: shimsys.Close, Read: shimsys.Read, Write: shimsys.Write, Pipe2: shimsys.Pipe2, Open: shimsys.Open, Seek: shimsys.Seek,
		Socket: shimsys.Socket, Bind: shimsys.Bind, Connect: shimsys.Connect, Listen: shimsys.Listen, Accept4: shimsys.Accept4,
		Getsockname: shimsys.Getsockname, Recvfrom: shimsys.Recvfrom, Sendto: shimsys.Sendto, Shutdown: shimsys.Shutdown,
		SetsockoptInt: shimsys.SetsockoptInt, GetsockoptInt: shimsys.GetsockoptInt, SetsockoptIPMreq: shimsys.SetsockoptIPMreq,
		SetsockoptInet4Addr: shimsys.SetsockoptInet4Addr, GetsockoptInet4Addr: shimsys.GetsockoptInet4Addr,
		EpollCreate1: shimsys.EpollCreate1, EpollCtl: shimsys.EpollCtl, EpollWait: shimsys.EpollWait,
		Syscall: shimsys.Syscall, Syscall6: shimsys.Syscall6,
		TimerfdCreate: shimunix.TimerfdCreate, TimerfdSettime: shimunix.TimerfdSettime, SetNonblock: shimsys.SetNonblock,
	}
}

// settle: let the network deliver what is in flight (loopback on the live
// kernel delivers in the sender's context; a short sleep covers softirq lag).
func (a *api) settle() {
	if a.sim {
		a.w.Drain(1_000_000_000)
		return
	}
	time.Sleep(3 * time.Millisecond)
}

func (a *api) sleepMs(ms int) {
	if a.sim {
		a.w.Advance(int64(ms) * 1_000_000)
		return
	}
	time.Sleep(time.Duration(ms) * time.Millisecond)
}

// ---------------------------------------------------------------------------

type tr struct {
	a     *api
	lines []string
	fds   []int
	tmp   []string
	rem   map[string]int
	spareEp int
	nextID int
}

func (t *tr) logf(f string, args ...any) { t.lines = append(t.lines, fmt.Sprintf(f, args...)) }

func (t *tr) own(fd int) int {
	if fd >= 0 {
		t.fds = append(t.fds, fd)
	}
	return fd
}

func (t *tr) cleanup() {
	for _, fd := range t.fds {
		_ = t.a.Close(fd)
	}
	for _, p := range t.tmp {
		os.Remove(p)
	}
}

func es(err error) string {
	if err == nil {
		return "ok"
	}
	if e, ok := err.(syscall.Errno); ok {
		return errnoName(e)
	}
	return err.Error()
}

func errnoName(e syscall.Errno) string {
	names := map[syscall.Errno]string{
		syscall.EAGAIN: "EAGAIN", syscall.EBADF: "EBADF", syscall.EEXIST: "EEXIST", syscall.ENOENT: "ENOENT", syscall.EPERM: "EPERM",
		syscall.EINVAL: "EINVAL", syscall.EPIPE: "EPIPE", syscall.ECONNRESET: "ECONNRESET", syscall.ECONNREFUSED: "ECONNREFUSED",
		syscall.EINPROGRESS: "EINPROGRESS", syscall.EADDRINUSE: "EADDRINUSE", syscall.EADDRNOTAVAIL: "EADDRNOTAVAIL", syscall.ENOTCONN: "ENOTCONN",
		syscall.EISCONN: "EISCONN", syscall.EALREADY: "EALREADY", syscall.ENOTSOCK: "ENOTSOCK", syscall.EOPNOTSUPP: "EOPNOTSUPP",
		syscall.ENOPROTOOPT: "ENOPROTOOPT", syscall.EMFILE: "EMFILE", syscall.ENODEV: "ENODEV", syscall.EDESTADDRREQ: "EDESTADDRREQ",
		syscall.EMSGSIZE: "EMSGSIZE", syscall.ENOBUFS: "ENOBUFS", syscall.ESPIPE: "ESPIPE", syscall.EFAULT: "EFAULT", syscall.ENETUNREACH: "ENETUNREACH",
		syscall.EINTR: "EINTR", syscall.EACCES: "EACCES",
	}
	if n, ok := names[e]; ok {
		return n
	}
	return fmt.Sprintf("errno(%d)", int(e))
}

func maskStr(m uint32) string {
	if m == 0 {
		return "none"
	}
	var s []string
	for _, b := range []struct {
		bit  uint32
		name string
	}{{syscall.EPOLLIN, "IN"}, {syscall.EPOLLOUT, "OUT"}, {syscall.EPOLLERR, "ERR"}, {syscall.EPOLLHUP, "HUP"}, {syscall.EPOLLRDHUP, "RDHUP"}, {syscall.EPOLLPRI, "PRI"}} {
		if m&b.bit != 0 {
			s = append(s, b.name)
			m &^= b.bit
		}
	}
	if m != 0 {
		s = append(s, fmt.Sprintf("%#x", m))
	}
	return strings.Join(s, "|")
}

// mask: what a fresh level-triggered epoll instance reports for fd registered
// with the given interest.
func (t *tr) mask(fd int, interest uint32) string {
	a := t.a
	ep, err := a.EpollCreate1(0)
	if err != nil {
		return "epoll_create1:" + es(err)
	}
	defer a.Close(ep)
	ev := &syscall.EpollEvent{Events: interest, Fd: int32(fd)}
	if err := a.EpollCtl(ep, syscall.EPOLL_CTL_ADD, fd, ev); err != nil {
		return "ctl:" + es(err)
	}
	evs := make([]syscall.EpollEvent, 4)
	n, err := a.EpollWait(ep, evs, 0)
	if err != nil {
		return "wait:" + es(err)
	}
	if n == 0 {
		return "none"
	}
	return maskStr(evs[0].Events)
}

func (t *tr) masks(what string, fd int) {
	t.logf("%s: IN->%s OUT->%s IN|OUT->%s", what, t.mask(fd, syscall.EPOLLIN), t.mask(fd, syscall.EPOLLOUT), t.mask(fd, syscall.EPOLLIN|syscall.EPOLLOUT))
}

func (t *tr) read(what string, fd int, n int) []byte {
	b := make([]byte, n)
	k, err := t.a.Read(fd, b)
	if k > 0 {
		t.logf("%s: read(%d) -> %d %s %q", what, n, k, es(err), b[:k])
		return b[:k]
	}
	t.logf("%s: read(%d) -> %d %s", what, n, k, es(err))
	return nil
}

func (t *tr) write(what string, fd int, p []byte) int {
	k, err := t.a.Write(fd, p)
	t.logf("%s: write(%d) -> %d %s", what, len(p), k, es(err))
	return k
}

func sa4(ip [4]byte, port int) *syscall.SockaddrInet4 { return &syscall.SockaddrInet4{Addr: ip, Port: port} }

func saStr(sa syscall.Sockaddr, hidePort bool) string {
	switch v := sa.(type) {
	case *syscall.SockaddrInet4:
		if hidePort {
			p := "0"
			if v.Port != 0 {
				p = "nonzero"
			}
			return fmt.Sprintf("%d.%d.%d.%d:%s", v.Addr[0], v.Addr[1], v.Addr[2], v.Addr[3], p)
		}
		return fmt.Sprintf("%d.%d.%d.%d:%d", v.Addr[0], v.Addr[1], v.Addr[2], v.Addr[3], v.Port)
	case nil:
		return "nil"
	}
	return fmt.Sprintf("%T", sa)
}

func portOf(sa syscall.Sockaddr) int {
	if v, ok := sa.(*syscall.SockaddrInet4); ok {
		return v.Port
	}
	return 0
}

var lo = [4]byte{127, 0, 0, 1}

// tcpPair: a listener on an ephemeral loopback port, a non-blocking client
// connected to it and the accepted server end (all non-blocking).
func (t *tr) tcpPair() (ln, cl, sv int) {
	a := t.a
	ln = t.tcpListener()
	sa, _ := a.Getsockname(ln)
	cl, _ = a.Socket(syscall.AF_INET, syscall.SOCK_STREAM|syscall.SOCK_NONBLOCK, 0)
	t.own(cl)
	err := a.Connect(cl, sa4(lo, portOf(sa)))
	if err != nil && err != syscall.EINPROGRESS {
		t.logf("tcpPair: connect %s", es(err))
	}
	a.settle()
	sv, _, err = a.Accept4(ln, syscall.SOCK_NONBLOCK)
	if err != nil {
		t.logf("tcpPair: accept %s", es(err))
	}
	t.own(sv)
	return
}

func (t *tr) tcpListener() int {
	a := t.a
	ln, err := a.Socket(syscall.AF_INET, syscall.SOCK_STREAM|syscall.SOCK_NONBLOCK, 0)
	if err != nil {
		t.logf("socket: %s", es(err))
	}
	t.own(ln)
	if err := a.Bind(ln, sa4(lo, 0)); err != nil {
		t.logf("bind: %s", es(err))
	}
	if err := a.Listen(ln, 16); err != nil {
		t.logf("listen: %s", es(err))
	}
	return ln
}

func (t *tr) udpSock(ip [4]byte, port int, reuse bool) int {
	a := t.a
	s, err := a.Socket(syscall.AF_INET, syscall.SOCK_DGRAM|syscall.SOCK_NONBLOCK, 0)
	if err != nil {
		t.logf("socket: %s", es(err))
	}
	t.own(s)
	if reuse {
		if err := a.SetsockoptInt(s, syscall.SOL_SOCKET, syscall.SO_REUSEADDR, 1); err != nil {
			t.logf("SO_REUSEADDR: %s", es(err))
		}
	}
	if err := a.Bind(s, sa4(ip, port)); err != nil {
		t.logf("bind %v:%d: %s", ip, port, es(err))
	}
	return s
}

func (t *tr) recv(what string, s int, n int) {
	b := make([]byte, n)
	k, from, err := t.a.Recvfrom(s, b, 0)
	if err != nil {
		t.logf("%s: recvfrom(%d) -> %d %s", what, n, k, es(err))
		return
	}
	t.logf("%s: recvfrom(%d) -> %d ok %q from %s", what, n, k, b[:k], saStr(from, true))
}

// mreqSource issues IP_{ADD,DROP}_SOURCE_MEMBERSHIP / IP_{UN,}BLOCK_SOURCE the
// way sonic's net/ipv4 does: a raw setsockopt with struct ip_mreq_source.
func (t *tr) mreqSource(s, opt int, group, iface, source [4]byte) error {
	type ipMreqSource struct{ Multiaddr, Interface, Sourceaddr [4]byte }
	m := &ipMreqSource{group, iface, source}
	_, _, e := t.a.Syscall6(syscall.SYS_SETSOCKOPT, uintptr(s), uintptr(syscall.IPPROTO_IP), uintptr(opt), uintptr(unsafe.Pointer(m)), unsafe.Sizeof(*m), 0)
	if e != 0 {
		return e
	}
	return nil
}

func sortedKeys(m map[string]func(*tr)) []string {
	var k []string
	for n := range m {
		k = append(k, n)
	}
	sort.Strings(k)
	return k
}

func ptr(b []byte) unsafe.Pointer { return unsafe.Pointer(&b[0]) }

// maskNoFd: readiness of fd for EPOLLIN through select-free means when no descriptor is left for a
// fresh epoll instance: a zero-length non-blocking accept/read probe is not possible for listeners, so an
// epoll instance created earlier is used.
func (t *tr) maskNoFd(fd int) string {
	if t.spareEp == 0 {
		return "no spare epoll"
	}
	a := t.a
	ev := &syscall.EpollEvent{Events: syscall.EPOLLIN, Fd: int32(fd)}
	if err := a.EpollCtl(t.spareEp, syscall.EPOLL_CTL_ADD, fd, ev); err != nil {
		return "ctl:" + es(err)
	}
	defer a.EpollCtl(t.spareEp, syscall.EPOLL_CTL_DEL, fd, ev)
	evs := make([]syscall.EpollEvent, 2)
	n, err := a.EpollWait(t.spareEp, evs, 0)
	if err != nil {
		return "wait:" + es(err)
	}
	if n == 0 {
		return "none"
	}
	return maskStr(evs[0].Events)
}
