package kconf

import (
	"errors"
	"fmt"
	"io"
	"net"
	"syscall"
	"testing"
	"time"

	shimnet "sonicverif/shim/net"
	"sonicverif/sim"
)

// The blocking net.Conn stub (DESIGN.md §4.2) against the live runtime's
// *net.TCPConn: the same scripts, identical observation logs. "hangs" means
// the call had not returned after 300 ms on the live side and was reported as
// blocked for ever by the simulator's deadlock detection on the stub side.

type ncPeer interface {
	send(p []byte)
	recvAll() []byte
	close()
	reset()
}

type ncEnv struct {
	sim  bool
	w    *sim.World
	dial func(addr string) (net.Conn, error)
	// listen returns the address and a function that yields the accepted peer
	listen func() (string, func() ncPeer)
	// deadPort: an address nobody listens on
	deadPort func() string
	settle   func()
	// hangs runs f and tells whether it failed to return
	hangs func(f func()) bool
	lines []string
}

func (e *ncEnv) logf(f string, a ...any) { e.lines = append(e.lines, fmt.Sprintf(f, a...)) }

type livePeer struct{ c net.Conn }

func (p *livePeer) send(b []byte) { p.c.Write(b) }
func (p *livePeer) recvAll() []byte {
	p.c.SetReadDeadline(time.Now().Add(50 * time.Millisecond))
	var out []byte
	b := make([]byte, 65536)
	for {
		n, err := p.c.Read(b)
		out = append(out, b[:n]...)
		if err != nil {
			return out
		}
	}
}
func (p *livePeer) close() { p.c.Close() }
func (p *livePeer) reset() {
	p.c.(*net.TCPConn).SetLinger(0)
	p.c.Close()
}

type simPeer struct {
	e  *sim.TCPEnd
	rx []byte
}

func (p *simPeer) send(b []byte)   { p.e.ActorSend(b) }
func (p *simPeer) recvAll() []byte { p.rx = append(p.rx, p.e.ActorRecv(1<<30)...); r := p.rx; p.rx = nil; return r }
func (p *simPeer) close()          { p.e.ActorClose() }
func (p *simPeer) reset()          { p.e.ActorAbort() }

func liveEnv() *ncEnv {
	e := &ncEnv{}
	e.dial = func(addr string) (net.Conn, error) { return net.DialTimeout("tcp", addr, 2*time.Second) }
	e.listen = func() (string, func() ncPeer) {
		ln, err := net.Listen("tcp", "127.0.0.1:0")
		if err != nil {
			panic(err)
		}
		return ln.Addr().String(), func() ncPeer {
			c, err := ln.Accept()
			if err != nil {
				panic(err)
			}
			ln.Close()
			return &livePeer{c}
		}
	}
	e.deadPort = func() string {
		ln, _ := net.Listen("tcp", "127.0.0.1:0")
		a := ln.Addr().String()
		ln.Close()
		return a
	}
	e.settle = func() { time.Sleep(5 * time.Millisecond) }
	e.hangs = func(f func()) bool {
		done := make(chan struct{})
		go func() { f(); close(done) }()
		select {
		case <-done:
			return false
		case <-time.After(300 * time.Millisecond):
			return true
		}
	}
	return e
}

func simEnv(w *sim.World) *ncEnv {
	e := &ncEnv{sim: true, w: w}
	port := 7100
	e.dial = func(addr string) (net.Conn, error) { return shimnet.DialTimeout("tcp", addr, 2*time.Second) }
	e.listen = func() (string, func() ncPeer) {
		port++
		var end *sim.TCPEnd
		al := w.K.ActorListen([4]byte{127, 0, 0, 1}, port, sim.ConnAccept)
		al.OnConn(func(x *sim.TCPEnd) { end = x })
		return fmt.Sprintf("127.0.0.1:%d", port), func() ncPeer {
			w.Drain(1_000_000_000)
			al.Close()
			return &simPeer{e: end}
		}
	}
	e.deadPort = func() string { port++; return fmt.Sprintf("127.0.0.1:%d", port) }
	e.settle = func() { w.Drain(1_000_000_000) }
	e.hangs = func(f func()) (hung bool) {
		defer func() {
			if r := recover(); r != nil {
				if _, ok := r.(sim.BlockedForever); ok {
					hung = true
					return
				}
				panic(r)
			}
		}()
		f()
		return false
	}
	return e
}

func errClass(err error) string {
	switch {
	case err == nil:
		return "nil"
	case err == io.EOF:
		return "EOF"
	case errors.Is(err, net.ErrClosed):
		return "ErrClosed"
	case errors.Is(err, syscall.ECONNREFUSED):
		return "ECONNREFUSED"
	case errors.Is(err, syscall.ECONNRESET):
		return "ECONNRESET"
	case errors.Is(err, syscall.EPIPE):
		return "EPIPE"
	}
	var oe *net.OpError
	if errors.As(err, &oe) {
		return "OpError(" + oe.Op + "): " + oe.Err.Error()
	}
	return "other: " + err.Error()
}

var ncScripts = map[string]func(e *ncEnv){
	"dial-refused": func(e *ncEnv) {
		_, err := e.dial(e.deadPort())
		e.logf("dial to a dead port: %s", errClass(err))
		var oe *net.OpError
		e.logf("is *net.OpError with Op=dial: %v", errors.As(err, &oe) && oe.Op == "dial")
	},
	"read-write-eof": func(e *ncEnv) {
		addr, accept := e.listen()
		c, err := e.dial(addr)
		e.logf("dial: %s", errClass(err))
		p := accept()
		la, ra := c.LocalAddr().(*net.TCPAddr), c.RemoteAddr().(*net.TCPAddr)
		e.logf("local is loopback with a port: %v; remote is the listener: %v", la.IP.IsLoopback() && la.Port != 0, ra.String() == addr)
		n, err := c.Write([]byte("hello"))
		e.logf("write: %d %s", n, errClass(err))
		n, err = c.Write(nil)
		e.logf("empty write: %d %s", n, errClass(err))
		e.settle()
		e.logf("peer got %q", p.recvAll())
		p.send([]byte("abcdef"))
		e.settle()
		b := make([]byte, 4)
		n, err = c.Read(b)
		e.logf("read(4): %d %s %q", n, errClass(err), b[:n])
		n, err = c.Read(b[:0])
		e.logf("read(0) with data queued: %d %s", n, errClass(err))
		n, err = c.Read(b)
		e.logf("read(4): %d %s %q", n, errClass(err), b[:n])
		n, err = c.Read(b[:0])
		e.logf("read(0) with nothing queued: %d %s", n, errClass(err))
		p.send([]byte("z"))
		p.close()
		e.settle()
		n, err = c.Read(b)
		e.logf("read after data+FIN: %d %s", n, errClass(err))
		n, err = c.Read(b)
		e.logf("read at EOF: %d %s", n, errClass(err))
		n, err = c.Read(b)
		e.logf("read at EOF again: %d %s", n, errClass(err))
		n, err = c.Write([]byte("x"))
		e.logf("write after the peer closed: %d %s", n, errClass(err))
		e.settle()
		n, err = c.Write([]byte("y"))
		e.logf("second write after the peer closed: %d %s", n, errClass(err))
		e.logf("close: %s", errClass(c.Close()))
	},
	"closed-conn": func(e *ncEnv) {
		addr, accept := e.listen()
		c, _ := e.dial(addr)
		p := accept()
		_ = p
		e.logf("close: %s", errClass(c.Close()))
		e.logf("close again: %s", errClass(c.Close()))
		b := make([]byte, 4)
		n, err := c.Read(b)
		e.logf("read on a closed conn: %d %s", n, errClass(err))
		n, err = c.Write([]byte("x"))
		e.logf("write on a closed conn: %d %s", n, errClass(err))
		_, err = c.(syscall.Conn).SyscallConn()
		e.logf("SyscallConn on a closed conn: %s", errClass(err))
		e.logf("addresses survive: %v", c.LocalAddr() != nil && c.RemoteAddr() != nil)
	},
	"reset": func(e *ncEnv) {
		addr, accept := e.listen()
		c, _ := e.dial(addr)
		p := accept()
		p.send([]byte("queued"))
		e.settle()
		p.reset()
		e.settle()
		b := make([]byte, 100)
		n, err := c.Read(b)
		e.logf("read after data then reset: %d %s", n, errClass(err))
		n, err = c.Read(b)
		e.logf("next read: %d %s", n, errClass(err))
		n, err = c.Read(b)
		e.logf("next read: %d %s", n, errClass(err))
		n, err = c.Write([]byte("x"))
		e.logf("write: %d %s", n, errClass(err))
		c.Close()
	},
	"control": func(e *ncEnv) {
		addr, accept := e.listen()
		c, _ := e.dial(addr)
		p := accept()
		rc, err := c.(syscall.Conn).SyscallConn()
		e.logf("SyscallConn: %s", errClass(err))
		var fd uintptr
		err = rc.Control(func(f uintptr) { fd = f })
		e.logf("Control: %s, descriptor is a small positive number: %v", errClass(err), fd > 2 && fd < 1<<20)
		p.send([]byte("in"))
		e.settle()
		err = rc.Control(func(uintptr) {
			b := make([]byte, 4)
			n, rerr := c.Read(b)
			e.logf("Read inside Control: %d %s", n, errClass(rerr))
			n, werr := c.Write([]byte("out"))
			e.logf("Write inside Control: %d %s", n, errClass(werr))
		})
		e.logf("Control: %s", errClass(err))
		hung := e.hangs(func() {
			rc.Control(func(uintptr) { c.Close() })
		})
		e.logf("Close inside Control hangs: %v", hung)
		if !e.sim {
			// the live goroutine is stuck for good; nothing more can be asked of this conn
			return
		}
	},
	"control-after-close": func(e *ncEnv) {
		addr, accept := e.listen()
		c, _ := e.dial(addr)
		accept()
		rc, _ := c.(syscall.Conn).SyscallConn()
		c.Close()
		called := false
		err := rc.Control(func(uintptr) { called = true })
		e.logf("Control after Close: %s, callback ran: %v", errClass(err), called)
	},
}

func TestNetConnStub(t *testing.T) {
	bad := 0
	total := 0
	for name, fn := range ncScripts {
		live := liveEnv()
		fn(live)
		w := sim.NewWorld(1, []uint32{})
		shimnet.ResetRegistry()
		stub := simEnv(w)
		func() {
			defer func() {
				if r := recover(); r != nil {
					stub.logf("PANIC %v", r)
				}
			}()
			fn(stub)
		}()
		w.Close()
		total += len(live.lines)
		if *show {
			fmt.Printf("== netconn/%s\n", name)
			for _, l := range live.lines {
				fmt.Println("   ", l)
			}
		}
		n := len(live.lines)
		if len(stub.lines) > n {
			n = len(stub.lines)
		}
		for i := 0; i < n; i++ {
			var l, s string
			if i < len(live.lines) {
				l = live.lines[i]
			}
			if i < len(stub.lines) {
				s = stub.lines[i]
			}
			if l != s {
				bad++
				t.Errorf("netconn/%s line %d\n   live: %s\n   stub: %s", name, i, l, s)
			}
		}
	}
	fmt.Printf("netconn: %d scripts, %d observations compared, %d differ\n", len(ncScripts), total, bad)
}
