package kconf

import (
	"bytes"
	"os"
	"syscall"

	"golang.org/x/sys/unix"
)

const (
	in  = syscall.EPOLLIN
	out = syscall.EPOLLOUT
)

var scripts = map[string]func(*tr){}

func init() {
	// ---------------------------------------------------------------- pipes
	scripts["pipe/basic"] = func(t *tr) {
		a := t.a
		p := make([]int, 2)
		t.logf("pipe2: %s", es(a.Pipe2(p, syscall.O_NONBLOCK)))
		r, w := t.own(p[0]), t.own(p[1])
		t.logf("empty: r/IN->%s w/OUT->%s", t.mask(r, in), t.mask(w, out))
		t.read("empty", r, 10)
		t.write("w", w, []byte("abc"))
		t.logf("data: r/IN->%s r/OUT->%s w/OUT->%s w/IN->%s", t.mask(r, in), t.mask(r, out), t.mask(w, out), t.mask(w, in))
		t.read("partial", r, 2)
		t.read("rest", r, 10)
		t.read("empty again", r, 10)
		t.write("w", w, []byte("xyz"))
		t.logf("close w: %s", es(a.Close(w)))
		t.logf("data+whup: r/IN->%s r/OUT->%s", t.mask(r, in), t.mask(r, out))
		t.read("data+whup", r, 10)
		t.logf("empty+whup: r/IN->%s r/OUT->%s", t.mask(r, in), t.mask(r, out))
		t.read("eof", r, 10)
		t.read("eof again", r, 10)
		t.read("zero-length read at eof", r, 0)
	}
	scripts["pipe/reader-gone"] = func(t *tr) {
		a := t.a
		p := make([]int, 2)
		a.Pipe2(p, syscall.O_NONBLOCK)
		r, w := t.own(p[0]), t.own(p[1])
		t.write("w", w, []byte("abc"))
		t.logf("close r: %s", es(a.Close(r)))
		t.logf("reader gone: w/OUT->%s w/IN->%s", t.mask(w, out), t.mask(w, in))
		t.write("reader gone", w, []byte("abc"))
		t.write("reader gone again", w, []byte("abc"))
		t.write("reader gone, empty write", w, nil)
	}
	scripts["pipe/full"] = func(t *tr) {
		a := t.a
		p := make([]int, 2)
		a.Pipe2(p, syscall.O_NONBLOCK)
		r, w := t.own(p[0]), t.own(p[1])
		chunk := bytes.Repeat([]byte("x"), 4096)
		total := 0
		for i := 0; i < 1000; i++ {
			k, err := a.Write(w, chunk)
			if err != nil {
				t.logf("full after %d bytes: %s", total, es(err))
				break
			}
			total += k
		}
		t.logf("full: w/OUT->%s r/IN->%s", t.mask(w, out), t.mask(r, in))
		t.read("drain one page", r, 4096)
		t.logf("one page free: w/OUT->%s", t.mask(w, out))
		t.write("into the free page", w, chunk)
		t.logf("full again: w/OUT->%s", t.mask(w, out))
		a.Close(r)
		t.logf("full+rgone: w/OUT->%s", t.mask(w, out))
	}
	scripts["pipe/large-write-partial"] = func(t *tr) {
		a := t.a
		p := make([]int, 2)
		a.Pipe2(p, syscall.O_NONBLOCK)
		_, w := t.own(p[0]), t.own(p[1])
		big := bytes.Repeat([]byte("y"), 100000)
		k, err := a.Write(w, big)
		t.logf("write(100000) into an empty pipe -> %d %s", k, es(err))
		k, err = a.Write(w, big)
		t.logf("again -> %d %s", k, es(err))
	}
	scripts["pipe/wrong-direction"] = func(t *tr) {
		a := t.a
		p := make([]int, 2)
		a.Pipe2(p, syscall.O_NONBLOCK)
		r, w := t.own(p[0]), t.own(p[1])
		t.write("write to read end", r, []byte("a"))
		t.read("read from write end", w, 4)
	}
	// ---------------------------------------------------------------- eventfd
	scripts["eventfd"] = func(t *tr) {
		a := t.a
		r1, _, e := a.Syscall(syscall.SYS_EVENTFD2, 0, uintptr(syscall.O_NONBLOCK), 0)
		t.logf("eventfd2: %s", errnoOrOK(e))
		fd := t.own(int(r1))
		t.masks("zero", fd)
		t.read("zero", fd, 8)
		one := []byte{1, 0, 0, 0, 0, 0, 0, 0}
		t.write("w", fd, one)
		t.write("w", fd, one)
		t.write("w", fd, []byte{5, 0, 0, 0, 0, 0, 0, 0})
		t.masks("counter 7", fd)
		t.read("short buffer", fd, 4)
		b := make([]byte, 8)
		k, err := a.Read(fd, b)
		t.logf("read(8) -> %d %s %v", k, es(err), b)
		t.masks("after read", fd)
		t.read("after read", fd, 8)
		t.write("short write", fd, []byte{1, 0, 0, 0})
		t.write("w", fd, one)
		b16 := make([]byte, 16)
		k, err = a.Read(fd, b16)
		t.logf("read(16) -> %d %s %v", k, es(err), b16[:8])
	}
	// ---------------------------------------------------------------- timerfd
	scripts["timerfd/one-shot"] = func(t *tr) {
		a := t.a
		fd, err := a.TimerfdCreate(unix.CLOCK_MONOTONIC, unix.TFD_NONBLOCK)
		t.logf("create: %s", es(err))
		t.own(fd)
		t.logf("unarmed: IN->%s", t.mask(fd, in))
		t.read("unarmed", fd, 8)
		arm := func(ns int64) {
			spec := &unix.ItimerSpec{Value: unix.Timespec{Sec: ns / 1e9, Nsec: ns % 1e9}}
			t.logf("settime(%dns): %s", ns, es(a.TimerfdSettime(fd, 0, spec, nil)))
		}
		arm(20_000_000)
		t.logf("armed: IN->%s", t.mask(fd, in))
		t.read("armed", fd, 8)
		a.sleepMs(40)
		t.logf("expired: IN->%s OUT->%s", t.mask(fd, in), t.mask(fd, out))
		b := make([]byte, 8)
		k, err := a.Read(fd, b)
		t.logf("read(8) -> %d %s %v", k, es(err), b)
		t.logf("after read: IN->%s", t.mask(fd, in))
		t.read("after read", fd, 8)
		a.sleepMs(40)
		t.logf("one-shot does not fire again: IN->%s", t.mask(fd, in))
		// expired, unread, then re-armed: the expiration is forgotten
		arm(10_000_000)
		a.sleepMs(30)
		t.logf("expired: IN->%s", t.mask(fd, in))
		arm(3_600_000_000_000)
		t.logf("expired then re-armed 1h: IN->%s", t.mask(fd, in))
		t.read("expired then re-armed", fd, 8)
		// disarm
		arm(10_000_000)
		arm(0)
		a.sleepMs(30)
		t.logf("armed then disarmed: IN->%s", t.mask(fd, in))
		t.read("disarmed", fd, 8)
		// expired then disarmed
		arm(10_000_000)
		a.sleepMs(30)
		arm(0)
		t.logf("expired then disarmed: IN->%s", t.mask(fd, in))
		t.read("expired then disarmed", fd, 8)
		// short read buffer
		arm(1_000_000)
		a.sleepMs(20)
		t.read("expired, 4-byte buffer", fd, 4)
		t.write("write to a timerfd", fd, []byte{1, 0, 0, 0, 0, 0, 0, 0})
	}
	scripts["timerfd/one-nanosecond"] = func(t *tr) {
		a := t.a
		fd, _ := a.TimerfdCreate(unix.CLOCK_MONOTONIC, unix.TFD_NONBLOCK)
		t.own(fd)
		spec := &unix.ItimerSpec{Value: unix.Timespec{Nsec: 1}}
		t.logf("settime(1ns): %s", es(a.TimerfdSettime(fd, 0, spec, nil)))
		a.sleepMs(5)
		t.logf("IN->%s", t.mask(fd, in))
		t.read("expired", fd, 8)
		bad := &unix.ItimerSpec{Value: unix.Timespec{Nsec: 1_000_000_000}}
		t.logf("settime(nsec=1e9): %s", es(a.TimerfdSettime(fd, 0, bad, nil)))
		neg := &unix.ItimerSpec{Value: unix.Timespec{Sec: -1}}
		t.logf("settime(sec=-1): %s", es(a.TimerfdSettime(fd, 0, neg, nil)))
		t.logf("settime on a closed number: %s", es(a.TimerfdSettime(987, 0, spec, nil)))
	}
	scripts["timerfd/periodic"] = func(t *tr) {
		a := t.a
		fd, _ := a.TimerfdCreate(unix.CLOCK_MONOTONIC, unix.TFD_NONBLOCK)
		t.own(fd)
		spec := &unix.ItimerSpec{Value: unix.Timespec{Nsec: 20_000_000}, Interval: unix.Timespec{Nsec: 20_000_000}}
		t.logf("settime(20ms every 20ms): %s", es(a.TimerfdSettime(fd, 0, spec, nil)))
		a.sleepMs(30)
		b := make([]byte, 8)
		k, err := a.Read(fd, b)
		t.logf("after 30ms read -> %d %s %v", k, es(err), b)
		t.read("at once again", fd, 8)
		a.sleepMs(50) // t=80: expirations at 40, 60, 80(maybe) - keep clear of the edge
		a.sleepMs(5)
		k, err = a.Read(fd, b)
		t.logf("after 85ms read -> %d %s count>=2:%v", k, es(err), b[0] >= 2)
	}
	// ---------------------------------------------------------------- regular files
	scripts["file/regular"] = func(t *tr) {
		a := t.a
		path := t.file([]byte("hello world"))
		fd, err := a.Open(path, syscall.O_RDWR|syscall.O_NONBLOCK, 0)
		t.logf("open: %s", es(err))
		t.own(fd)
		t.logf("epoll add: IN->%s OUT->%s", t.mask(fd, in), t.mask(fd, out))
		t.read("start", fd, 5)
		t.read("next", fd, 100)
		t.read("eof", fd, 100)
		t.write("append", fd, []byte("!!"))
		t.read("eof after write", fd, 100)
		off, err := a.Seek(fd, 0, 0)
		t.logf("seek(0,SET) -> %d %s", off, es(err))
		t.read("whole", fd, 100)
		off, err = a.Seek(fd, -2, 2)
		t.logf("seek(-2,END) -> %d %s", off, es(err))
		t.read("tail", fd, 100)
		off, err = a.Seek(fd, 3, 0)
		t.write("overwrite at 3", fd, []byte("LO"))
		a.Seek(fd, 0, 0)
		t.read("whole", fd, 100)
		_, err = a.Open(path+".missing", syscall.O_RDONLY, 0)
		t.logf("open missing: %s", es(err))
	}
	// ---------------------------------------------------------------- epoll
	scripts["epoll/ctl-errnos"] = func(t *tr) {
		a := t.a
		ep, err := a.EpollCreate1(0)
		t.logf("create: %s", es(err))
		t.own(ep)
		p := make([]int, 2)
		a.Pipe2(p, syscall.O_NONBLOCK)
		r, w := t.own(p[0]), t.own(p[1])
		ev := func(e uint32, fd int) *syscall.EpollEvent { return &syscall.EpollEvent{Events: e, Fd: int32(fd)} }
		t.logf("mod unregistered: %s", es(a.EpollCtl(ep, syscall.EPOLL_CTL_MOD, r, ev(in, r))))
		t.logf("del unregistered: %s", es(a.EpollCtl(ep, syscall.EPOLL_CTL_DEL, r, ev(0, r))))
		t.logf("add: %s", es(a.EpollCtl(ep, syscall.EPOLL_CTL_ADD, r, ev(in, r))))
		t.logf("add again: %s", es(a.EpollCtl(ep, syscall.EPOLL_CTL_ADD, r, ev(in, r))))
		t.logf("mod: %s", es(a.EpollCtl(ep, syscall.EPOLL_CTL_MOD, r, ev(in|out, r))))
		t.logf("del: %s", es(a.EpollCtl(ep, syscall.EPOLL_CTL_DEL, r, ev(0, r))))
		t.logf("del again: %s", es(a.EpollCtl(ep, syscall.EPOLL_CTL_DEL, r, ev(0, r))))
		t.logf("add never-opened number: %s", es(a.EpollCtl(ep, syscall.EPOLL_CTL_ADD, 987, ev(in, 987))))
		t.logf("add the epoll itself: %s", es(a.EpollCtl(ep, syscall.EPOLL_CTL_ADD, ep, ev(in, ep))))
		t.logf("ctl on a non-epoll descriptor: %s", es(a.EpollCtl(r, syscall.EPOLL_CTL_ADD, w, ev(in, w))))
		t.logf("ctl on a never-opened epoll number: %s", es(a.EpollCtl(986, syscall.EPOLL_CTL_ADD, w, ev(in, w))))
		evs := make([]syscall.EpollEvent, 4)
		n, err := a.EpollWait(986, evs, 0)
		t.logf("wait on a never-opened number: %d %s", n, es(err))
		n, err = a.EpollWait(r, evs, 0)
		t.logf("wait on a pipe: %d %s", n, es(err))
		n, err = a.EpollWait(ep, evs[:0], 0)
		t.logf("wait with an empty event array: %d %s", n, es(err))
		// close() of a registered descriptor removes it
		a.EpollCtl(ep, syscall.EPOLL_CTL_ADD, r, ev(in, r))
		a.Write(w, []byte("x"))
		n, err = a.EpollWait(ep, evs, 0)
		t.logf("readable registered: wait -> %d %s", n, es(err))
		a.Close(r)
		n, err = a.EpollWait(ep, evs, 0)
		t.logf("after close: wait -> %d %s", n, es(err))
		t.logf("del closed number: %s", es(a.EpollCtl(ep, syscall.EPOLL_CTL_DEL, r, ev(0, r))))
	}
	scripts["epoll/level-triggered-and-interest"] = func(t *tr) {
		a := t.a
		ep, _ := a.EpollCreate1(0)
		t.own(ep)
		ln, cl, sv := t.tcpPair()
		_ = ln
		ev := func(e uint32, fd int) *syscall.EpollEvent { return &syscall.EpollEvent{Events: e, Fd: int32(fd)} }
		evs := make([]syscall.EpollEvent, 8)
		wait := func(what string) {
			n, err := a.EpollWait(ep, evs, 0)
			s := ""
			for i := 0; i < n; i++ {
				who := "?"
				switch int(evs[i].Fd) {
				case cl:
					who = "cl"
				case sv:
					who = "sv"
				}
				s += " " + who + ":" + maskStr(evs[i].Events)
			}
			t.logf("%s: wait -> %d %s%s", what, n, es(err), s)
		}
		a.EpollCtl(ep, syscall.EPOLL_CTL_ADD, cl, ev(in, cl))
		wait("idle, IN interest")
		a.Write(sv, []byte("hello"))
		a.settle()
		wait("data")
		wait("data, second wait (level-triggered)")
		a.EpollCtl(ep, syscall.EPOLL_CTL_MOD, cl, ev(out, cl))
		wait("data, OUT interest only")
		a.EpollCtl(ep, syscall.EPOLL_CTL_MOD, cl, ev(in|out, cl))
		wait("data, IN|OUT")
		a.EpollCtl(ep, syscall.EPOLL_CTL_MOD, cl, ev(0, cl))
		wait("data, empty interest")
		a.Close(sv)
		a.settle()
		wait("data+FIN, empty interest")
		a.Write(cl, []byte("x")) // provokes RST
		a.settle()
		wait("reset, empty interest: ERR and HUP are reported regardless")
	}
	scripts["epoll/ready-order"] = func(t *tr) {
		a := t.a
		ep, _ := a.EpollCreate1(0)
		t.own(ep)
		var rs, ws [3]int
		for i := range rs {
			p := make([]int, 2)
			a.Pipe2(p, syscall.O_NONBLOCK)
			rs[i], ws[i] = t.own(p[0]), t.own(p[1])
			a.EpollCtl(ep, syscall.EPOLL_CTL_ADD, rs[i], &syscall.EpollEvent{Events: in, Fd: int32(i)})
		}
		for _, i := range []int{2, 0, 1} {
			a.Write(ws[i], []byte("x"))
		}
		evs := make([]syscall.EpollEvent, 8)
		for round := 0; round < 2; round++ {
			n, _ := a.EpollWait(ep, evs, 0)
			// The live kernel reports in ready-list order (2 0 1, and again 2 0 1); the stub does not
			// model the ready list: fault-free it reports in registration order, and the epoll-permute
			// fault makes every order reachable. Only the set is compared.
			var got [3]bool
			for i := 0; i < n; i++ {
				got[evs[i].Fd] = true
			}
			t.logf("became ready 2,0,1; wait %d -> %d events, set %v", round, n, got)
		}
		n, _ := a.EpollWait(ep, evs[:2], 0)
		t.logf("maxevents 2 -> %d", n)
	}
	scripts["epoll/wait-timeout"] = func(t *tr) {
		a := t.a
		ep, _ := a.EpollCreate1(0)
		t.own(ep)
		evs := make([]syscall.EpollEvent, 2)
		n, err := a.EpollWait(ep, evs, 0)
		t.logf("empty interest list, timeout 0: %d %s", n, es(err))
		n, err = a.EpollWait(ep, evs, 15)
		t.logf("empty interest list, timeout 15ms: %d %s", n, es(err))
		fd, _ := a.TimerfdCreate(unix.CLOCK_MONOTONIC, unix.TFD_NONBLOCK)
		t.own(fd)
		a.EpollCtl(ep, syscall.EPOLL_CTL_ADD, fd, &syscall.EpollEvent{Events: in, Fd: 7})
		a.TimerfdSettime(fd, 0, &unix.ItimerSpec{Value: unix.Timespec{Nsec: 10_000_000}}, nil)
		n, err = a.EpollWait(ep, evs, 2000)
		t.logf("timer in 10ms, timeout 2s: %d %s tag=%d %s", n, es(err), evs[0].Fd, maskStr(evs[0].Events))
		n, err = a.EpollWait(ep, evs, -1)
		t.logf("still unread, infinite timeout: %d %s", n, es(err))
	}
	// ---------------------------------------------------------------- tcp
	scripts["tcp/connect-accept"] = func(t *tr) {
		a := t.a
		ln := t.tcpListener()
		sa, err := a.Getsockname(ln)
		t.logf("listener name: %s %s", saStr(sa, true), es(err))
		t.logf("listener empty: IN->%s", t.mask(ln, in))
		_, _, err = a.Accept4(ln, syscall.SOCK_NONBLOCK)
		t.logf("accept on empty queue: %s", es(err))
		cl, _ := a.Socket(syscall.AF_INET, syscall.SOCK_STREAM|syscall.SOCK_NONBLOCK, 0)
		t.own(cl)
		t.masks("fresh unconnected socket", cl)
		t.read("fresh unconnected socket", cl, 4)
		t.write("fresh unconnected socket", cl, []byte("x"))
		err = a.Connect(cl, sa4(lo, portOf(sa)))
		t.logf("non-blocking connect: %s", es(err))
		a.settle()
		t.masks("connected", cl)
		v, err := a.GetsockoptInt(cl, syscall.SOL_SOCKET, syscall.SO_ERROR)
		t.logf("SO_ERROR: %d %s", v, es(err))
		t.logf("connect again: %s", es(a.Connect(cl, sa4(lo, portOf(sa)))))
		t.logf("listener with one queued: IN->%s OUT->%s", t.mask(ln, in), t.mask(ln, out))
		sv, peer, err := a.Accept4(ln, syscall.SOCK_NONBLOCK)
		t.own(sv)
		cn, _ := a.Getsockname(cl)
		t.logf("accept: %s peer-is-client:%v", es(err), saStr(peer, false) == saStr(cn, false))
		sn, _ := a.Getsockname(sv)
		t.logf("accepted socket's name is the listener's: %v", saStr(sn, false) == saStr(sa, false))
		_, _, err = a.Accept4(ln, syscall.SOCK_NONBLOCK)
		t.logf("second accept: %s", es(err))
		t.read("accepted, idle", sv, 4)
		t.masks("accepted, idle", sv)
		_, _, err = a.Accept4(cl, 0)
		t.logf("accept on a connected socket: %s", es(err))
		t.logf("listen on a connected socket: %s", es(a.Listen(cl, 1)))
	}
	scripts["tcp/connect-refused"] = func(t *tr) {
		a := t.a
		// find a port nobody listens on: bind, read the name, close
		ln := t.tcpListener()
		sa, _ := a.Getsockname(ln)
		a.Close(ln)
		cl, _ := a.Socket(syscall.AF_INET, syscall.SOCK_STREAM|syscall.SOCK_NONBLOCK, 0)
		t.own(cl)
		t.logf("connect: %s", es(a.Connect(cl, sa4(lo, portOf(sa)))))
		a.settle()
		t.masks("refused", cl)
		v, err := a.GetsockoptInt(cl, syscall.SOL_SOCKET, syscall.SO_ERROR)
		t.logf("SO_ERROR: %s %s", errnoName(syscall.Errno(v)), es(err))
		v, err = a.GetsockoptInt(cl, syscall.SOL_SOCKET, syscall.SO_ERROR)
		t.logf("SO_ERROR again (cleared by the first): %d %s", v, es(err))
		t.masks("refused, error consumed", cl)
		t.read("refused", cl, 4)
		t.write("refused", cl, []byte("x"))
	}
	scripts["tcp/data-and-fin"] = func(t *tr) {
		a := t.a
		_, cl, sv := t.tcpPair()
		t.masks("idle", cl)
		t.read("idle", cl, 4)
		t.write("sv", sv, []byte("hello"))
		a.settle()
		t.masks("data", cl)
		t.read("partial", cl, 2)
		t.masks("rest queued", cl)
		t.write("sv", sv, []byte("!!"))
		a.settle()
		t.read("coalesced", cl, 100)
		t.read("drained", cl, 100)
		t.write("sv", sv, []byte("bye"))
		t.logf("close sv: %s", es(a.Close(sv)))
		a.settle()
		t.masks("data+FIN", cl)
		t.logf("data+FIN, RDHUP interest: %s", t.mask(cl, in|syscall.EPOLLRDHUP))
		t.read("data+FIN", cl, 100)
		t.masks("FIN only", cl)
		t.read("eof", cl, 100)
		t.read("eof again", cl, 100)
		t.read("zero-length read", cl, 0)
		t.write("write after the peer's FIN", cl, []byte("abc"))
		a.settle()
		t.masks("after write to a closed peer", cl)
		t.read("after write to a closed peer", cl, 10)
		t.write("second write", cl, []byte("abc"))
		t.write("third write", cl, []byte("abc"))
		v, err := a.GetsockoptInt(cl, syscall.SOL_SOCKET, syscall.SO_ERROR)
		t.logf("SO_ERROR: %s %s", errnoName(syscall.Errno(v)), es(err))
	}
	scripts["tcp/half-close"] = func(t *tr) {
		a := t.a
		_, cl, sv := t.tcpPair()
		t.logf("shutdown(cl, WR): %s", es(a.Shutdown(cl, syscall.SHUT_WR)))
		a.settle()
		t.masks("sv after peer's half-close", sv)
		t.read("sv", sv, 10)
		t.write("sv can still write", sv, []byte("late"))
		a.settle()
		t.masks("cl after own half-close, data queued", cl)
		t.read("cl", cl, 10)
		t.write("cl write after own SHUT_WR", cl, []byte("x"))
		t.logf("shutdown(cl, WR) again: %s", es(a.Shutdown(cl, syscall.SHUT_WR)))
		t.logf("close sv: %s", es(a.Close(sv)))
		a.settle()
		t.masks("both directions closed", cl)
		t.read("cl eof", cl, 10)
		t.logf("shutdown on a never-opened number: %s", es(a.Shutdown(987, syscall.SHUT_WR)))
		s2, _ := a.Socket(syscall.AF_INET, syscall.SOCK_STREAM|syscall.SOCK_NONBLOCK, 0)
		t.own(s2)
		t.logf("shutdown on an unconnected socket: %s", es(a.Shutdown(s2, syscall.SHUT_WR)))
	}
	scripts["tcp/shutdown-read"] = func(t *tr) {
		a := t.a
		_, cl, sv := t.tcpPair()
		t.logf("shutdown(cl, RD): %s", es(a.Shutdown(cl, syscall.SHUT_RD)))
		t.masks("cl after SHUT_RD", cl)
		t.read("cl after SHUT_RD", cl, 10)
		t.write("cl can still write", cl, []byte("abc"))
		a.settle()
		t.read("sv", sv, 10)
	}
	scripts["tcp/reset-by-close-with-unread-data"] = func(t *tr) {
		a := t.a
		_, cl, sv := t.tcpPair()
		t.write("cl", cl, []byte("unread"))
		a.settle()
		t.logf("close sv with unread data: %s", es(a.Close(sv)))
		a.settle()
		t.masks("reset", cl)
		t.read("reset", cl, 10)
		t.masks("reset, error consumed", cl)
		t.read("again", cl, 10)
		t.write("write", cl, []byte("x"))
		t.write("write again", cl, []byte("x"))
	}
	scripts["tcp/reset-with-data-queued"] = func(t *tr) {
		a := t.a
		_, cl, sv := t.tcpPair()
		t.write("sv", sv, []byte("first"))
		t.write("cl", cl, []byte("unread"))
		a.settle()
		a.Close(sv) // unread data at sv: RST, after "first" was delivered
		a.settle()
		t.masks("data then reset", cl)
		t.read("data then reset", cl, 100)
		t.read("next", cl, 100)
		t.read("next", cl, 100)
	}
	scripts["tcp/linger-zero-abort"] = func(t *tr) {
		a := t.a
		_, cl, sv := t.tcpPair()
		l := &syscall.Linger{Onoff: 1, Linger: 0}
		_ = l
		// SO_LINGER needs SetsockoptLinger, which sonic does not use; the same abort is
		// reached by closing with unread data (above). Here: reset while the client writes.
		t.write("cl", cl, []byte("x"))
		a.settle()
		a.Close(sv)
		a.settle()
		t.write("write after reset", cl, []byte("y"))
		v, err := a.GetsockoptInt(cl, syscall.SOL_SOCKET, syscall.SO_ERROR)
		t.logf("SO_ERROR: %s %s", errnoName(syscall.Errno(v)), es(err))
		t.read("read", cl, 4)
	}
	scripts["tcp/send-buffer-fills"] = func(t *tr) {
		a := t.a
		_, cl, sv := t.tcpPair()
		chunk := bytes.Repeat([]byte("z"), 65536)
		total := 0
		blocked := false
		for i := 0; i < 4000; i++ {
			k, err := a.Write(cl, chunk)
			if err != nil {
				t.logf("send blocks: %s", es(err))
				blocked = true
				break
			}
			total += k
			a.settle()
		}
		t.logf("blocked:%v after more than 64KiB:%v", blocked, total > 65536)
		t.logf("blocked: OUT->%s IN->%s", t.mask(cl, out), t.mask(cl, in))
		// the receiver drains everything; the sender becomes writable again
		got := 0
		b := make([]byte, 1<<20)
		for i := 0; i < 100000 && got < total; i++ {
			k, err := a.Read(sv, b)
			if err == syscall.EAGAIN {
				a.settle()
				continue
			}
			if err != nil || k == 0 {
				t.logf("drain: %d %s", k, es(err))
				break
			}
			got += k
		}
		a.settle()
		t.logf("drained everything sent: %v; OUT->%s", got == total, t.mask(cl, out))
	}
	scripts["tcp/listener-closed-with-queued-connection"] = func(t *tr) {
		a := t.a
		ln := t.tcpListener()
		sa, _ := a.Getsockname(ln)
		cl, _ := a.Socket(syscall.AF_INET, syscall.SOCK_STREAM|syscall.SOCK_NONBLOCK, 0)
		t.own(cl)
		a.Connect(cl, sa4(lo, portOf(sa)))
		a.settle()
		t.masks("connected, not yet accepted", cl)
		t.write("write before accept", cl, []byte("early"))
		a.Close(ln)
		a.settle()
		t.masks("listener closed", cl)
		t.read("listener closed", cl, 10)
	}
	scripts["tcp/data-before-accept"] = func(t *tr) {
		a := t.a
		ln := t.tcpListener()
		sa, _ := a.Getsockname(ln)
		cl, _ := a.Socket(syscall.AF_INET, syscall.SOCK_STREAM|syscall.SOCK_NONBLOCK, 0)
		t.own(cl)
		a.Connect(cl, sa4(lo, portOf(sa)))
		a.settle()
		t.write("write before accept", cl, []byte("early"))
		a.Close(cl)
		a.settle()
		sv, _, err := a.Accept4(ln, syscall.SOCK_NONBLOCK)
		t.own(sv)
		t.logf("accept after the client wrote and closed: %s", es(err))
		t.masks("sv", sv)
		t.read("sv", sv, 10)
		t.read("sv", sv, 10)
	}
	scripts["tcp/bind-errors"] = func(t *tr) {
		a := t.a
		ln := t.tcpListener()
		sa, _ := a.Getsockname(ln)
		s2, _ := a.Socket(syscall.AF_INET, syscall.SOCK_STREAM|syscall.SOCK_NONBLOCK, 0)
		t.own(s2)
		t.logf("bind to a listening port: %s", es(a.Bind(s2, sa4(lo, portOf(sa)))))
		a.SetsockoptInt(s2, syscall.SOL_SOCKET, syscall.SO_REUSEADDR, 1)
		t.logf("same with SO_REUSEADDR on the second only: %s", es(a.Bind(s2, sa4(lo, portOf(sa)))))
		t.logf("bind to a foreign address: %s", es(a.Bind(s2, sa4([4]byte{192, 0, 2, 77}, 0))))
		t.logf("bind: %s", es(a.Bind(s2, sa4(lo, 0))))
		t.logf("bind twice: %s", es(a.Bind(s2, sa4(lo, 0))))
		t.logf("bind a never-opened number: %s", es(a.Bind(987, sa4(lo, 0))))
		p := make([]int, 2)
		a.Pipe2(p, 0)
		t.own(p[0])
		t.own(p[1])
		t.logf("bind a pipe: %s", es(a.Bind(p[0], sa4(lo, 0))))
		t.logf("listen on a pipe: %s", es(a.Listen(p[0], 1)))
		_, err := a.Getsockname(p[0])
		t.logf("getsockname of a pipe: %s", es(err))
		s3, _ := a.Socket(syscall.AF_INET, syscall.SOCK_STREAM, 0)
		t.own(s3)
		n, _ := a.Getsockname(s3)
		t.logf("name of an unbound socket: %s", saStr(n, false))
		t.logf("listen unbound: %s", es(a.Listen(s3, 4)))
		n, _ = a.Getsockname(s3)
		t.logf("name after listen unbound: %s", saStr(n, true))
	}
	scripts["tcp/close-errors"] = func(t *tr) {
		a := t.a
		s, _ := a.Socket(syscall.AF_INET, syscall.SOCK_STREAM, 0)
		t.logf("close: %s", es(a.Close(s)))
		t.logf("close again: %s", es(a.Close(s)))
		t.logf("close -1: %s", es(a.Close(-1)))
		t.read("closed", s, 4)
		t.write("closed", s, []byte("x"))
		t.logf("setnonblock closed: %s", es(a.SetNonblock(s, true)))
		_, err := a.GetsockoptInt(s, syscall.SOL_SOCKET, syscall.SO_ERROR)
		t.logf("getsockopt closed: %s", es(err))
		t.logf("setsockopt closed: %s", es(a.SetsockoptInt(s, syscall.SOL_SOCKET, syscall.SO_REUSEADDR, 1)))
		// the lowest free number is reused
		s1, _ := a.Socket(syscall.AF_INET, syscall.SOCK_STREAM, 0)
		a.Close(s1)
		s2, _ := a.Socket(syscall.AF_INET, syscall.SOCK_DGRAM, 0)
		t.own(s2)
		t.logf("lowest free number reused: %v", s1 == s2)
	}
	scripts["tcp/options"] = func(t *tr) {
		a := t.a
		_, cl, _ := t.tcpPair()
		get := func(what string, level, opt int) {
			v, err := a.GetsockoptInt(cl, level, opt)
			t.logf("%s: %d %s", what, v, es(err))
		}
		get("TCP_NODELAY default", syscall.IPPROTO_TCP, syscall.TCP_NODELAY)
		t.logf("set TCP_NODELAY: %s", es(a.SetsockoptInt(cl, syscall.IPPROTO_TCP, syscall.TCP_NODELAY, 1)))
		get("TCP_NODELAY", syscall.IPPROTO_TCP, syscall.TCP_NODELAY)
		get("SO_REUSEADDR default", syscall.SOL_SOCKET, syscall.SO_REUSEADDR)
		t.logf("set SO_REUSEADDR: %s", es(a.SetsockoptInt(cl, syscall.SOL_SOCKET, syscall.SO_REUSEADDR, 1)))
		get("SO_REUSEADDR", syscall.SOL_SOCKET, syscall.SO_REUSEADDR)
		get("SO_REUSEPORT default", syscall.SOL_SOCKET, unix.SO_REUSEPORT)
		t.logf("set SO_REUSEPORT: %s", es(a.SetsockoptInt(cl, syscall.SOL_SOCKET, unix.SO_REUSEPORT, 1)))
		get("SO_REUSEPORT", syscall.SOL_SOCKET, unix.SO_REUSEPORT)
		get("SO_TYPE", syscall.SOL_SOCKET, syscall.SO_TYPE)
		get("SO_ERROR", syscall.SOL_SOCKET, syscall.SO_ERROR)
	}
	// ---------------------------------------------------------------- udp
	scripts["udp/basic"] = func(t *tr) {
		a := t.a
		r := t.udpSock(lo, 0, false)
		rn, _ := a.Getsockname(r)
		t.logf("receiver name: %s", saStr(rn, true))
		s := t.udpSock(lo, 0, false)
		sn, _ := a.Getsockname(s)
		dst := sa4(lo, portOf(rn))
		t.masks("idle", r)
		t.recv("idle", r, 100)
		t.logf("sendto: %s", es(a.Sendto(s, []byte("0123456789"), 0, dst)))
		t.logf("sendto: %s", es(a.Sendto(s, []byte("second"), 0, dst)))
		t.logf("sendto empty: %s", es(a.Sendto(s, nil, 0, dst)))
		t.logf("sendto: %s", es(a.Sendto(s, []byte("last"), 0, dst)))
		a.settle()
		t.masks("queued", r)
		b := make([]byte, 4)
		k, from, err := a.Recvfrom(r, b, 0)
		t.logf("10-byte datagram into a 4-byte buffer: %d %s %q from-sender:%v", k, es(err), b[:k], saStr(from, false) == saStr(sn, false))
		t.recv("the rest of it was discarded", r, 100)
		t.recv("zero-length datagram", r, 100)
		t.masks("one left", r)
		t.recv("last", r, 0)
		t.recv("empty", r, 100)
		t.masks("empty", r)
		// read(2) on a datagram socket
		a.Sendto(s, []byte("via read"), 0, dst)
		a.settle()
		t.read("read(2)", r, 100)
	}
	scripts["udp/closed-port-and-errors"] = func(t *tr) {
		a := t.a
		x := t.udpSock(lo, 0, false)
		xn, _ := a.Getsockname(x)
		a.Close(x)
		s := t.udpSock(lo, 0, false)
		t.logf("unconnected send to a closed port: %s", es(a.Sendto(s, []byte("x"), 0, sa4(lo, portOf(xn)))))
		a.settle()
		t.recv("next recv", s, 10)
		t.masks("after", s)
		t.logf("sendto without an address: %s", es(a.Sendto(s, []byte("x"), 0, nil)))
		big := bytes.Repeat([]byte("b"), 70000)
		t.logf("70000-byte datagram: %s", es(a.Sendto(s, big, 0, sa4(lo, portOf(xn)))))
		t.logf("65507-byte datagram: %s", es(a.Sendto(s, big[:65507], 0, sa4(lo, portOf(xn)))))
		t.logf("65508-byte datagram: %s", es(a.Sendto(s, big[:65508], 0, sa4(lo, portOf(xn)))))
		t.logf("listen on udp: %s", es(a.Listen(s, 1)))
		_, _, err := a.Accept4(s, 0)
		t.logf("accept on udp: %s", es(err))
		t.write("write on unconnected udp", s, []byte("x"))
	}
	scripts["udp/bind-conflicts"] = func(t *tr) {
		a := t.a
		s1 := t.udpSock(lo, 0, false)
		n1, _ := a.Getsockname(s1)
		p := portOf(n1)
		mk := func(reuse bool) int {
			s, _ := a.Socket(syscall.AF_INET, syscall.SOCK_DGRAM|syscall.SOCK_NONBLOCK, 0)
			t.own(s)
			if reuse {
				a.SetsockoptInt(s, syscall.SOL_SOCKET, syscall.SO_REUSEADDR, 1)
			}
			return s
		}
		t.logf("same addr:port, no reuse: %s", es(a.Bind(mk(false), sa4(lo, p))))
		t.logf("same addr:port, reuse on the second only: %s", es(a.Bind(mk(true), sa4(lo, p))))
		t.logf("INADDR_ANY:port against lo:port, no reuse: %s", es(a.Bind(mk(false), sa4([4]byte{}, p))))
		r1 := t.udpSock(lo, 0, true)
		rn, _ := a.Getsockname(r1)
		rp := portOf(rn)
		r2 := mk(true)
		t.logf("both SO_REUSEADDR: %s", es(a.Bind(r2, sa4(lo, rp))))
		r3 := mk(false)
		t.logf("third without reuse: %s", es(a.Bind(r3, sa4(lo, rp))))
		// unicast to a shared port goes to exactly one of them
		s := t.udpSock(lo, 0, false)
		a.Sendto(s, []byte("uni"), 0, sa4(lo, rp))
		a.settle()
		c := 0
		for _, r := range []int{r1, r2} {
			b := make([]byte, 10)
			if k, _, err := a.Recvfrom(r, b, 0); err == nil && k == 3 {
				c++
			}
		}
		t.logf("unicast to a shared port delivered to %d socket(s)", c)
	}
	scripts["udp/any-address"] = func(t *tr) {
		a := t.a
		r := t.udpSock([4]byte{}, 0, false)
		rn, _ := a.Getsockname(r)
		t.logf("name: %s", saStr(rn, true))
		s := t.udpSock([4]byte{}, 0, false)
		t.logf("send to loopback from an INADDR_ANY socket: %s", es(a.Sendto(s, []byte("hi"), 0, sa4(lo, portOf(rn)))))
		a.settle()
		t.recv("r", r, 10)
		t.logf("send to 0.0.0.0: %s", es(a.Sendto(s, []byte("hi"), 0, sa4([4]byte{}, portOf(rn)))))
		a.settle()
		t.recv("r", r, 10)
	}
	// ---------------------------------------------------------------- multicast (on loopback)
	scripts["mcast/defaults-and-setters"] = func(t *tr) {
		a := t.a
		s := t.udpSock([4]byte{}, 0, true)
		geti := func(what string, opt int) {
			v, err := a.GetsockoptInt(s, syscall.IPPROTO_IP, opt)
			t.logf("%s: %d %s", what, v, es(err))
		}
		geti("IP_MULTICAST_TTL default", syscall.IP_MULTICAST_TTL)
		geti("IP_MULTICAST_LOOP default", syscall.IP_MULTICAST_LOOP)
		geti("IP_MULTICAST_ALL default", unix.IP_MULTICAST_ALL)
		ifa, err := a.GetsockoptInet4Addr(s, syscall.IPPROTO_IP, syscall.IP_MULTICAST_IF)
		t.logf("IP_MULTICAST_IF default: %v %s", ifa, es(err))
		t.logf("set TTL 7: %s", es(a.SetsockoptInt(s, syscall.IPPROTO_IP, syscall.IP_MULTICAST_TTL, 7)))
		geti("TTL", syscall.IP_MULTICAST_TTL)
		t.logf("set TTL 255: %s", es(a.SetsockoptInt(s, syscall.IPPROTO_IP, syscall.IP_MULTICAST_TTL, 255)))
		geti("TTL", syscall.IP_MULTICAST_TTL)
		t.logf("set TTL 256: %s", es(a.SetsockoptInt(s, syscall.IPPROTO_IP, syscall.IP_MULTICAST_TTL, 256)))
		geti("TTL", syscall.IP_MULTICAST_TTL)
		t.logf("set TTL -1 (default): %s", es(a.SetsockoptInt(s, syscall.IPPROTO_IP, syscall.IP_MULTICAST_TTL, -1)))
		geti("TTL", syscall.IP_MULTICAST_TTL)
		t.logf("set TTL -2: %s", es(a.SetsockoptInt(s, syscall.IPPROTO_IP, syscall.IP_MULTICAST_TTL, -2)))
		t.logf("set TTL 0: %s", es(a.SetsockoptInt(s, syscall.IPPROTO_IP, syscall.IP_MULTICAST_TTL, 0)))
		geti("TTL", syscall.IP_MULTICAST_TTL)
		t.logf("set LOOP 0: %s", es(a.SetsockoptInt(s, syscall.IPPROTO_IP, syscall.IP_MULTICAST_LOOP, 0)))
		geti("LOOP", syscall.IP_MULTICAST_LOOP)
		t.logf("set LOOP 5: %s", es(a.SetsockoptInt(s, syscall.IPPROTO_IP, syscall.IP_MULTICAST_LOOP, 5)))
		geti("LOOP", syscall.IP_MULTICAST_LOOP)
		t.logf("set ALL 0: %s", es(a.SetsockoptInt(s, syscall.IPPROTO_IP, unix.IP_MULTICAST_ALL, 0)))
		geti("ALL", unix.IP_MULTICAST_ALL)
		t.logf("set IF lo: %s", es(a.SetsockoptInet4Addr(s, syscall.IPPROTO_IP, syscall.IP_MULTICAST_IF, lo)))
		ifa, err = a.GetsockoptInet4Addr(s, syscall.IPPROTO_IP, syscall.IP_MULTICAST_IF)
		t.logf("IF: %v %s", ifa, es(err))
		t.logf("set IF to an address no interface has: %s", es(a.SetsockoptInet4Addr(s, syscall.IPPROTO_IP, syscall.IP_MULTICAST_IF, [4]byte{192, 0, 2, 99})))
		ifa, err = a.GetsockoptInet4Addr(s, syscall.IPPROTO_IP, syscall.IP_MULTICAST_IF)
		t.logf("IF: %v %s", ifa, es(err))
		t.logf("set IF 0.0.0.0: %s", es(a.SetsockoptInet4Addr(s, syscall.IPPROTO_IP, syscall.IP_MULTICAST_IF, [4]byte{})))
		ifa, err = a.GetsockoptInet4Addr(s, syscall.IPPROTO_IP, syscall.IP_MULTICAST_IF)
		t.logf("IF: %v %s", ifa, es(err))
		t.logf("SO_BINDTODEVICE lo: %s", es(t.bindToDevice(s, "lo")))
		t.logf("SO_BINDTODEVICE nosuchif0: %s", es(t.bindToDevice(s, "nosuchif0")))
		tcp, _ := a.Socket(syscall.AF_INET, syscall.SOCK_STREAM, 0)
		t.own(tcp)
		t.logf("IP_ADD_MEMBERSHIP on a tcp socket: %s", es(a.SetsockoptIPMreq(tcp, syscall.IPPROTO_IP, syscall.IP_ADD_MEMBERSHIP, &syscall.IPMreq{Multiaddr: [4]byte{224, 0, 1, 10}, Interface: lo})))
	}
	scripts["mcast/membership-errnos"] = func(t *tr) {
		a := t.a
		s := t.udpSock([4]byte{}, 0, true)
		g := [4]byte{224, 0, 1, 10}
		g2 := [4]byte{224, 0, 1, 11}
		src := [4]byte{127, 0, 0, 1}
		src2 := [4]byte{10, 1, 2, 3}
		mreq := func(g [4]byte) *syscall.IPMreq { return &syscall.IPMreq{Multiaddr: g, Interface: lo} }
		add := func(g [4]byte) error { return a.SetsockoptIPMreq(s, syscall.IPPROTO_IP, syscall.IP_ADD_MEMBERSHIP, mreq(g)) }
		drop := func(g [4]byte) error {
			return a.SetsockoptIPMreq(s, syscall.IPPROTO_IP, syscall.IP_DROP_MEMBERSHIP, mreq(g))
		}
		t.logf("drop, not a member: %s", es(drop(g)))
		t.logf("block source, not a member: %s", es(t.mreqSource(s, syscall.IP_BLOCK_SOURCE, g, lo, src)))
		t.logf("unblock source, not a member: %s", es(t.mreqSource(s, syscall.IP_UNBLOCK_SOURCE, g, lo, src)))
		t.logf("drop source membership, not a member: %s", es(t.mreqSource(s, syscall.IP_DROP_SOURCE_MEMBERSHIP, g, lo, src)))
		t.logf("join a unicast address: %s", es(add([4]byte{10, 0, 0, 1})))
		t.logf("join on an address no interface has: %s", es(a.SetsockoptIPMreq(s, syscall.IPPROTO_IP, syscall.IP_ADD_MEMBERSHIP, &syscall.IPMreq{Multiaddr: g, Interface: [4]byte{192, 0, 2, 99}})))
		t.logf("join: %s", es(add(g)))
		t.logf("join again: %s", es(add(g)))
		t.logf("add source membership on an any-source membership: %s", es(t.mreqSource(s, syscall.IP_ADD_SOURCE_MEMBERSHIP, g, lo, src)))
		t.logf("drop source membership on an any-source membership: %s", es(t.mreqSource(s, syscall.IP_DROP_SOURCE_MEMBERSHIP, g, lo, src)))
		t.logf("unblock a source that is not blocked: %s", es(t.mreqSource(s, syscall.IP_UNBLOCK_SOURCE, g, lo, src)))
		t.logf("block source: %s", es(t.mreqSource(s, syscall.IP_BLOCK_SOURCE, g, lo, src)))
		t.logf("block it again: %s", es(t.mreqSource(s, syscall.IP_BLOCK_SOURCE, g, lo, src)))
		t.logf("block a second source: %s", es(t.mreqSource(s, syscall.IP_BLOCK_SOURCE, g, lo, src2)))
		t.logf("unblock: %s", es(t.mreqSource(s, syscall.IP_UNBLOCK_SOURCE, g, lo, src)))
		t.logf("unblock again: %s", es(t.mreqSource(s, syscall.IP_UNBLOCK_SOURCE, g, lo, src)))
		t.logf("drop: %s", es(drop(g)))
		t.logf("drop again: %s", es(drop(g)))
		// source-specific membership
		t.logf("add source membership (creates the membership): %s", es(t.mreqSource(s, syscall.IP_ADD_SOURCE_MEMBERSHIP, g2, lo, src)))
		t.logf("same again: %s", es(t.mreqSource(s, syscall.IP_ADD_SOURCE_MEMBERSHIP, g2, lo, src)))
		t.logf("second source: %s", es(t.mreqSource(s, syscall.IP_ADD_SOURCE_MEMBERSHIP, g2, lo, src2)))
		t.logf("plain join of a source-specific group: %s", es(add(g2)))
		t.logf("block source on a source-specific membership: %s", es(t.mreqSource(s, syscall.IP_BLOCK_SOURCE, g2, lo, src)))
		t.logf("drop a source that was never added: %s", es(t.mreqSource(s, syscall.IP_DROP_SOURCE_MEMBERSHIP, g2, lo, [4]byte{10, 9, 9, 9})))
		t.logf("drop source 1: %s", es(t.mreqSource(s, syscall.IP_DROP_SOURCE_MEMBERSHIP, g2, lo, src)))
		t.logf("drop source 2 (the last): %s", es(t.mreqSource(s, syscall.IP_DROP_SOURCE_MEMBERSHIP, g2, lo, src2)))
		t.logf("drop membership after the last source went: %s", es(drop(g2)))
		t.logf("add source membership: %s", es(t.mreqSource(s, syscall.IP_ADD_SOURCE_MEMBERSHIP, g2, lo, src)))
		t.logf("drop membership with sources present: %s", es(drop(g2)))
	}
	scripts["mcast/delivery-on-loopback"] = func(t *tr) {
		a := t.a
		g := [4]byte{224, 0, 1, 10}
		g2 := [4]byte{224, 0, 1, 11}
		r := t.udpSock([4]byte{}, 0, true)
		rn, _ := a.Getsockname(r)
		port := portOf(rn)
		s := t.udpSock(lo, 0, false)
		t.logf("sender IF lo: %s", es(a.SetsockoptInet4Addr(s, syscall.IPPROTO_IP, syscall.IP_MULTICAST_IF, lo)))
		send := func(g [4]byte, p string) {
			t.logf("send %q to %v: %s", p, g, es(a.Sendto(s, []byte(p), 0, sa4(g, port))))
			a.settle()
		}
		mreq := &syscall.IPMreq{Multiaddr: g, Interface: lo}
		send(g, "before join")
		t.recv("not joined", r, 100)
		t.logf("join: %s", es(a.SetsockoptIPMreq(r, syscall.IPPROTO_IP, syscall.IP_ADD_MEMBERSHIP, mreq)))
		send(g, "joined")
		t.recv("joined", r, 100)
		send(g2, "other group")
		t.recv("other group", r, 100)
		t.logf("sender LOOP 0: %s", es(a.SetsockoptInt(s, syscall.IPPROTO_IP, syscall.IP_MULTICAST_LOOP, 0)))
		send(g, "loop off")
		t.recv("sender's loop off", r, 100)
		t.logf("sender LOOP 1: %s", es(a.SetsockoptInt(s, syscall.IPPROTO_IP, syscall.IP_MULTICAST_LOOP, 1)))
		t.logf("block the sender: %s", es(t.mreqSource(r, syscall.IP_BLOCK_SOURCE, g, lo, lo)))
		send(g, "blocked")
		t.recv("blocked", r, 100)
		t.logf("unblock: %s", es(t.mreqSource(r, syscall.IP_UNBLOCK_SOURCE, g, lo, lo)))
		send(g, "unblocked")
		t.recv("unblocked", r, 100)
		t.logf("leave: %s", es(a.SetsockoptIPMreq(r, syscall.IPPROTO_IP, syscall.IP_DROP_MEMBERSHIP, mreq)))
		send(g, "left")
		t.recv("left", r, 100)
		// source-specific
		t.logf("join source 10.1.2.3 only: %s", es(t.mreqSource(r, syscall.IP_ADD_SOURCE_MEMBERSHIP, g, lo, [4]byte{10, 1, 2, 3})))
		send(g, "from another source")
		t.recv("source not in the include list", r, 100)
		t.logf("add the sender as a source: %s", es(t.mreqSource(r, syscall.IP_ADD_SOURCE_MEMBERSHIP, g, lo, lo)))
		send(g, "included")
		t.recv("included", r, 100)
		t.logf("drop the sender: %s", es(t.mreqSource(r, syscall.IP_DROP_SOURCE_MEMBERSHIP, g, lo, lo)))
		send(g, "dropped")
		t.recv("dropped", r, 100)
	}
	scripts["mcast/multicast-all"] = func(t *tr) {
		a := t.a
		g := [4]byte{224, 0, 1, 10}
		j := t.udpSock([4]byte{}, 0, true)
		jn, _ := a.Getsockname(j)
		port := portOf(jn)
		other := t.udpSock([4]byte{}, port, true)  // same port, never joins, IP_MULTICAST_ALL=1 (default)
		strict := t.udpSock([4]byte{}, port, true) // same port, never joins, IP_MULTICAST_ALL=0
		t.logf("strict ALL 0: %s", es(a.SetsockoptInt(strict, syscall.IPPROTO_IP, unix.IP_MULTICAST_ALL, 0)))
		s := t.udpSock(lo, 0, false)
		a.SetsockoptInet4Addr(s, syscall.IPPROTO_IP, syscall.IP_MULTICAST_IF, lo)
		send := func(p string) { a.Sendto(s, []byte(p), 0, sa4(g, port)); a.settle() }
		send("nobody joined")
		t.recv("joiner", j, 100)
		t.recv("other", other, 100)
		t.logf("join: %s", es(a.SetsockoptIPMreq(j, syscall.IPPROTO_IP, syscall.IP_ADD_MEMBERSHIP, &syscall.IPMreq{Multiaddr: g, Interface: lo})))
		send("one joined")
		t.recv("joiner", j, 100)
		t.recv("other (ALL=1, same port, never joined)", other, 100)
		t.recv("strict (ALL=0)", strict, 100)
		t.logf("joiner blocks the sender: %s", es(t.mreqSource(j, syscall.IP_BLOCK_SOURCE, g, lo, lo)))
		send("blocked by the joiner")
		t.recv("joiner", j, 100)
		t.recv("other", other, 100)
		// bound to the group address: only that group's traffic
		gb := t.udpSock(g, port, true)
		t.logf("join on the group-bound socket: %s", es(a.SetsockoptIPMreq(gb, syscall.IPPROTO_IP, syscall.IP_ADD_MEMBERSHIP, &syscall.IPMreq{Multiaddr: g, Interface: lo})))
		send("to the group")
		t.recv("group-bound", gb, 100)
		a.Sendto(s, []byte("unicast"), 0, sa4(lo, port))
		a.settle()
		t.recv("group-bound never sees unicast", gb, 100)
	}
}

func errnoOrOK(e syscall.Errno) string {
	if e == 0 {
		return "ok"
	}
	return errnoName(e)
}

// file creates a regular file with the given content and returns its path.
func (t *tr) file(content []byte) string {
	if t.a.sim {
		t.a.w.K.MkFile("/kconf/regular", content)
		return "/kconf/regular"
	}
	f, err := os.CreateTemp("", "kconf")
	if err != nil {
		panic(err)
	}
	f.Write(content)
	f.Close()
	t.tmp = append(t.tmp, f.Name())
	return f.Name()
}

func (t *tr) bindToDevice(s int, name string) error {
	b := append([]byte(name), 0)
	_, _, e := t.a.Syscall6(syscall.SYS_SETSOCKOPT, uintptr(s), uintptr(syscall.SOL_SOCKET), uintptr(syscall.SO_BINDTODEVICE), uintptr(ptr(b)), uintptr(len(b)), 0)
	if e != 0 {
		return e
	}
	return nil
}
