package kconf

import (
	"flag"
	"fmt"
	"os"
	"strings"
	"testing"

	"sonicverif/sim"
)

var only = flag.String("script", "", "run only scripts whose name contains this")
var show = flag.Bool("show", false, "print the live kernel's log of each script")

func runOn(a *api, name string, fn func(*tr)) (lines []string) {
	t := &tr{a: a}
	defer func() {
		if r := recover(); r != nil {
			t.logf("PANIC: %v", r)
		}
		t.cleanup()
		lines = t.lines
	}()
	fn(t)
	return
}

// TestConformance: every script's observation log on the stub kernel equals
// the live kernel's.
func TestConformance(t *testing.T) {
	bad := 0
	total := 0
	for _, name := range sortedKeys(scripts) {
		if *only != "" && !strings.Contains(name, *only) {
			continue
		}
		fn := scripts[name]
		live := runOn(realAPI(), name, fn)
		w := sim.NewWorld(1, []uint32{})
		stub := runOn(simAPI(w), name, fn)
		w.Close()
		total += len(live)
		if *show {
			fmt.Printf("== %s\n", name)
			for _, l := range live {
				fmt.Println("   ", l)
			}
		}
		n := len(live)
		if len(stub) > n {
			n = len(stub)
		}
		for i := 0; i < n; i++ {
			var l, s string
			if i < len(live) {
				l = live[i]
			}
			if i < len(stub) {
				s = stub[i]
			}
			if l != s {
				bad++
				t.Errorf("%s line %d\n   live: %s\n   stub: %s", name, i, l, s)
			}
		}
	}
	fmt.Fprintf(os.Stderr, "kconf: %d scripts, %d observations compared, %d differ\n", len(scripts), total, bad)
}
