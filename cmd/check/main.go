// check is the driver behind ./check: it regenerates the simulation build of
// sonic from /repo's current working tree, fans the seeds of one property out
// over worker processes, aggregates their results into the evidence file,
// verifies (in a fresh process) that every reported violation replays exactly,
// and prints the VIOLATION / KNOWN-FINDING lines of the interface.
//
// exit 0: the property held on everything explored
// exit 1: violation (VIOLATION property=<id> replay=<path> printed)
// exit 2: inconclusive (build failure, watchdog, harness problem) - never a violation
package main

import (
	"bytes"
	"encoding/binary"
	"encoding/json"
	"flag"
	"fmt"
	"os"
	"os/exec"
	"path/filepath"
	"sort"
	"strconv"
	"strings"
	"sync"
	"time"

	"sonicverif/internal/kf"
	"sonicverif/internal/rewrite"
)

const verifDir = "/verif"

type workerResult struct {
	Worker     int               `json:"worker"`
	Runs       int               `json:"runs"`
	Directed   int               `json:"directed_runs"`
	NonTrivial int               `json:"nontrivial_runs"`
	Steps      int64             `json:"steps"`
	SimS       float64           `json:"sim_s"`
	Stats      map[string]int    `json:"stats"`
	ByScenario map[string]int    `json:"by_scenario"`
	KnownHits  map[string]int    `json:"known_hits"`
	Violations []string          `json:"violation_replays"`
	Harness    []string          `json:"harness_errors"`
	Samples    []json.RawMessage `json:"samples"`
	WallS      float64           `json:"wall_s"`
}

var goEnv = []string{"GOFLAGS=-mod=mod", "GOPROXY=off", "GOSUMDB=off", "GOTOOLCHAIN=local"}

func inconclusive(format string, a ...any) {
	fmt.Printf("INCONCLUSIVE "+format+"\n", a...)
	os.Exit(2)
}

func main() {
	tier := flag.String("tier", "", "quick|thorough (default: $VERIF_TIER or quick)")
	replay := flag.String("replay", "", "replay a recorded tape")
	budgetFlag := flag.Float64("budget", 0, "wall-clock budget in seconds for the exploration (default per tier / $VERIF_BUDGET_S)")
	race := flag.Bool("race", false, "build the workers with the race detector (C05)")
	nw := flag.Int("workers", 16, "worker processes")
	keep := flag.Bool("keep", false, "keep the work directory")
	flag.Parse()
	if flag.NArg() < 1 {
		fmt.Println("usage: check <property-id> [--tier quick|thorough] [--replay file]")
		os.Exit(2)
	}
	prop := flag.Arg(0)
	if *tier == "" {
		*tier = os.Getenv("VERIF_TIER")
	}
	if *tier != "thorough" {
		*tier = "quick"
	}
	seed := uint64(1)
	if v := os.Getenv("VERIF_SEED"); v != "" {
		if s, err := strconv.ParseUint(v, 10, 64); err == nil {
			seed = s
		} else if s2, err := strconv.ParseInt(v, 10, 64); err == nil {
			seed = uint64(s2)
		}
	}
	budget := 25.0
	if *tier == "thorough" {
		budget = 600
	}
	if v := os.Getenv("VERIF_BUDGET_S"); v != "" {
		if b, err := strconv.ParseFloat(v, 64); err == nil {
			budget = b
		}
	}
	if *budgetFlag > 0 {
		budget = *budgetFlag
	}
	start := time.Now()

	work := filepath.Join(verifDir, ".work", fmt.Sprintf("%s-%d", prop, os.Getpid()))
	os.MkdirAll(work, 0o755)
	if !*keep {
		defer os.RemoveAll(work)
	}
	exit := func(code int) {
		if !*keep {
			os.RemoveAll(work)
		}
		os.Exit(code)
	}

	// 1. simulation build from the current working tree
	src := "/repo"
	if v := os.Getenv("VERIF_REPO_DIR"); v != "" {
		src = v
	}
	res, err := rewrite.Generate(src, "/repo", filepath.Join(work, "overlay"), map[string]string{
		"codec/websocket/zz_verif_attach.go": filepath.Join(verifDir, "overlay_add/websocket/verif_attach.go.in"),
	})
	if err != nil {
		fmt.Printf("INCONCLUSIVE cannot generate the simulation build: %v\n", err)
		exit(2)
	}
	build := func(withRace bool) string {
		bin := filepath.Join(work, "simrun")
		args := []string{"build", "-overlay", res.OverlayPath}
		if withRace {
			bin += "-race"
			// sonic is instrumented, the simulator and the scenarios are not (their state is
			// handed from task to task through a baton the detector cannot see); checkptr is
			// off because sonic's epoll user-data cast aborts under it (C05 why_tests_cant).
			args = append(args, "-race", "-gcflags=all=-d=checkptr=0", "-gcflags=sonicverif/...=-race=false")
		}
		args = append(args, "-o", bin, "./cmd/simrun")
		cmd := exec.Command("go1.26.8", args...)
		cmd.Dir = verifDir
		cmd.Env = append(os.Environ(), goEnv...)
		if out, err := cmd.CombinedOutput(); err != nil {
			fmt.Printf("INCONCLUSIVE the simulation build of sonic does not compile (a change that needs a kernel entry point the shims lack, or a syntax error):\n%s\n", out)
			exit(2)
		}
		return bin
	}
	raceProps := map[string]bool{"C05": true, "C18": true}
	wantRace := *race || raceProps[prop]
	bin := build(false)
	binRace := ""
	if wantRace {
		binRace = build(true)
	}
	buildS := time.Since(start).Seconds()

	kfPath := filepath.Join(verifDir, "known_findings.json")
	kff, err := kf.Load(kfPath)
	if err != nil {
		fmt.Printf("INCONCLUSIVE known_findings.json: %v\n", err)
		exit(2)
	}

	if *replay != "" {
		var hdr struct {
			Race bool `json:"race"`
		}
		if b, err := os.ReadFile(*replay); err == nil {
			json.Unmarshal(b, &hdr)
		}
		rbin := bin
		if hdr.Race {
			if binRace == "" {
				binRace = build(true)
			}
			rbin = binRace
		}
		var crashHdr struct {
			Crash     bool   `json:"crash"`
			Signature string `json:"signature"`
			Property  string `json:"property"`
		}
		if b, err := os.ReadFile(*replay); err == nil {
			json.Unmarshal(b, &crashHdr)
		}
		if crashHdr.Crash {
			out, _ := exec.Command(rbin, "-replay", *replay, "-known", kfPath).CombinedOutput()
			fmt.Println(tail(string(out), 4000))
			if site, ok := crashSite(string(out)); ok && crashHdr.Property+"/crash/"+site == crashHdr.Signature {
				fmt.Println("REPLAY reproduced exactly (the process dies the same way)")
				fmt.Printf("VIOLATION property=%s replay=%s\n", crashHdr.Property, *replay)
				exit(1)
			}
			fmt.Println("REPLAY did not crash the same way")
			exit(2)
		}
		c := exec.Command(rbin, "-replay", *replay, "-known", kfPath)
		c.Env = append(os.Environ(), "VERIF_REPLAY_TRACE=1")
		c.Stdout, c.Stderr = os.Stdout, os.Stderr
		err := c.Run()
		code := 0
		if ee, ok := err.(*exec.ExitError); ok {
			code = ee.ExitCode()
		} else if err != nil {
			code = 2
		}
		if code == 1 {
			var rp struct {
				Property string `json:"property"`
			}
			b, _ := os.ReadFile(*replay)
			json.Unmarshal(b, &rp)
			fmt.Printf("VIOLATION property=%s replay=%s\n", rp.Property, *replay)
		}
		if code == 3 {
			code = 2
		}
		exit(code)
	}

	// 2. fan out
	replayDir := filepath.Join(verifDir, "replays")
	os.MkdirAll(replayDir, 0o755)
	// a property with a data-race clause gets part of the workers on the race build
	nRace := 0
	if wantRace {
		nRace = *nw / 2
		if *race {
			nRace = *nw
		}
	}
	results := make([]*workerResult, *nw)
	crashes := make([]string, *nw)
	fails := make([]string, *nw)
	isRace := make([]bool, *nw)
	var wg sync.WaitGroup
	for j := 0; j < *nw; j++ {
		wg.Add(1)
		isRace[j] = j >= *nw-nRace
		go func(j int) {
			defer wg.Done()
			out := filepath.Join(work, fmt.Sprintf("w%d.json", j))
			// race workers explore their own seeds (base seed offset) with the same generator
			wseed, wj, wn, wbin := seed, j, *nw-nRace, bin
			if isRace[j] {
				wseed, wj, wn, wbin = seed+0x9e3779b9, j-(*nw-nRace), nRace, binRace
			}
			a := []string{"-prop", prop, "-tier", *tier, "-seed", fmt.Sprint(wseed), "-worker", fmt.Sprint(wj), "-nworkers", fmt.Sprint(wn),
				"-budget", fmt.Sprint(budget), "-out", out, "-known", kfPath, "-replaydir", replayDir}
			if isRace[j] {
				a = append(a, "-racelog", filepath.Join(work, fmt.Sprintf("race%d.log", j)))
			}
			if *tier == "thorough" {
				a = append(a, "-minimise", "300")
			}
			c := exec.Command(wbin, a...)
			var stderr bytes.Buffer
			c.Stderr = &stderr
			c.Stdout = &stderr
			if isRace[j] {
				c.Env = append(os.Environ(), "GORACE=halt_on_error=0 exitcode=0")
			}
			done := make(chan error, 1)
			if err := c.Start(); err != nil {
				fails[j] = err.Error()
				return
			}
			go func() { done <- c.Wait() }()
			limit := time.Duration((budget*1.5 + 400) * float64(time.Second))
			select {
			case err := <-done:
				if err != nil {
					if ee, ok := err.(*exec.ExitError); ok && (ee.ExitCode() == 1 || ee.ExitCode() == 2) {
						// results are in the file
					} else {
						fails[j] = fmt.Sprintf("worker %d: %v\n%s", j, err, tail(stderr.String(), 3000))
					}
				}
			case <-time.After(limit):
				c.Process.Kill()
				fails[j] = fmt.Sprintf("worker %d exceeded its watchdog (%v)", j, limit)
				return
			}
			b, err := os.ReadFile(out)
			if err != nil {
				if site, ok := crashSite(stderr.String()); ok {
					// the process died on a fatal error inside sonic: that run is the violation
					if pr, e2 := os.ReadFile(out + ".progress"); e2 == nil {
						var name string
						var variant int
						var rseed uint64
						if n, _ := fmt.Sscanf(string(pr), "%s %d %d", &name, &variant, &rseed); n == 3 {
							path := filepath.Join(replayDir, fmt.Sprintf("%s-%d-w%d-crash.json", prop, seed, j))
							rp := map[string]any{"property": prop, "scenario": name, "variant": variant, "seed": rseed, "thorough": *tier == "thorough",
								"signature": prop + "/crash/" + site, "crash": true, "race": isRace[j], "tape": nil, "tape_len_before_minimisation": 0,
								"message": "the process died on a fatal error inside sonic during this run (not a recoverable panic):\n" + tail(stderr.String(), 2500)}
							js, _ := json.MarshalIndent(rp, "", " ")
							os.WriteFile(path, js, 0o644)
							crashes[j] = path
							fails[j] = ""
							return
						}
					}
				}
				if fails[j] == "" {
					fails[j] = fmt.Sprintf("worker %d wrote no result: %v\n%s", j, err, tail(stderr.String(), 3000))
				}
				return
			}
			var r workerResult
			if err := json.Unmarshal(b, &r); err != nil {
				fails[j] = fmt.Sprintf("worker %d: bad result: %v", j, err)
				return
			}
			results[j] = &r
		}(j)
	}
	wg.Wait()

	// 3. aggregate
	total := workerResult{Stats: map[string]int{}, ByScenario: map[string]int{}, KnownHits: map[string]int{}}
	distinct := map[uint64]struct{}{}
	var harness []string
	raceRuns := 0
	for j, r := range results {
		if fails[j] != "" {
			harness = append(harness, fails[j])
		}
		if r == nil {
			continue
		}
		total.Runs += r.Runs
		if isRace[j] {
			raceRuns += r.Runs
		}
		total.Directed += r.Directed
		total.NonTrivial += r.NonTrivial
		total.Steps += r.Steps
		total.SimS += r.SimS
		for k, v := range r.Stats {
			total.Stats[k] += v
		}
		for k, v := range r.ByScenario {
			total.ByScenario[k] += v
		}
		for k, v := range r.KnownHits {
			total.KnownHits[k] += v
		}
		total.Violations = append(total.Violations, r.Violations...)
		harness = append(harness, r.Harness...)
		if len(total.Samples) < 4 {
			total.Samples = append(total.Samples, r.Samples...)
		}
		if hb, err := os.ReadFile(filepath.Join(work, fmt.Sprintf("w%d.json.hashes", j))); err == nil {
			for i := 0; i+8 <= len(hb); i += 8 {
				distinct[binary.LittleEndian.Uint64(hb[i:])] = struct{}{}
			}
		}
	}
	for _, p := range crashes {
		if p != "" {
			total.Violations = append(total.Violations, p)
		}
	}
	wall := time.Since(start).Seconds()

	// 4. verify violations in a fresh process
	type viol struct{ path, sig, msg string }
	var confirmed []viol
	seenSig := map[string]bool{}
	sort.Strings(total.Violations)
	for _, p := range total.Violations {
		var rp struct {
			Signature string `json:"signature"`
			Message   string `json:"message"`
			Race      bool   `json:"race"`
			Crash     bool   `json:"crash"`
		}
		b, _ := os.ReadFile(p)
		json.Unmarshal(b, &rp)
		if seenSig[rp.Signature] {
			os.Remove(p)
			continue
		}
		if rp.Crash {
			rb := bin
			if rp.Race {
				rb = binRace
			}
			out, _ := exec.Command(rb, "-replay", p, "-known", kfPath).CombinedOutput()
			if site, ok := crashSite(string(out)); ok && prop+"/crash/"+site == rp.Signature {
				seenSig[rp.Signature] = true
				confirmed = append(confirmed, viol{p, rp.Signature, firstLine(rp.Message)})
			} else {
				harness = append(harness, fmt.Sprintf("replay of %s did not crash the same way: %s", p, tail(string(out), 1500)))
			}
			continue
		}
		rbin := bin
		if rp.Race {
			rbin = binRace
		}
		c := exec.Command(rbin, "-replay", p, "-known", kfPath)
		if rp.Race {
			c.Env = append(os.Environ(), "GORACE=halt_on_error=0 exitcode=0")
		}
		out, err := c.CombinedOutput()
		code := 0
		if ee, ok := err.(*exec.ExitError); ok {
			code = ee.ExitCode()
		}
		if code == 1 {
			seenSig[rp.Signature] = true
			confirmed = append(confirmed, viol{p, rp.Signature, rp.Message})
		} else {
			harness = append(harness, fmt.Sprintf("replay of %s did not reproduce exactly (exit %d): %s", p, code, tail(string(out), 1500)))
		}
	}

	// 5. evidence
	open := kff.Open(prop)
	var excluded []string
	for k := range kff.AvoidSet(prop) {
		excluded = append(excluded, k)
	}
	sort.Strings(excluded)
	faults := map[string]int{}
	probes := map[string]int{}
	for k, v := range total.Stats {
		if strings.HasPrefix(k, "fault:") {
			faults[strings.TrimPrefix(k, "fault:")] = v
		} else {
			probes[strings.TrimPrefix(k, "probe:")] = v
		}
	}
	meta := loadMeta(prop)
	samples := make([]any, 0, len(total.Samples))
	for _, s := range total.Samples {
		samples = append(samples, s)
	}
	if len(samples) == 0 {
		samples = append(samples, "no passing run to sample")
	}
	nd := len(distinct)
	ev := map[string]any{
		"property_id": prop,
		"tier":        *tier,
		"seed":        int64(seed & 0x7fffffffffffffff),
		"level":       meta.Level,
		"wall_s":      wall,
		"violations":  len(confirmed),
		"coverage": map[string]any{
			"evaluations":         total.Runs,
			"distinct_nontrivial": nd,
			"rule": "one evaluation = one simulated run (a fresh World: the rewritten sonic sources on the stub kernel, one tape). " +
				"A run is non-trivial when at least one fault kind or reach probe fired in it; distinct = distinct 64-bit hashes of the complete event trace " +
				"(every kernel call with its result, every delivery, every oracle-visible step) combined with the choice tape that produced it, among the non-trivial runs. " + meta.Rule,
			"samples":                  samples,
			"exhaustive":               false,
			"directed_runs":            total.Directed,
			"runs_by_scenario":         total.ByScenario,
			"runs_per_hour":            int(float64(total.Runs) / (wall - buildS + 0.001) * 3600),
			"simulated_seconds":        total.SimS,
			"scheduler_steps":          total.Steps,
			"faults_fired":             faults,
			"reach_probes":             probes,
			"known_finding_hits":       total.KnownHits,
			"excluded_input_classes":   excluded,
			"real_vs_stub":             meta.RealStub,
			"workers":                  *nw,
			"build_s":                  buildS,
			"race_build":               wantRace,
			"runs_under_race_detector": raceRuns,
			"sonic_files_rewritten":    res.Files,
		},
		"assumptions": meta.Assumptions,
	}
	evDir := filepath.Join(verifDir, "evidence")
	if src != "/repo" {
		// self-test against a scratch copy of the repository (tools/mutate.py): not evidence about /repo
		evDir = filepath.Join(verifDir, ".work", "selftest-evidence")
	}
	os.MkdirAll(evDir, 0o755)
	js, _ := json.MarshalIndent(ev, "", " ")
	if err := os.WriteFile(filepath.Join(evDir, prop+".json"), js, 0o644); err != nil {
		harness = append(harness, "cannot write evidence: "+err.Error())
	}

	// 6. verdict
	var kfSigs []string
	for sig := range open {
		kfSigs = append(kfSigs, sig)
	}
	sort.Strings(kfSigs)
	for _, sig := range kfSigs {
		if total.KnownHits[sig] > 0 {
			fmt.Printf("KNOWN-FINDING: property=%s %s: %s (hit %d times)\n", prop, sig, open[sig].What, total.KnownHits[sig])
		}
	}
	fmt.Printf("%s tier=%s seed=%d runs=%d (directed %d) distinct-nontrivial=%d sim=%.1fs wall=%.1fs violations=%d\n",
		prop, *tier, seed, total.Runs, total.Directed, nd, total.SimS, wall, len(confirmed))
	if len(confirmed) > 0 {
		for _, v := range confirmed {
			fmt.Printf("  %s: %s\n", v.sig, v.msg)
			fmt.Printf("VIOLATION property=%s replay=%s\n", prop, v.path)
		}
		exit(1)
	}
	if len(harness) > 0 {
		for _, h := range harness {
			fmt.Printf("INCONCLUSIVE %s\n", h)
		}
		exit(2)
	}
	if total.Runs == 0 {
		fmt.Println("INCONCLUSIVE no run was executed")
		exit(2)
	}
	exit(0)
}

func firstLine(s string) string {
	if i := strings.IndexByte(s, '\n'); i >= 0 {
		return s[:i]
	}
	return s
}

// crashSite recognises a Go runtime crash (fatal error / fatal signal) and
// returns the innermost sonic function of the crashing goroutine.
func crashSite(stderr string) (string, bool) {
	if !strings.Contains(stderr, "fatal error:") && !strings.Contains(stderr, "unexpected fault address") && !strings.Contains(stderr, "SIGSEGV") && !strings.Contains(stderr, "SIGBUS") {
		return "", false
	}
	i := strings.Index(stderr, "goroutine ")
	if i < 0 {
		return "", false
	}
	for _, l := range strings.Split(stderr[i:], "\n") {
		if l == "" && false {
			break
		}
		if strings.HasPrefix(l, "sonicverif/scen.") || strings.HasPrefix(l, "sonicverif/cmd") {
			return "", false // the crash is in harness code
		}
		if strings.HasPrefix(l, "github.com/talostrading/sonic") {
			fn := l
			if k := strings.LastIndex(fn, "("); k > 0 {
				fn = fn[:k]
			}
			fn = strings.NewReplacer("(", "", ")", "", "*", "").Replace(fn)
			return strings.Trim(strings.TrimPrefix(fn, "github.com/talostrading/sonic"), "/."), true
		}
	}
	return "", false
}

func tail(s string, n int) string {
	if len(s) > n {
		return "..." + s[len(s)-n:]
	}
	return s
}

type propMeta struct {
	Level       string            `json:"level"`
	Rule        string            `json:"rule"`
	RealStub    map[string]string `json:"real_vs_stub"`
	Assumptions []string          `json:"assumptions"`
}

func loadMeta(prop string) propMeta {
	m := propMeta{Level: "exploration"}
	b, err := os.ReadFile(filepath.Join(verifDir, "propmeta.json"))
	if err != nil {
		return m
	}
	var all map[string]propMeta
	if json.Unmarshal(b, &all) != nil {
		return m
	}
	if d, ok := all["default"]; ok {
		m = d
	}
	if p, ok := all[prop]; ok {
		if p.Level != "" {
			m.Level = p.Level
		}
		if p.Rule != "" {
			m.Rule = p.Rule
		}
		if p.RealStub != nil {
			for k, v := range p.RealStub {
				if m.RealStub == nil {
					m.RealStub = map[string]string{}
				}
				m.RealStub[k] = v
			}
		}
		m.Assumptions = append(m.Assumptions, p.Assumptions...)
	}
	if m.Level == "" {
		m.Level = "exploration"
	}
	return m
}
