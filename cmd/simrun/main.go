// simrun is the worker binary: it is built by cmd/check from sonic's working
// tree through the overlay and runs a slice of the seeds of one property, or
// replays one recorded tape.
package main

import (
	"encoding/binary"
	"encoding/json"
	"flag"
	"fmt"
	"os"
	"regexp"
	"runtime"
	"strings"
	"sync"
	"syscall"
	"time"

	"sonicverif/internal/kf"
	"sonicverif/scen"
	"sonicverif/sim"
)

type Replay struct {
	Property                  string   `json:"property"`
	Scenario                  string   `json:"scenario"`
	Variant                   int      `json:"variant"`
	Seed                      uint64   `json:"seed"`
	Thorough                  bool     `json:"thorough"`
	Signature                 string   `json:"signature"`
	Message                   string   `json:"message"`
	TraceHash                 uint64   `json:"trace_hash"`
	Tape                      []uint32 `json:"tape"`
	TapeLenBeforeMinimisation int      `json:"tape_len_before_minimisation"`
	Notes                     []string `json:"notes,omitempty"`
	Trace                     []string `json:"trace,omitempty"`
	Race                      bool     `json:"race,omitempty"`  // needs the race-detector build to reproduce
	Hang                      bool     `json:"hang,omitempty"`  // the violation is that the run never finishes
	Crash                     bool     `json:"crash,omitempty"` // the violation is that the process dies (fatal signal) inside sonic
}

type WorkerResult struct {
	Worker     int            `json:"worker"`
	Runs       int            `json:"runs"`
	Directed   int            `json:"directed_runs"`
	NonTrivial int            `json:"nontrivial_runs"`
	Steps      int64          `json:"steps"`
	SimS       float64        `json:"sim_s"` // simulated seconds (a float: 10^8 runs of hour-long timer histories overflow int64 nanoseconds)
	Stats      map[string]int `json:"stats"`
	ByScenario map[string]int `json:"by_scenario"`
	KnownHits  map[string]int `json:"known_hits"`
	Violations []string       `json:"violation_replays"`
	Harness    []string       `json:"harness_errors"`
	Samples    []Replay       `json:"samples"`
	WallS      float64        `json:"wall_s"`
	FirstSeed  uint64         `json:"first_seed"`
	LastSeed   uint64         `json:"last_seed"`
}

// ---- watchdog: a run that spins without ever finishing (a tight loop inside
// sonic that never enters the kernel cannot be unwound) is reported with the
// stack of the main goroutine; origin sonic => violation, otherwise harness.
type runInfo struct {
	prop, scenario string
	variant        int
	seed           uint64
	thorough       bool
	tape           []uint32
	started        time.Time
	active         bool
}

var (
	lastRunWall time.Duration // wall-clock time of the most recent run
	slowFailure bool          // a slow failing run was reported: this worker stops exploring
	curRunMu    sync.Mutex
	curRun      runInfo
	onHang      func(info runInfo, origin, site, stack string)
	// onHangMinimising: a candidate tape of the delta debugger never finishes (a spin cannot be unwound): the
	// failure being minimised is reported with the tape it was found with
	onHangMinimising func()
	minimising       bool
)

func startWatchdog(limit time.Duration) {
	go func() {
		for {
			time.Sleep(time.Second)
			curRunMu.Lock()
			ri := curRun
			curRunMu.Unlock()
			if !ri.active || time.Since(ri.started) < limit {
				continue
			}
			// the spinning loop is sampled a few times: it may be inside sonic at one instant and inside a transport
			// stub that sonic calls in a loop at the next; the run is sonic's if any sample is
			if minimising && onHangMinimising != nil {
				onHangMinimising()
				os.Exit(4)
			}
			var origin, site, stack string
			for k := 0; k < 5; k++ {
				buf := make([]byte, 1<<20)
				n := runtime.Stack(buf, true)
				stack = string(buf[:n])
				origin, site = hangOrigin(stack)
				if origin == "sonic" {
					break
				}
				time.Sleep(50 * time.Millisecond)
			}
			if onHang != nil {
				onHang(ri, origin, site, stack)
			}
			os.Exit(4)
		}
	}()
}

// hangOrigin looks at the main goroutine's stack (the one running the scenario).
func hangOrigin(stack string) (origin, site string) {
	for _, g := range strings.Split(stack, "\n\n") {
		if !strings.Contains(g, "sonicverif/scen.RunOne") {
			continue
		}
		for _, l := range strings.Split(g, "\n") {
			if strings.HasPrefix(l, "\t") || strings.HasPrefix(l, "goroutine ") || strings.HasPrefix(l, "runtime.") || strings.HasPrefix(l, "syscall.") {
				continue
			}
			if strings.HasPrefix(l, "sonicverif/shim/") || strings.HasPrefix(l, "sonicverif/sim.") {
				continue
			}
			if strings.HasPrefix(l, "github.com/talostrading/sonic") {
				// innermost frame that is not the runtime's or the simulator's is sonic's: the loop is in sonic. The
				// site reported is the OUTERMOST sonic frame of the stack - the entry point the scenario called -
				// because the inner frames change from one sample to the next and the signature must replay.
				return "sonic", outermostSonicFrame(g)
			}
			if strings.HasPrefix(l, "sonicverif/") {
				return "harness", ""
			}
		}
	}
	return "harness", ""
}

func outermostSonicFrame(g string) string {
	site := ""
	for _, l := range strings.Split(g, "\n") {
		if strings.HasPrefix(l, "sonicverif/scen.RunOne") {
			break
		}
		if strings.HasPrefix(l, "github.com/talostrading/sonic") {
			fn := l
			if i := strings.LastIndex(fn, "("); i > 0 {
				fn = fn[:i]
			}
			fn = strings.NewReplacer("(", "", ")", "", "*", "").Replace(fn)
			site = strings.Trim(strings.TrimPrefix(fn, "github.com/talostrading/sonic"), "/.")
		}
	}
	return site
}

var raceLog *os.File
var raceLogOff int64

// setupRaceLog points fd 2 at a file so that the detector's reports can be
// attached to the failure.
func setupRaceLog(path string) {
	if !raceBuild {
		return
	}
	var f *os.File
	var err error
	if path == "" {
		f, err = os.CreateTemp("", "racelog")
		if err == nil {
			os.Remove(f.Name())
		}
	} else {
		f, err = os.OpenFile(path, os.O_CREATE|os.O_RDWR|os.O_TRUNC, 0o644)
	}
	if err != nil {
		return
	}
	if err := syscall.Dup2(int(f.Fd()), 2); err != nil {
		return
	}
	raceLog = f
}

var sonicFrame = regexp.MustCompile(`github\.com/talostrading/sonic(?:/[A-Za-z0-9_/]+)?[./]([A-Za-z0-9_]+\.[^\s]*)\(\)`)

// run executes one scenario run and, in the race build, turns a detector
// report that appeared during it into a failure of the run.
var progressFile *os.File

// noteProgress records which run is about to start, so that the driver can
// tell which run killed the process if it dies on a fatal signal.
func noteProgress(sc *scen.Scenario, variant int, seed uint64) {
	if progressFile == nil {
		return
	}
	var rec [96]byte
	copy(rec[:], fmt.Sprintf("%s %d %d\n", sc.Name, variant, seed))
	progressFile.WriteAt(rec[:], 0)
}

func run(prop string, sc *scen.Scenario, variant int, seed uint64, replay []uint32, trace, thorough bool, known func(string) bool, avoid map[string]bool) scen.Outcome {
	noteProgress(sc, variant, seed)
	before := raceErrors()
	curRunMu.Lock()
	curRun = runInfo{prop: prop, scenario: sc.Name, variant: variant, seed: seed, thorough: thorough, tape: replay, started: time.Now(), active: true}
	curRunMu.Unlock()
	t0 := time.Now()
	o := scen.RunOne(prop, sc, variant, seed, replay, trace, thorough, known, avoid)
	lastRunWall = time.Since(t0)
	curRunMu.Lock()
	curRun.active = false
	curRunMu.Unlock()
	if raceErrors() > before && o.Harness == "" {
		report := ""
		if raceLog != nil {
			st, _ := raceLog.Stat()
			if st != nil && st.Size() > raceLogOff {
				buf := make([]byte, st.Size()-raceLogOff)
				raceLog.ReadAt(buf, raceLogOff)
				raceLogOff = st.Size()
				report = string(buf)
			}
		}
		site := "unknown"
		if m := sonicFrame.FindStringSubmatch(report); m != nil {
			site = strings.NewReplacer("(", "", ")", "", "*", "").Replace(m[1])
		}
		if len(report) > 3500 {
			report = report[:3500] + "..."
		}
		if os.Getenv("VERIF_REPLAY_TRACE") != "" {
			fmt.Println(report)
		}
		if o.Fail == nil {
			o.Fail = &scen.Failure{Property: prop, Scenario: sc.Name, Sig: prop + "/data-race/" + site,
				Msg: "the race detector reported a data race during this simulated run (tasks are physically serialised; the accesses are unordered by the program's own synchronisation):\n" + report}
		}
	}
	return o
}

func mix(a, b uint64) uint64 {
	z := a*0x9e3779b97f4a7c15 ^ (b+0x7f4a7c15)*0xbf58476d1ce4e5b9
	z ^= z >> 29
	z *= 0x94d049bb133111eb
	z ^= z >> 32
	return z
}

func findScenario(prop, name string) *scen.Scenario {
	for _, s := range scen.Scenarios(prop) {
		if s.Name == name {
			return s
		}
	}
	return nil
}

func main() {
	prop := flag.String("prop", "", "property id")
	tier := flag.String("tier", "quick", "quick|thorough")
	seed := flag.Uint64("seed", 1, "base seed")
	worker := flag.Int("worker", 0, "worker index")
	nworkers := flag.Int("nworkers", 1, "number of workers")
	budget := flag.Float64("budget", 20, "wall-clock budget in seconds")
	maxruns := flag.Int("maxruns", 1<<30, "max random runs (all workers together)")
	out := flag.String("out", "", "result file")
	replayPath := flag.String("replay", "", "replay file")
	kfPath := flag.String("known", "/verif/known_findings.json", "known findings")
	replayDir := flag.String("replaydir", "/verif/replays", "where replay files go")
	minBudget := flag.Float64("minimise", 30, "minimisation budget in seconds")
	raceLogPath := flag.String("racelog", "", "race build: file that receives the detector's reports")
	hangS := flag.Float64("hang", 25, "seconds after which a single run counts as hung")
	list := flag.Bool("list", false, "list properties and scenarios")
	flag.Parse()

	if *list {
		for _, p := range scen.Properties() {
			for _, s := range scen.Scenarios(p) {
				fmt.Printf("%s %s weight=%d directed=%d\n", p, s.Name, s.Weight, s.Directed)
			}
		}
		return
	}
	thorough := *tier == "thorough"
	setupRaceLog(*raceLogPath)
	kff, err := kf.Load(*kfPath)
	if err != nil {
		fmt.Fprintln(os.Stderr, "known findings:", err)
		os.Exit(2)
	}

	if *replayPath != "" {
		onHang = func(ri runInfo, origin, site, stack string) {
			sig := ri.prop + "/hang/" + site
			fmt.Printf("REPLAY violation signature=%s\n  the run never finished (origin %s)\n", sig, origin)
			if b, err := os.ReadFile(*replayPath); err == nil {
				var rp Replay
				if json.Unmarshal(b, &rp) == nil && rp.Hang && rp.Signature == sig {
					fmt.Println("REPLAY reproduced exactly")
					os.Exit(1)
				}
			}
			os.Exit(3)
		}
		startWatchdog(time.Duration(*hangS * float64(time.Second)))
		os.Exit(doReplay(*replayPath, kff))
	}

	open := kff.Open(*prop)
	known := func(sig string) bool { _, ok := open[sig]; return ok }
	avoid := kff.AvoidSet(*prop)
	scs := scen.Scenarios(*prop)
	if len(scs) == 0 {
		fmt.Fprintln(os.Stderr, "no scenario for", *prop)
		os.Exit(2)
	}
	res := &WorkerResult{Worker: *worker, Stats: map[string]int{}, ByScenario: map[string]int{}, KnownHits: map[string]int{}}
	start := time.Now()
	if *out != "" {
		progressFile, _ = os.OpenFile(*out+".progress", os.O_CREATE|os.O_RDWR|os.O_TRUNC, 0o644)
	}
	onHang = func(ri runInfo, origin, site, stack string) {
		if len(stack) > 6000 {
			stack = stack[:6000]
		}
		if origin == "sonic" {
			os.MkdirAll(*replayDir, 0o755)
			path := fmt.Sprintf("%s/%s-%d-w%d-hang.json", *replayDir, *prop, *seed, *worker)
			rp := Replay{Property: ri.prop, Scenario: ri.scenario, Variant: ri.variant, Seed: ri.seed, Thorough: ri.thorough, Tape: ri.tape,
				Signature: ri.prop + "/hang/" + site, Hang: true,
				Message: "the run never finished: the loop goroutine spins inside sonic without completing (stack of the goroutine below)\n" + stack}
			js, _ := json.MarshalIndent(rp, "", " ")
			os.WriteFile(path, js, 0o644)
			res.Violations = append(res.Violations, path)
		} else {
			res.Harness = append(res.Harness, fmt.Sprintf("scenario=%s variant=%d seed=%d: run hung in harness code\n%s", ri.scenario, ri.variant, ri.seed, stack))
		}
		res.WallS = time.Since(start).Seconds()
		if *out != "" {
			js, _ := json.Marshal(res)
			os.WriteFile(*out, js, 0o644)
		}
		if origin == "sonic" {
			os.Exit(1)
		}
		os.Exit(2)
	}
	scen.WaitHook = func() {
		curRunMu.Lock()
		curRun.started = time.Now()
		curRunMu.Unlock()
	}
	startWatchdog(time.Duration(*hangS * float64(time.Second)))
	names := sim.StatNames()
	hashes := make([]uint64, 0, 1<<16)
	reported := map[string]bool{}

	account := func(o *scen.Outcome) {
		res.Runs++
		res.Steps += int64(o.Steps)
		res.SimS += float64(o.SimNs) / 1e9
		res.ByScenario[o.Scenario]++
		nt := false
		for i, v := range o.Stats {
			if v != 0 {
				res.Stats[names[i]] += v
				nt = true
			}
		}
		if nt {
			res.NonTrivial++
			// distinctness: the event trace together with the choice tape that produced it
			h := o.TraceHash
			for _, v := range o.Tape {
				h ^= uint64(v)
				h *= 1099511628211
			}
			hashes = append(hashes, h)
		}
		for _, k := range o.KnownHit {
			res.KnownHits[k]++
		}
	}
	handle := func(sc *scen.Scenario, o *scen.Outcome) (stop bool) {
		if o.Harness != "" {
			if len(res.Harness) < 3 {
				os.MkdirAll(*replayDir, 0o755)
				path := fmt.Sprintf("%s/harness-%s-%d-w%d-%d.json", *replayDir, *prop, *seed, *worker, len(res.Harness))
				js, _ := json.MarshalIndent(Replay{Property: o.Prop, Scenario: o.Scenario, Variant: o.Variant, Seed: o.Seed, Thorough: thorough, Tape: o.Tape, Signature: "harness", Message: o.Harness}, "", " ")
				os.WriteFile(path, js, 0o644)
				res.Harness = append(res.Harness, fmt.Sprintf("scenario=%s variant=%d seed=%d tape=%s: %s", o.Scenario, o.Variant, o.Seed, path, o.Harness))
			}
			return true
		}
		if o.Fail == nil {
			return false
		}
		if known(o.Fail.Sig) {
			res.KnownHits[o.Fail.Sig]++
			return false
		}
		if reported[o.Fail.Sig] {
			return false
		}
		reported[o.Fail.Sig] = true
		var rp Replay
		if strings.Contains(o.Fail.Sig, "/data-race/") {
			// the detector reports each pair of stacks once per process: no in-process minimisation
			rp = Replay{Property: o.Prop, Scenario: o.Scenario, Variant: o.Variant, Seed: o.Seed, Thorough: thorough, Signature: o.Fail.Sig, Message: o.Fail.Msg,
				TraceHash: o.TraceHash, Tape: o.Tape, TapeLenBeforeMinimisation: len(o.Tape), Notes: o.Notes, Race: true}
		} else if lastRunWall > 3*time.Second {
			// a run that is this slow (a defect that makes sonic allocate gigabytes, say) is reported as found:
			// delta debugging would repeat it dozens of times
			rp = Replay{Property: o.Prop, Scenario: o.Scenario, Variant: o.Variant, Seed: o.Seed, Thorough: thorough, Signature: o.Fail.Sig, Message: o.Fail.Msg,
				TraceHash: o.TraceHash, Tape: o.Tape, TapeLenBeforeMinimisation: len(o.Tape), Notes: append(o.Notes, "not minimised: the failing run took "+lastRunWall.Round(time.Millisecond).String())}
			slowFailure = true
		} else {
			os.MkdirAll(*replayDir, 0o755)
			onHangMinimising = func() {
				rp := Replay{Property: o.Prop, Scenario: o.Scenario, Variant: o.Variant, Seed: o.Seed, Thorough: thorough, Signature: o.Fail.Sig, Message: o.Fail.Msg,
					TraceHash: o.TraceHash, Tape: o.Tape, TapeLenBeforeMinimisation: len(o.Tape), Notes: append(o.Notes, "not minimised: a shortened tape made the run spin for ever")}
				path := fmt.Sprintf("%s/%s-%d-w%d-%d.json", *replayDir, *prop, *seed, *worker, len(res.Violations))
				js, _ := json.MarshalIndent(rp, "", " ")
				os.WriteFile(path, js, 0o644)
				res.Violations = append(res.Violations, path)
				res.WallS = time.Since(start).Seconds()
				if *out != "" {
					js, _ := json.Marshal(res)
					os.WriteFile(*out, js, 0o644)
				}
				os.Exit(1)
			}
			minimising = true
			rp = minimise(sc, o, thorough, known, avoid, *minBudget)
			minimising = false
		}
		os.MkdirAll(*replayDir, 0o755)
		path := fmt.Sprintf("%s/%s-%d-w%d-%d.json", *replayDir, *prop, *seed, *worker, len(res.Violations))
		js, _ := json.MarshalIndent(rp, "", " ")
		os.WriteFile(path, js, 0o644)
		res.Violations = append(res.Violations, path)
		return len(res.Violations) >= 3 || slowFailure
	}

	// directed variants first, split over the workers
	idx := 0
	stopped := false
	for _, sc := range scs {
		if sc.Thorough && !thorough {
			continue
		}
		for v := 0; v < sc.Directed && !stopped; v++ {
			if idx%*nworkers == *worker {
				s := mix(*seed, uint64(1000003*idx+7))
				o := run(*prop, sc, v, s, nil, false, thorough, known, avoid)
				account(&o)
				res.Directed++
				if len(res.Samples) < 1 && o.Fail == nil && o.Harness == "" {
					res.Samples = append(res.Samples, sample(&o, thorough))
				}
				stopped = handle(sc, &o)
			}
			idx++
		}
	}
	// random runs
	total := 0
	for _, sc := range scs {
		if sc.Thorough && !thorough {
			continue
		}
		total += sc.Weight
	}
	pick := func(r uint64) *scen.Scenario {
		x := int(r % uint64(total))
		for _, sc := range scs {
			if sc.Thorough && !thorough {
				continue
			}
			if x < sc.Weight {
				return sc
			}
			x -= sc.Weight
		}
		return scs[0]
	}
	if total > 0 {
		for i := *worker; i < *maxruns && !stopped; i += *nworkers {
			if time.Since(start).Seconds() > *budget {
				break
			}
			s := mix(*seed, uint64(i)+0x5bd1e995)
			sc := pick(mix(s, 99))
			o := run(*prop, sc, -1, s, nil, false, thorough, known, avoid)
			if res.FirstSeed == 0 {
				res.FirstSeed = s
			}
			res.LastSeed = s
			account(&o)
			if len(res.Samples) < 3 && o.Fail == nil && o.Harness == "" && i%7 == 0 {
				// re-run with tracing for a written-out sample
				o2 := scen.RunOne(*prop, sc, -1, s, nil, true, thorough, known, avoid)
				res.Samples = append(res.Samples, sample(&o2, thorough))
			}
			stopped = handle(sc, &o)
		}
	}
	res.WallS = time.Since(start).Seconds()
	if *out != "" {
		js, _ := json.Marshal(res)
		os.WriteFile(*out, js, 0o644)
		hb := make([]byte, 8*len(hashes))
		for i, h := range hashes {
			binary.LittleEndian.PutUint64(hb[8*i:], h)
		}
		os.WriteFile(*out+".hashes", hb, 0o644)
	} else {
		js, _ := json.MarshalIndent(res, "", " ")
		fmt.Println(string(js))
	}
	if len(res.Harness) > 0 {
		os.Exit(2)
	}
	if len(res.Violations) > 0 {
		os.Exit(1)
	}
}

func sample(o *scen.Outcome, thorough bool) Replay {
	tr := o.Trace
	if len(tr) > 60 {
		tr = append(append([]string(nil), tr[:40]...), fmt.Sprintf("... (%d more lines)", len(o.Trace)-40))
	}
	tp := o.Tape
	if len(tp) > 200 {
		tp = tp[:200]
	}
	return Replay{Property: o.Prop, Scenario: o.Scenario, Variant: o.Variant, Seed: o.Seed, Thorough: thorough, TraceHash: o.TraceHash, Tape: tp, Notes: o.Notes, Trace: tr}
}

// minimise shrinks the tape by delta debugging: a candidate is kept only if a
// fresh run of it fails with the same signature.
func minimise(sc *scen.Scenario, o *scen.Outcome, thorough bool, known func(string) bool, avoid map[string]bool, budgetS float64) Replay {
	target := o.Fail.Sig
	deadline := time.Now().Add(time.Duration(budgetS * float64(time.Second)))
	best := append([]uint32(nil), o.Tape...)
	orig := len(best)
	test := func(t []uint32) (bool, *scen.Outcome) {
		curRunMu.Lock()
		curRun = runInfo{prop: o.Prop, scenario: sc.Name, variant: o.Variant, seed: o.Seed, thorough: thorough, tape: t, started: time.Now(), active: true}
		curRunMu.Unlock()
		r := scen.RunOne(o.Prop, sc, o.Variant, o.Seed, t, false, thorough, known, avoid)
		curRunMu.Lock()
		curRun.active = false
		curRunMu.Unlock()
		if r.Harness == "" && r.Fail != nil && r.Fail.Sig == target {
			return true, &r
		}
		return false, nil
	}
	adopt := func(r *scen.Outcome) {
		best = append([]uint32(nil), r.Tape...) // effective (normalised) tape of that run
	}
	if ok, r := test(best); ok {
		adopt(r)
	} else {
		// does not even reproduce in-process from its own tape: report as is
		return Replay{Property: o.Prop, Scenario: o.Scenario, Variant: o.Variant, Seed: o.Seed, Thorough: thorough, Signature: target,
			Message: o.Fail.Msg + " (NOTE: in-process replay did not reproduce)", TraceHash: o.TraceHash, Tape: o.Tape, TapeLenBeforeMinimisation: orig, Notes: o.Notes}
	}
	trim := func(t []uint32) []uint32 {
		for len(t) > 0 && t[len(t)-1] == 0 {
			t = t[:len(t)-1]
		}
		return t
	}
	best = trim(best)
	for pass := 0; pass < 4 && time.Now().Before(deadline); pass++ {
		changed := false
		// 1. truncate (tail reads as zeros)
		lo, hi := 0, len(best)
		for lo < hi && time.Now().Before(deadline) {
			mid := (lo + hi) / 2
			if ok, r := test(best[:mid]); ok {
				adopt(r)
				best = trim(best)
				if len(best) < hi {
					hi = len(best)
				} else {
					hi = mid
				}
				changed = true
			} else {
				lo = mid + 1
			}
		}
		// 2. delete blocks, 3. zero blocks
		for size := len(best) / 2; size >= 1 && time.Now().Before(deadline); size /= 2 {
			for i := 0; i+size <= len(best) && time.Now().Before(deadline); {
				cand := append(append([]uint32(nil), best[:i]...), best[i+size:]...)
				if ok, r := test(cand); ok {
					adopt(r)
					best = trim(best)
					changed = true
					continue
				}
				allZero := true
				for _, v := range best[i : i+size] {
					if v != 0 {
						allZero = false
					}
				}
				if !allZero {
					cand = append([]uint32(nil), best...)
					for j := i; j < i+size; j++ {
						cand[j] = 0
					}
					if ok, r := test(cand); ok {
						adopt(r)
						best = trim(best)
						changed = true
					}
				}
				i += size
			}
		}
		// 4. lower individual values
		for i := 0; i < len(best) && time.Now().Before(deadline); i++ {
			for best[i] > 0 && time.Now().Before(deadline) {
				cand := append([]uint32(nil), best...)
				cand[i] = best[i] / 2
				if ok, r := test(cand); ok {
					adopt(r)
					best = trim(best)
					changed = true
					if i >= len(best) {
						break
					}
				} else {
					break
				}
			}
		}
		if !changed {
			break
		}
	}
	final := scen.RunOne(o.Prop, sc, o.Variant, o.Seed, best, true, thorough, known, avoid)
	msg := o.Fail.Msg
	if final.Fail != nil {
		msg = final.Fail.Msg
	}
	tr := final.Trace
	if len(tr) > 400 {
		tr = tr[len(tr)-400:]
	}
	return Replay{Property: o.Prop, Scenario: o.Scenario, Variant: o.Variant, Seed: o.Seed, Thorough: thorough, Signature: target, Message: msg,
		TraceHash: final.TraceHash, Tape: final.Tape, TapeLenBeforeMinimisation: orig, Notes: final.Notes, Trace: tr}
}

// doReplay re-executes a recorded tape. Exit 1: the recorded violation
// reproduced exactly; 0: the run passed; 3: it failed differently / the trace
// diverged; 2: harness problem.
func doReplay(path string, kff *kf.File) int {
	b, err := os.ReadFile(path)
	if err != nil {
		fmt.Fprintln(os.Stderr, err)
		return 2
	}
	var rp Replay
	if err := json.Unmarshal(b, &rp); err != nil {
		fmt.Fprintln(os.Stderr, err)
		return 2
	}
	sc := findScenario(rp.Property, rp.Scenario)
	if sc == nil {
		fmt.Fprintln(os.Stderr, "unknown scenario", rp.Scenario)
		return 2
	}
	open := kff.Open(rp.Property)
	known := func(sig string) bool { _, ok := open[sig]; return ok }
	if rp.Race && !raceBuild {
		fmt.Println("REPLAY needs the race-detector build")
		return 2
	}
	o := run(rp.Property, sc, rp.Variant, rp.Seed, rp.Tape, true, rp.Thorough, known, kff.AvoidSet(rp.Property))
	if os.Getenv("VERIF_REPLAY_TRACE") != "" {
		for _, l := range o.Trace {
			fmt.Println(l)
		}
	}
	if o.Harness != "" {
		fmt.Println("REPLAY harness problem:", o.Harness)
		return 2
	}
	if o.Fail == nil {
		fmt.Printf("REPLAY passed (no violation) hash=%d\n", o.TraceHash)
		return 0
	}
	fmt.Printf("REPLAY violation signature=%s hash=%d\n  %s\n", o.Fail.Sig, o.TraceHash, o.Fail.Msg)
	if o.Fail.Sig == rp.Signature && (rp.TraceHash == 0 || o.TraceHash == rp.TraceHash) {
		fmt.Println("REPLAY reproduced exactly")
		return 1
	}
	fmt.Printf("REPLAY diverged: recorded signature=%s hash=%d\n", rp.Signature, rp.TraceHash)
	return 3
}
