//go:build race

package main

import "runtime"

const raceBuild = true

func raceErrors() int { return runtime.RaceErrors() }
