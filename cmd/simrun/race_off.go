//go:build !race

package main

const raceBuild = false

func raceErrors() int { return 0 }
