package main

import (
	"fmt"
	"os"

	"sonicverif/internal/rewrite"
)

func main() {
	src := "/repo"
	if v := os.Getenv("VERIF_REPO_DIR"); v != "" {
		src = v
	}
	res, err := rewrite.Generate(src, "/repo", "/verif/.work/overlay", map[string]string{
		"codec/websocket/zz_verif_attach.go": "/verif/overlay_add/websocket/verif_attach.go.in",
	})
	if err != nil {
		fmt.Fprintln(os.Stderr, "rewrite:", err)
		os.Exit(2)
	}
	fmt.Printf("overlay %s files=%d imports=%d go=%d\n", res.OverlayPath, res.Files, res.Imports, res.GoStmts)
}
