module sonicverif

go 1.24.1

require (
	github.com/talostrading/sonic v0.0.0
	golang.org/x/sys v0.11.0
)

replace github.com/talostrading/sonic => /repo
